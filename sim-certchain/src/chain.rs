//! Certificate workshop: honest chains and adversarial material, all built with REAL keys and
//! REAL STM multi-signatures, deterministically from the scenario configuration.
//!
//! Every certificate of a run (honest or adversarial) is described by a [Recipe]; the list of
//! recipes is part of the replay document, so a replay rebuilds byte-identical certificates
//! (keys derive from party-id strings / seeded ChaCha, timestamps are fixed constants, BLS and
//! Ed25519 signing are deterministic).
use std::collections::BTreeMap;
use std::sync::{Arc, Mutex, OnceLock};

use chrono::{DateTime, TimeZone, Utc};
use rand_chacha::ChaCha20Rng;
use rand_core::SeedableRng;
use serde::{Deserialize, Serialize};

use mithril_common::AggregateSignatureType;
use mithril_common::AncillaryProofInput;
use mithril_common::certificate_chain::CertificateGenesisProducer;
use mithril_common::crypto_helper::{
    GenesisEd25519Signer, GenesisSigner, GenesisVerifier, PROTOCOL_VERSION,
    ProtocolAggregateVerificationKey, ProtocolAggregateVerificationKeyForConcatenation, ProtocolClerk,
    ProtocolMultiSignature,
};
use mithril_common::entities::{
    CardanoDbBeacon, Certificate, CertificateMetadata, CertificateSignature, Epoch, ProtocolMessage,
    ProtocolMessagePartKey, ProtocolParameters, SignedEntityType, StakeDistribution,
    StakeDistributionParty, SupportedEra,
};
use mithril_common::messages::CertificateMessage;
use mithril_common::test::builder::{
    MithrilFixture, MithrilFixtureBuilder, StakeDistributionGenerationMethod,
};
use mithril_common::test::double::Dummy;

/// One signer set: parties (id, stake) and the protocol parameters it signs under.
/// The STM keys of a party are a pure function of its id string (repo fixture code).
#[derive(Clone, Debug, Serialize, Deserialize, PartialEq)]
pub struct SetCfg {
    pub parties: Vec<(String, u64)>,
    pub k: u64,
    pub m: u64,
    pub phi_f: f64,
    /// owned by the adversary (its keys may be used by adversarial recipes)
    pub adversarial: bool,
}

impl SetCfg {
    pub fn params(&self) -> ProtocolParameters {
        ProtocolParameters::new(self.k, self.m, self.phi_f)
    }
}

/// Where a hash value used inside a recipe comes from.
#[derive(Clone, Debug, Serialize, Deserialize, PartialEq)]
pub enum HashRef {
    /// the `hash` field of certificate #id
    Field(usize),
    /// the recomputed content hash of certificate #id
    Content(usize),
    Empty,
    Garbage(u64),
    /// the certificate's own (current) hash field: a self loop
    Own,
}

#[derive(Clone, Debug, Serialize, Deserialize, PartialEq)]
pub enum MsgPart {
    NextAvk,
    NextParams,
    Epoch,
    Digest,
}

impl MsgPart {
    fn key(&self) -> ProtocolMessagePartKey {
        match self {
            MsgPart::NextAvk => ProtocolMessagePartKey::NextAggregateVerificationKey,
            MsgPart::NextParams => ProtocolMessagePartKey::NextProtocolParameters,
            MsgPart::Epoch => ProtocolMessagePartKey::CurrentEpoch,
            MsgPart::Digest => ProtocolMessagePartKey::SnapshotDigest,
        }
    }
}

/// One alteration of a certificate (the adversary's tool box).
#[derive(Clone, Debug, Serialize, Deserialize, PartialEq)]
pub enum Edit {
    Epoch(u64),
    Prev(HashRef),
    SignedMessageGarbage(u64),
    SignedMessageOf(usize),
    /// signed_message := digest(protocol message)
    SignedMessageRecompute,
    MsgNextAvkOfSet(usize),
    MsgNextParamsOfSet(usize),
    /// same key, non canonical (upper-case hex) encoding
    MsgNextAvkUpperCase,
    MsgSet(MsgPart, String),
    MsgRemove(MsgPart),
    MsgFrom(usize),
    MetaParamsOfSet(usize),
    MetaParams(u64, u64, f64),
    MetaSignersOfSet(usize),
    MetaNetwork(String),
    MetaSealedAt(i64),
    AvkOfSet(usize),
    AvkOf(usize),
    /// signature (variant included) copied from certificate #id
    SigOf(usize),
    /// re-sign the current signed_message with (adversarial) set; AVK, parameters and signer list
    /// become that set's
    Resign(usize),
    /// replace only the multi-signature by one of (adversarial) set over the current signed_message
    ResignSigOnly(usize),
    /// turn into a genesis-typed certificate signed with the ADVERSARY's genesis key
    ResignGenesisAdv,
    /// force the hash field (applied after the optional re-hash)
    HashField(HashRef),
    /// INSIDER move: `members` (indices into the LEGITIMATE signer set `set`, a strict subset) sign
    /// the current signed_message. `greedy`: they claim every lottery index (signatures made with
    /// phi_f = 1, which costs an insider nothing: its BLS signature is the same for all indices);
    /// otherwise they play fair and the move only produces a signature if they reach k honestly.
    /// The certificate keeps the honest Merkle commitment of `set` and its parameters; the total
    /// stake carried by the aggregate key becomes `total_stake`.
    InsiderSign { set: usize, members: Vec<usize>, greedy: bool, total_stake: TotalStake },
}

#[derive(Clone, Debug, Serialize, Deserialize, PartialEq)]
pub enum TotalStake {
    /// unaltered key
    Keep,
    /// largest member stake / divisor (at least 1): the largest member's relative stake becomes
    /// ~divisor, so that (nearly) every lottery it claims is a "win". The divisor is kept small by
    /// the generator: the repo's lottery check (exact-rational Taylor series, up to 1000 terms)
    /// takes minutes per certificate once stake / total_stake reaches the hundreds.
    ShrunkBy(u64),
    /// honest total stake * factor
    EnlargedBy(u64),
}

#[derive(Clone, Debug, Serialize, Deserialize, PartialEq)]
pub enum Recipe {
    /// standard certificate signed by `set`, committing to `next_set`
    Signed { epoch: u64, set: usize, next_set: usize, prev: HashRef, digest: String, seq: u64 },
    /// genesis certificate committing to `next_set`
    Genesis { epoch: u64, next_set: usize, adv_key: bool },
    /// altered copy of certificate #base
    Derived { base: usize, edits: Vec<Edit>, rehash: bool },
}

#[derive(Clone, Debug, Serialize, Deserialize)]
pub struct Item {
    pub recipe: Recipe,
    /// produced by the honest aggregator (honest keys); everything else is the adversary's
    pub honest: bool,
    /// short human label for traces
    pub label: String,
}

pub struct Built {
    pub cert: Certificate,
    pub honest: bool,
    pub label: String,
    /// recomputed hash of the content (may differ from `cert.hash` for non re-hashed forgeries)
    pub content_hash: String,
    /// wire form: `CertificateMessage` JSON text
    pub json: String,
}

/// Static part of a scenario: key material description.
#[derive(Clone, Debug, Serialize, Deserialize)]
pub struct Material {
    pub nonce: u64,
    pub sets: Vec<SetCfg>,
}

/// Everything derived from one signer set, computed once.
pub struct SetBuilt {
    key: String,
    fixture: MithrilFixture,
    avk: ProtocolAggregateVerificationKey,
    avk_concat: ProtocolAggregateVerificationKeyForConcatenation,
    avk_hex: String,
    parties: Vec<StakeDistributionParty>,
}

// Per-process memo tables. Both are caches of PURE functions of their key (keys are generated
// from the party-id strings, BLS signing and the lotteries are deterministic), so whether an
// entry is found or recomputed cannot change any result: histories stay a pure function of
// (seed, run) while chain construction is amortised over the histories a worker executes.
fn set_table() -> &'static Mutex<BTreeMap<String, Arc<SetBuilt>>> {
    static T: OnceLock<Mutex<BTreeMap<String, Arc<SetBuilt>>>> = OnceLock::new();
    T.get_or_init(Default::default)
}

fn signature_table() -> &'static Mutex<BTreeMap<(String, String), Option<ProtocolMultiSignature>>> {
    static T: OnceLock<Mutex<BTreeMap<(String, String), Option<ProtocolMultiSignature>>>> = OnceLock::new();
    T.get_or_init(Default::default)
}

const MEMO_LIMIT: usize = 20_000;

pub struct Workshop {
    pub material: Material,
    fixtures: Vec<Option<Arc<SetBuilt>>>,
    honest_genesis: GenesisSigner,
    adv_genesis: GenesisSigner,
    pub items: Vec<Item>,
    pub built: Vec<Built>,
    pub by_content: BTreeMap<String, usize>,
    /// number of STM signing operations performed (cost accounting)
    pub signings: u64,
}

/// Same Merkle commitment, another total stake (edited in the key's JSON encoding).
fn with_total_stake(
    avk: &ProtocolAggregateVerificationKeyForConcatenation,
    total_stake: u64,
) -> ProtocolAggregateVerificationKeyForConcatenation {
    let json = hex::decode(avk.to_json_hex().expect("avk hex")).expect("hex");
    let mut value: serde_json::Value = serde_json::from_slice(&json).expect("avk json");
    assert!(value.get("total_stake").is_some_and(|v| v.is_u64()), "harness bug: AVK JSON layout changed");
    value["total_stake"] = serde_json::json!(total_stake);
    let forged = hex::encode(serde_json::to_vec(&value).expect("json"));
    ProtocolAggregateVerificationKeyForConcatenation::try_from(forged.as_str()).expect("forged avk decodes")
}

fn fixed_time(offset_s: i64) -> DateTime<Utc> {
    Utc.timestamp_opt(1_700_000_000 + offset_s, 0).single().expect("valid timestamp")
}

fn genesis_signer_from_seed(seed: u64) -> GenesisSigner {
    GenesisSigner::from_ed25519(GenesisEd25519Signer::create_test_signer(ChaCha20Rng::seed_from_u64(
        seed,
    )))
}

impl Workshop {
    pub fn new(material: Material) -> Self {
        let n = material.sets.len();
        let honest_genesis = genesis_signer_from_seed(material.nonce ^ 0x6e65_7369_735f_686f);
        let adv_genesis = genesis_signer_from_seed(material.nonce ^ 0x6164_765f_6765_6e65);
        Workshop {
            material,
            fixtures: (0..n).map(|_| None).collect(),
            honest_genesis,
            adv_genesis,
            items: Vec::new(),
            built: Vec::new(),
            by_content: BTreeMap::new(),
            signings: 0,
        }
    }

    pub fn genesis_verifier(&self) -> GenesisVerifier {
        self.honest_genesis.create_verifier()
    }

    pub fn genesis_verification_key_hex(&self) -> String {
        self.genesis_verifier()
            .to_ed25519_verification_key()
            .to_json_hex()
            .expect("encode genesis verification key")
    }

    pub fn add_set(&mut self, set: SetCfg) -> usize {
        self.material.sets.push(set);
        self.fixtures.push(None);
        self.material.sets.len() - 1
    }

    pub fn set(&mut self, set: usize) -> Arc<SetBuilt> {
        if self.fixtures[set].is_none() {
            let cfg = &self.material.sets[set];
            let key = serde_json::to_string(cfg).expect("set key");
            let known = set_table().lock().unwrap().get(&key).cloned();
            let built = match known {
                Some(b) => b,
                None => {
                    let stake: StakeDistribution = cfg.parties.iter().cloned().collect();
                    let fixture = MithrilFixtureBuilder::default()
                        .with_protocol_parameters(cfg.params())
                        .disable_signers_certification()
                        .with_stake_distribution(StakeDistributionGenerationMethod::Custom(stake))
                        .build();
                    let avk = fixture.compute_aggregate_verification_key();
                    let avk_concat = fixture.compute_concatenation_aggregate_verification_key();
                    let avk_hex = fixture.compute_and_encode_concatenation_aggregate_verification_key();
                    let parties = fixture.stake_distribution_parties();
                    let b = Arc::new(SetBuilt { key: key.clone(), fixture, avk, avk_concat, avk_hex, parties });
                    let mut t = set_table().lock().unwrap();
                    if t.len() > MEMO_LIMIT {
                        t.clear();
                    }
                    t.insert(key, b.clone());
                    b
                }
            };
            self.fixtures[set] = Some(built);
        }
        self.fixtures[set].clone().unwrap()
    }

    fn avk_json_hex(&mut self, set: usize) -> String {
        self.set(set).avk_hex.clone()
    }

    /// Real STM signing + aggregation of `message` by every member of `set`.
    fn multi_sign(&mut self, set: usize, message: &str) -> Option<ProtocolMultiSignature> {
        let sb = self.set(set);
        let memo_key = (sb.key.clone(), message.to_string());
        if let Some(known) = signature_table().lock().unwrap().get(&memo_key) {
            return known.clone();
        }
        let res = self.multi_sign_uncached(&sb, message);
        let mut t = signature_table().lock().unwrap();
        if t.len() > MEMO_LIMIT {
            t.clear();
        }
        t.insert(memo_key, res.clone());
        res
    }

    fn multi_sign_uncached(&mut self, sb: &SetBuilt, message: &str) -> Option<ProtocolMultiSignature> {
        self.signings += 1;
        let fx = &sb.fixture;
        let signers = fx.signers_fixture();
        let singles: Vec<_> = signers
            .iter()
            .filter_map(|s| s.protocol_signer.sign(message.as_bytes()))
            .collect();
        let clerk = ProtocolClerk::new_clerk_from_signer(&signers[0].protocol_signer);
        clerk
            .aggregate_signatures_with_type(
                &singles,
                message.as_bytes(),
                AggregateSignatureType::Concatenation,
                AncillaryProofInput::dummy(),
            )
            .ok()
            .map(|(ms, _)| ms.into())
    }

    fn resolve(&self, h: &HashRef, own_hash: &str) -> String {
        match h {
            HashRef::Field(id) => self.built[*id].cert.hash.clone(),
            HashRef::Content(id) => self.built[*id].content_hash.clone(),
            HashRef::Empty => String::new(),
            HashRef::Garbage(x) => format!("{:016x}{:016x}{:016x}{:016x}", x, x ^ 0x55, x.rotate_left(17), !x),
            HashRef::Own => own_hash.to_string(),
        }
    }

    fn check_keys_allowed(&self, honest: bool, set: usize) {
        assert!(
            honest || self.material.sets[set].adversarial,
            "harness bug: an adversarial recipe uses the keys of honest set {set}"
        );
    }

    fn build_signed(
        &mut self,
        epoch: u64,
        set: usize,
        next_set: usize,
        prev: &HashRef,
        digest: &str,
        seq: u64,
    ) -> Certificate {
        let mut msg = ProtocolMessage::new();
        msg.set_message_part(ProtocolMessagePartKey::SnapshotDigest, digest.to_string());
        msg.set_message_part(
            ProtocolMessagePartKey::NextAggregateVerificationKey,
            self.avk_json_hex(next_set),
        );
        msg.set_message_part(
            ProtocolMessagePartKey::NextProtocolParameters,
            self.material.sets[next_set].params().compute_hash(),
        );
        msg.set_message_part(ProtocolMessagePartKey::CurrentEpoch, epoch.to_string());
        // a digest for which the lotteries give no quorum is replaced by the next one (k is small,
        // this is rare); the digest text is part of the recipe result, not of the oracle
        let mut attempt = 0u32;
        let (msg, multi_signature) = loop {
            let signed_message = msg.compute_hash();
            if let Some(ms) = self.multi_sign(set, &signed_message) {
                break (msg, ms);
            }
            attempt += 1;
            assert!(attempt < 50, "cannot reach a quorum with set {set}");
            msg.set_message_part(
                ProtocolMessagePartKey::SnapshotDigest,
                format!("{digest}~{attempt}"),
            );
        };
        let sb = self.set(set);
        let metadata = CertificateMetadata::new(
            "devnet",
            PROTOCOL_VERSION.to_string(),
            self.material.sets[set].params(),
            fixed_time(seq as i64 * 10),
            fixed_time(seq as i64 * 10 + 5),
            sb.parties.clone(),
        );
        let avk = sb.avk.clone();
        let previous_hash = self.resolve(prev, "");
        Certificate::try_new(
            previous_hash,
            Epoch(epoch),
            metadata,
            msg,
            avk,
            CertificateSignature::MultiSignature(
                SignedEntityType::CardanoDatabase(CardanoDbBeacon::new(epoch, seq)),
                multi_signature,
            ),
            None,
            None,
        )
        .expect("certificate hash")
    }

    fn build_genesis(&mut self, epoch: u64, next_set: usize, adv_key: bool) -> Certificate {
        let params = self.material.sets[next_set].params();
        let avk = self.set(next_set).avk.clone();
        let producer = CertificateGenesisProducer::new();
        let era = SupportedEra::Pythagoras;
        let msg = producer
            .create_genesis_protocol_message(&params, &avk, &Epoch(epoch), era)
            .expect("genesis protocol message");
        let signer = if adv_key { &self.adv_genesis } else { &self.honest_genesis };
        let signature = signer
            .sign(&msg, era, &mut ChaCha20Rng::seed_from_u64(0))
            .expect("genesis signature");
        let CertificateSignature::GenesisSignature(signature) = signature else {
            unreachable!("Pythagoras genesis signature is a plain Ed25519 signature")
        };
        let mut cert = producer
            .create_legacy_genesis_certificate(params, "devnet", Epoch(epoch), avk, signature, era)
            .expect("genesis certificate");
        // the producer stamps the wall clock: replace by constants and re-hash
        cert.metadata.initiated_at = fixed_time(-100);
        cert.metadata.sealed_at = fixed_time(-95);
        cert.hash = cert.try_compute_hash().expect("hash");
        cert
    }

    fn apply_edit(&mut self, cert: &mut Certificate, edit: &Edit, honest: bool) {
        match edit {
            Edit::Epoch(e) => cert.epoch = Epoch(*e),
            Edit::Prev(h) => cert.previous_hash = self.resolve(h, &cert.hash),
            Edit::SignedMessageGarbage(x) => cert.signed_message = format!("{x:064x}"),
            Edit::SignedMessageOf(id) => cert.signed_message = self.built[*id].cert.signed_message.clone(),
            Edit::SignedMessageRecompute => cert.signed_message = cert.protocol_message.compute_hash(),
            Edit::MsgNextAvkOfSet(set) => {
                let v = self.avk_json_hex(*set);
                cert.protocol_message
                    .set_message_part(ProtocolMessagePartKey::NextAggregateVerificationKey, v);
            }
            Edit::MsgNextParamsOfSet(set) => {
                let v = self.material.sets[*set].params().compute_hash();
                cert.protocol_message
                    .set_message_part(ProtocolMessagePartKey::NextProtocolParameters, v);
            }
            Edit::MsgNextAvkUpperCase => {
                if let Some(v) = cert
                    .protocol_message
                    .get_message_part(&ProtocolMessagePartKey::NextAggregateVerificationKey)
                    .cloned()
                {
                    cert.protocol_message.set_message_part(
                        ProtocolMessagePartKey::NextAggregateVerificationKey,
                        v.to_uppercase(),
                    );
                }
            }
            Edit::MsgSet(part, v) => {
                cert.protocol_message.set_message_part(part.key(), v.clone());
            }
            Edit::MsgRemove(part) => {
                cert.protocol_message.message_parts.remove(&part.key());
            }
            Edit::MsgFrom(id) => cert.protocol_message = self.built[*id].cert.protocol_message.clone(),
            Edit::MetaParamsOfSet(set) => {
                cert.metadata.protocol_parameters = self.material.sets[*set].params()
            }
            Edit::MetaParams(k, m, phi) => {
                cert.metadata.protocol_parameters = ProtocolParameters::new(*k, *m, *phi)
            }
            Edit::MetaSignersOfSet(set) => cert.metadata.signers = self.set(*set).parties.clone(),
            Edit::MetaNetwork(n) => cert.metadata.network = n.clone(),
            Edit::MetaSealedAt(off) => cert.metadata.sealed_at = fixed_time(*off),
            Edit::AvkOfSet(set) => cert.aggregate_verification_key = self.set(*set).avk_concat.clone(),
            Edit::AvkOf(id) => {
                cert.aggregate_verification_key = self.built[*id].cert.aggregate_verification_key.clone()
            }
            Edit::SigOf(id) => cert.signature = self.built[*id].cert.signature.clone(),
            Edit::Resign(set) => {
                self.check_keys_allowed(honest, *set);
                if let Some(ms) = self.multi_sign(*set, &cert.signed_message.clone()) {
                    let entity = cert.signed_entity_type();
                    cert.signature = CertificateSignature::MultiSignature(entity, ms);
                }
                let sb = self.set(*set);
                cert.aggregate_verification_key = sb.avk_concat.clone();
                cert.metadata.protocol_parameters = self.material.sets[*set].params();
                cert.metadata.signers = sb.parties.clone();
            }
            Edit::ResignSigOnly(set) => {
                self.check_keys_allowed(honest, *set);
                if let Some(ms) = self.multi_sign(*set, &cert.signed_message.clone()) {
                    let entity = cert.signed_entity_type();
                    cert.signature = CertificateSignature::MultiSignature(entity, ms);
                }
            }
            Edit::ResignGenesisAdv => {
                let sig = self.adv_genesis.ed25519.sign(cert.signed_message.as_bytes());
                cert.signature = CertificateSignature::GenesisSignature(sig);
            }
            Edit::HashField(_) => {}
            Edit::InsiderSign { set, members, greedy, total_stake } => {
                let sb = self.set(*set);
                let n = sb.fixture.signers_fixture().len();
                assert!(
                    !members.is_empty() && members.len() < n && members.iter().all(|i| *i < n),
                    "harness bug: an insider coalition is a strict, non-empty subset of the signer set"
                );
                if let Some(ms) = self.insider_sign(&sb, members, *greedy, &cert.signed_message.clone()) {
                    let entity = cert.signed_entity_type();
                    cert.signature = CertificateSignature::MultiSignature(entity, ms);
                }
                let honest_total: u64 = self.material.sets[*set].parties.iter().map(|p| p.1).sum();
                let largest = members
                    .iter()
                    .map(|i| sb.fixture.signers_fixture()[*i].signer_with_stake.stake)
                    .max()
                    .unwrap_or(1);
                let forged_total = match total_stake {
                    TotalStake::Keep => None,
                    TotalStake::ShrunkBy(d) => Some((largest / (*d).max(1)).max(1)),
                    TotalStake::EnlargedBy(f) => Some(honest_total.saturating_mul(*f)),
                };
                cert.aggregate_verification_key = match forged_total {
                    None => sb.avk_concat.clone(),
                    Some(t) => with_total_stake(&sb.avk_concat, t),
                };
                cert.metadata.protocol_parameters = self.material.sets[*set].params();
                cert.metadata.signers = sb.parties.clone();
            }
        }
    }

    /// Multi-signature of a coalition of registered signers of `sb` (memoised like `multi_sign`).
    fn insider_sign(
        &mut self,
        sb: &SetBuilt,
        members: &[usize],
        greedy: bool,
        message: &str,
    ) -> Option<ProtocolMultiSignature> {
        let memo_key = (format!("{}|insider{members:?}|{greedy}", sb.key), message.to_string());
        if let Some(known) = signature_table().lock().unwrap().get(&memo_key) {
            return known.clone();
        }
        self.signings += 1;
        let honest_params = sb.fixture.protocol_parameters();
        let params = if greedy {
            ProtocolParameters::new(honest_params.k, honest_params.m, 1.0)
        } else {
            honest_params
        };
        let all = sb.fixture.signers_fixture();
        let mut singles = Vec::new();
        for i in members {
            let signer = all[*i].clone().try_new_with_protocol_parameters(params.clone()).ok()?;
            if let Some(sig) = signer.protocol_signer.sign(message.as_bytes()) {
                singles.push(sig);
            }
        }
        let clerk = ProtocolClerk::new_clerk_from_closed_key_registration(
            &params.clone().into(),
            &all[0].protocol_closed_key_registration,
        );
        let res: Option<ProtocolMultiSignature> = clerk
            .aggregate_signatures_with_type(
                &singles,
                message.as_bytes(),
                AggregateSignatureType::Concatenation,
                AncillaryProofInput::dummy(),
            )
            .ok()
            .map(|(ms, _)| ms.into());
        let mut t = signature_table().lock().unwrap();
        if t.len() > MEMO_LIMIT {
            t.clear();
        }
        t.insert(memo_key, res.clone());
        res
    }

    /// Build the certificate described by `item` and register it as #id (returned).
    pub fn add(&mut self, item: Item) -> usize {
        let honest = item.honest;
        let cert = match &item.recipe {
            Recipe::Signed { epoch, set, next_set, prev, digest, seq } => {
                self.check_keys_allowed(honest, *set);
                self.build_signed(*epoch, *set, *next_set, prev, digest, *seq)
            }
            Recipe::Genesis { epoch, next_set, adv_key } => {
                assert!(honest || *adv_key, "harness bug: the adversary has no access to the honest genesis key");
                self.build_genesis(*epoch, *next_set, *adv_key)
            }
            Recipe::Derived { base, edits, rehash } => {
                let mut cert = self.built[*base].cert.clone();
                for e in edits {
                    self.apply_edit(&mut cert, e, honest);
                }
                if *rehash {
                    cert.hash = cert.try_compute_hash().expect("hash");
                }
                for e in edits {
                    if let Edit::HashField(h) = e {
                        cert.hash = self.resolve(h, &cert.hash.clone());
                    }
                }
                cert
            }
        };
        let content_hash = cert.try_compute_hash().expect("hash");
        let message: CertificateMessage =
            cert.clone().try_into().expect("certificate to message conversion");
        let json = serde_json::to_string(&message).expect("message to JSON");
        let id = self.built.len();
        // the first certificate with a given content wins the content-address (identical contents
        // are the same certificate as far as the property is concerned)
        if content_hash == cert.hash {
            self.by_content.entry(content_hash.clone()).or_insert(id);
        }
        self.built.push(Built { cert, honest, label: item.label.clone(), content_hash, json });
        self.items.push(item);
        id
    }

    pub fn rebuild(material: Material, items: &[Item]) -> Workshop {
        let mut w = Workshop::new(material);
        for it in items {
            w.add(it.clone());
        }
        w
    }
}
