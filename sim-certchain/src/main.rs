//! E5 certchain-sim: the real `mithril_client` certificate client (`verify_chain`, with and
//! without the real `MemoryCertificateVerifierCache`) and the real common
//! `MithrilCertificateVerifier::verify_certificate_chain`, fed by an untrusted provider that owns
//! an honest chain (real keys, real STM multi-signatures) and an adversary workshop.
//! Serves C03.
mod chain;
mod generate;
mod oracle;
mod provider;

use std::collections::{BTreeMap, BTreeSet};
use std::sync::Arc;

use serde_json::{Value, json};
use sim_core::batch::{self, Engine, Plan, RunCtx, RunReport, Tier, Violation};
use sim_core::ddmin::ddmin;
use sim_core::{Fingerprint, Rng};

use mithril_client::certificate_client::{
    CertificateClient, CertificateVerifierCache, MithrilCertificateVerifier as ClientCertificateVerifier,
};
use mithril_client::feedback::FeedbackSender;
use mithril_common::certificate_chain::{
    CertificateRetriever, CertificateVerifier, MithrilCertificateVerifier as CommonCertificateVerifier,
};
use mithril_common::entities::Certificate;

use chain::Workshop;
use generate::{Event, Scenario, Subject};
use oracle::{Broken, LinkShape, Oracle, link_shape, short};
use provider::{CacheEvent, Provider, RecordingCache, Served, UniverseView};

pub const PROPERTY: &str = "C03";

#[derive(Clone, Debug)]
struct CallResult {
    event_index: usize,
    subject: Subject,
    start: usize,
    accepted: bool,
    accepted_cert: Option<Certificate>,
    error_class: String,
    error_text: String,
    served: Vec<Served>,
    cache_stores: Vec<CacheEvent>,
    cache_hits: Vec<CacheEvent>,
    /// verdict of the independent definition on the accepted certificate
    verdict: Option<Result<usize, Broken>>,
    violation: Option<(String, String)>,
    /// served an object whose hash field is not the hash of its content AND that hash field was
    /// found in the cache during this call
    unverified_hash_cache_hits: BTreeSet<usize>,
    /// a cache hit was answered by a voucher written during a rejected call
    hit_voucher_of_rejected_call: bool,
}

fn classify_error(text: &str) -> &'static str {
    let t = text;
    if t == "verifier panicked" {
        "panic"
    } else if t.contains("simulated transport error") {
        "transport"
    } else if t.contains("certificate hash unmatch") {
        "hash_unmatch"
    } else if t.contains("previous hash unmatch") {
        "previous_hash_unmatch"
    } else if t.contains("protocol message unmatch") {
        "protocol_message_unmatch"
    } else if t.contains("AVK unmatch") {
        "avk_unmatch"
    } else if t.contains("protocol parameters unmatch") {
        "parameters_unmatch"
    } else if t.contains("certificate epoch unmatch") {
        "epoch_unmatch"
    } else if t.contains("missing epoch") {
        "missing_epoch"
    } else if t.contains("infinite loop") {
        "infinite_loop"
    } else if t.contains("multi signature verification failed") {
        "multi_signature"
    } else if t.contains("isn't a genesis certificate") || t.contains("isn't a standard certificate") {
        "wrong_kind"
    } else if t.contains("genesis") {
        "genesis_signature"
    } else if t.contains("does not exist") || t.contains("No certificate exist") || t.contains("not exist") {
        "not_found"
    } else if t.contains("decode") || t.contains("convert") {
        "decode"
    } else {
        "other"
    }
}

fn logger() -> slog::Logger {
    slog::Logger::root(slog::Discard, slog::o!())
}

/// Execute the events against fresh client objects. Pure function of (workshop, events, cf).
fn execute(sc: &Scenario, ws: &Workshop, events: &[Event]) -> Vec<CallResult> {
    let view = UniverseView {
        json: ws.built.iter().map(|b| b.json.clone()).collect(),
        hash_field: ws.built.iter().map(|b| b.cert.hash.clone()).collect(),
        previous_hash: ws.built.iter().map(|b| b.cert.previous_hash.clone()).collect(),
        by_content: ws.by_content.clone(),
    };
    let provider = Provider::new(view);
    let cache = if sc.cache { Some(RecordingCache::new()) } else { None };
    let key_hex = ws.genesis_verification_key_hex();
    let client_verifier = ClientCertificateVerifier::new(
        provider.clone(),
        &key_hex,
        FeedbackSender::new(&[]),
        cache.clone().map(|c| c as Arc<dyn CertificateVerifierCache>),
        logger(),
    )
    .expect("client verifier");
    let client = CertificateClient::new(provider.clone(), Arc::new(client_verifier), logger());
    let common = CommonCertificateVerifier::new(
        logger(),
        provider.clone() as Arc<dyn CertificateRetriever>,
        Arc::new(ws.genesis_verifier()),
    );
    let oracle = Oracle::new(ws.genesis_verifier());
    let rt = tokio::runtime::Builder::new_current_thread().build().expect("tokio runtime");
    let lookup = |h: &str| ws.by_content.get(h).map(|i| &ws.built[*i].cert);

    let mut results = Vec::new();
    for (event_index, ev) in events.iter().enumerate() {
        match ev {
            Event::ResetCache => {
                if let Some(c) = &cache {
                    rt.block_on(c.reset()).expect("cache reset");
                }
            }
            Event::SetRule(l) => provider.set_rule(l.clone()),
            Event::ClearRules => provider.clear_rules(),
            Event::Call { subject, start, lies, note } => {
                if std::env::var_os("VERIF_TRACE").is_some() {
                    eprintln!("trace call {subject:?} start #{start} lies {lies:?} note {note}");
                }
                let call = results.len();
                let start_hash = ws.built[*start].cert.hash.clone();
                provider.begin_call(lies.clone());
                if let Some(c) = &cache {
                    c.begin_call(call);
                }
                // a panic of the code under test on hostile input is not an acceptance: it is
                // recorded as a rejection of class `panic` and counted (probe), never a C03 verdict
                let outcome: Result<Certificate, String> = std::panic::catch_unwind(std::panic::AssertUnwindSafe(|| match subject {
                    Subject::Client => match rt.block_on(client.verify_chain(&start_hash)) {
                        Ok(message) => message.try_into().map_err(|e| format!("accepted message does not convert: {e:#}")),
                        Err(e) => Err(format!("{e:#}")),
                    },
                    Subject::Common => match provider.fetch_message(&start_hash) {
                        Err(e) => Err(format!("{e:#}")),
                        Ok(None) => Err("start certificate does not exist".to_string()),
                        Ok(Some(m)) => match Certificate::try_from(m) {
                            Err(e) => Err(format!("cannot convert start certificate: {e:#}")),
                            Ok(cert) => match rt.block_on(common.verify_certificate_chain(cert.clone())) {
                                Ok(()) => Ok(cert),
                                Err(e) => Err(format!("{e:#}")),
                            },
                        },
                    },
                }))
                .unwrap_or_else(|_| Err("verifier panicked".to_string()));
                let served = provider.end_call();
                let accepted = outcome.is_ok();
                let (cache_stores, cache_hits) = match (&cache, subject) {
                    (Some(c), Subject::Client) => c.end_call(call, accepted),
                    _ => (vec![], vec![]),
                };
                let mut r = CallResult {
                    event_index,
                    subject: *subject,
                    start: *start,
                    accepted,
                    accepted_cert: None,
                    error_class: String::new(),
                    error_text: String::new(),
                    served,
                    cache_stores,
                    cache_hits,
                    verdict: None,
                    violation: None,
                    unverified_hash_cache_hits: BTreeSet::new(),
                    hit_voucher_of_rejected_call: false,
                };
                // probes for the two cache weaknesses
                for s in &r.served {
                    if let Some(id) = s.id {
                        let b = &ws.built[id];
                        if b.cert.hash != b.content_hash && r.cache_hits.iter().any(|h| h.hash == b.cert.hash) {
                            r.unverified_hash_cache_hits.insert(id);
                        }
                    }
                }
                if let Some(c) = &cache {
                    r.hit_voucher_of_rejected_call =
                        r.cache_hits.iter().any(|h| c.is_from_rejected_call(&h.hash));
                }
                match outcome {
                    Ok(cert) => {
                        let verdict = oracle.judge(&cert, &lookup, ws.built.len() + 2);
                        if let Err(b) = &verdict {
                            r.violation = Some((
                                "unsound-accept".to_string(),
                                format!(
                                    "{:?} accepted certificate {} (epoch {}) but its chain breaks rule '{}' at position {}: {}",
                                    subject,
                                    short(&cert.hash),
                                    *cert.epoch,
                                    b.rule,
                                    b.at,
                                    b.detail
                                ),
                            ));
                        }
                        r.verdict = Some(verdict);
                        r.accepted_cert = Some(cert);
                    }
                    Err(text) => {
                        r.error_class = classify_error(&text).to_string();
                        // completeness: the honest chain, honestly served, must verify
                        let honest_call = ws.built[*start].honest
                            && !r.served.is_empty()
                            && r.served.iter().all(|s| {
                                s.lie_kind.is_none() && !s.transport_error && s.id.is_some_and(|i| ws.built[i].honest)
                            });
                        if honest_call {
                            let verdict = oracle.judge(&ws.built[*start].cert, &lookup, ws.built.len() + 2);
                            match verdict {
                                Ok(_) => {
                                    r.violation = Some((
                                        "honest-chain-rejected".to_string(),
                                        format!(
                                            "{:?} rejected honest certificate #{} (epoch {}) although every answer was honest: {}",
                                            subject,
                                            start,
                                            *ws.built[*start].cert.epoch,
                                            text
                                        ),
                                    ));
                                }
                                Err(b) => panic!(
                                    "harness bug: the honest chain does not satisfy the oracle: {b:?} (start #{start})"
                                ),
                            }
                        }
                        r.error_text = text;
                    }
                }
                results.push(r);
            }
        }
    }
    results
}

fn first_violation(results: &[CallResult]) -> Option<&CallResult> {
    results.iter().find(|r| r.violation.is_some())
}

/// ddmin over events, then over the lies of each remaining call.
fn minimise(sc: &Scenario, ws: &Workshop, clause: &str) -> Vec<Event> {
    let fails = |evs: &[Event]| {
        execute(sc, ws, evs)
            .iter()
            .any(|r| r.violation.as_ref().is_some_and(|(c, _)| c == clause))
    };
    let mut events = ddmin(sc.events.clone(), |c| fails(c), 60);
    for i in 0..events.len() {
        let Event::Call { subject, start, lies, note } = events[i].clone() else { continue };
        if lies.len() < 2 {
            if lies.len() == 1 {
                let mut cand = events.clone();
                cand[i] = Event::Call { subject, start, lies: vec![], note: note.clone() };
                if fails(&cand) {
                    events = cand;
                }
            }
            continue;
        }
        let base = events.clone();
        let kept = ddmin(
            lies,
            |ls| {
                let mut cand = base.clone();
                cand[i] = Event::Call { subject, start, lies: ls.to_vec(), note: note.clone() };
                fails(&cand)
            },
            20,
        );
        events[i] = Event::Call { subject, start, lies: kept, note };
    }
    events
}

fn describe_call(ws: &Workshop, ev: &Event, r: &CallResult) -> Value {
    let Event::Call { note, lies, .. } = ev else { return Value::Null };
    let served: Vec<String> = r
        .served
        .iter()
        .map(|s| {
            let what = match s.id {
                Some(i) => {
                    let b = &ws.built[i];
                    format!("#{i} {} epoch {}{}", b.label, *b.cert.epoch, if b.cert.hash != b.content_hash { " [hash field != content]" } else { "" })
                }
                None if s.transport_error => "transport error".to_string(),
                None => "not found".to_string(),
            };
            format!("{} -> {}{}", short(&s.requested), what, s.lie_kind.as_ref().map(|k| format!(" (lie: {k})")).unwrap_or_default())
        })
        .collect();
    json!({
        "subject": format!("{:?}", r.subject),
        "start": format!("#{} {} epoch {}", r.start, ws.built[r.start].label, *ws.built[r.start].cert.epoch),
        "note": note,
        "lies": lies.len(),
        "requests": served,
        "cache_hits": r.cache_hits.iter().map(|h| format!("{} => skip to {}", short(&h.hash), short(&h.previous_hash))).collect::<Vec<_>>(),
        "cache_stores": r.cache_stores.len(),
        "verdict": if r.accepted { "accepted".to_string() } else { format!("rejected: {}", r.error_class) },
        "oracle": match &r.verdict { Some(Ok(n)) => format!("valid chain of {n}"), Some(Err(b)) => format!("{b:?}"), None => "-".into() },
    })
}

fn tally(report: &mut RunReport, sc: &Scenario, ws: &Workshop, results: &[CallResult], fp: &mut Fingerprint, digest: &mut Fingerprint) {
    let mut any_lie = false;
    for r in results {
        report.hit("sim_calls");
        report.hit(match r.subject {
            Subject::Client => "sim_calls_client",
            Subject::Common => "sim_calls_common",
        });
        report.count("sim_certificates_served", r.served.iter().filter(|s| s.id.is_some()).count() as u64);
        let mut kinds: BTreeSet<String> = BTreeSet::new();
        for s in &r.served {
            if s.lie_kind.as_deref() == Some(provider::BUDGET_EXHAUSTED) {
                continue;
            }
            if let Some(k) = &s.lie_kind {
                kinds.insert(k.clone());
            }
            if let Some(i) = s.id
                && !ws.built[i].honest
                && s.lie_kind.is_none()
            {
                kinds.insert(format!("store.{}", ws.built[i].label));
            }
        }
        for k in &kinds {
            report.hit(&format!("fault_{k}"));
            any_lie = true;
        }
        if !r.cache_hits.is_empty() {
            report.hit("probe_call_with_cache_hit");
        }
        if r.served.iter().any(|s| s.lie_kind.as_deref() == Some(provider::BUDGET_EXHAUSTED)) {
            report.hit("probe_verifier_never_stops_asking_cut_by_harness");
        }
        if !r.unverified_hash_cache_hits.is_empty() {
            report.hit("probe_cache_hit_on_object_with_unverified_hash");
        }
        if r.hit_voucher_of_rejected_call {
            report.hit("probe_cache_hit_on_voucher_of_rejected_call");
        }
        let mut forward = false;
        for s in &r.served {
            if let Some(i) = s.id {
                let b = &ws.built[i];
                if let Some(p) = ws.by_content.get(&b.cert.previous_hash)
                    && link_shape(*b.cert.epoch, *ws.built[*p].cert.epoch) == LinkShape::FollowingEpoch
                {
                    forward = true;
                }
            }
        }
        if forward {
            report.hit("probe_served_link_to_following_epoch");
        }
        if r.accepted {
            report.hit("verdict_accepted");
            let c = r.accepted_cert.as_ref().unwrap();
            if c.hash != ws.built[r.start].cert.hash {
                report.hit("probe_accepted_other_hash_than_requested");
            }
            // informational (stricter than the statement): was every member of the valid chain
            // either served during this call or vouched for by a cache hit of this call?
            if matches!(r.verdict, Some(Ok(_))) {
                let mut evidenced: BTreeSet<&str> = r.cache_hits.iter().map(|h| h.hash.as_str()).collect();
                for s in &r.served {
                    if let Some(i) = s.id {
                        evidenced.insert(ws.built[i].content_hash.as_str());
                    }
                }
                let mut cur = c;
                let mut missing = false;
                while !cur.is_genesis() {
                    let Some(p) = ws.by_content.get(&cur.previous_hash) else { break };
                    if !evidenced.contains(ws.built[*p].content_hash.as_str()) {
                        missing = true;
                    }
                    cur = &ws.built[*p].cert;
                }
                if missing {
                    if std::env::var_os("VERIF_TRACE").is_some() {
                        eprintln!("trace unevidenced {}", describe_call(ws, &sc.events[r.event_index], r));
                    }
                    report.hit("probe_accepted_valid_chain_member_neither_served_nor_cache_vouched");
                }
            }
            let all_honest = r.served.iter().all(|s| s.id.is_none_or(|i| ws.built[i].honest));
            if !all_honest && matches!(r.verdict, Some(Ok(_))) {
                report.hit("probe_accepted_valid_chain_with_adversarial_certificates");
            }
        } else {
            report.hit(&format!("verdict_rejected_{}", r.error_class));
            if r.error_class == "panic" {
                report.hit("probe_verifier_panicked");
            }
        }
        let oracle_tag = match &r.verdict {
            Some(Ok(_)) => "valid".to_string(),
            Some(Err(b)) => b.rule.to_string(),
            None => "-".to_string(),
        };
        let verdict_tag = if r.accepted { "accepted".to_string() } else { r.error_class.clone() };
        let kinds_s = kinds.iter().cloned().collect::<Vec<_>>().join(",");
        fp.add(&format!("{:?}|{}|{}|{}|{}", r.subject, verdict_tag, oracle_tag, kinds_s, !r.cache_hits.is_empty()));
        // abstract state: what the call looked like to the verifier
        let mut st = Fingerprint::new();
        st.add(&format!(
            "{:?}|cache={}|{}|{}|{}|hits={}|len={}",
            r.subject,
            sc.cache,
            verdict_tag,
            oracle_tag,
            kinds_s,
            r.cache_hits.len().min(3),
            r.served.len().min(12)
        ));
        report.states.push(st.value());
        digest.add(&format!(
            "call {} {:?} start#{} -> {} / {} / served {:?} / hits {} stores {}",
            r.event_index,
            r.subject,
            r.start,
            verdict_tag,
            oracle_tag,
            r.served.iter().map(|s| (s.id, s.lie_kind.clone(), s.transport_error)).collect::<Vec<_>>(),
            r.cache_hits.len(),
            r.cache_stores.len()
        ));
        // certificate hashes are deterministic here (fixed keys and timestamps): include them
        for s in &r.served {
            digest.add(&s.requested);
        }
    }
    report.nontrivial = !results.is_empty() && (!sc.adversarial || any_lie);
}

struct CertChainEngine;

impl CertChainEngine {
    fn evaluate(sc: &Scenario, ws: &Workshop, ctx_run: u64, want_sample: bool, do_minimise: bool) -> RunReport {
        let mut report = RunReport::new(ctx_run);
        let mut fp = Fingerprint::new();
        let mut digest = Fingerprint::new();
        fp.add(if sc.cache { "cache" } else { "nocache" });
        digest.add(&sc.shape);
        digest.add_u64(ws.built.len() as u64);
        for b in &ws.built {
            digest.add(&b.cert.hash);
            digest.add(&b.content_hash);
        }
        let results = execute(sc, ws, &sc.events);
        tally(&mut report, sc, ws, &results, &mut fp, &mut digest);
        report.count("sim_certificates_built", ws.built.len() as u64);
        report.count("sim_epochs", ws.built.iter().take(sc.honest_n).map(|b| *b.cert.epoch).collect::<BTreeSet<_>>().len() as u64);
        if sc.cache {
            report.hit("sim_runs_with_cache");
        }
        if !sc.adversarial {
            report.hit("sim_runs_fault_free");
        }
        report.fingerprint = fp.value();
        report.digest = digest.value();
        report.states.sort_unstable();
        report.states.dedup();

        if want_sample {
            let calls: Vec<Value> = results.iter().map(|r| describe_call(ws, &sc.events[r.event_index], r)).collect();
            report.sample = Some(json!({
                "run": ctx_run, "cache": sc.cache, "adversarial": sc.adversarial, "honest_chain": sc.shape,
                "certificates_in_workshop": ws.built.len(), "calls": calls,
            }));
        }

        // one violation per violating clause; minimise the first
        if let Some(bad) = first_violation(&results) {
            let (clause, _) = bad.violation.clone().unwrap();
            let events = if do_minimise { minimise(sc, ws, &clause) } else { sc.events.clone() };
            let min_results = execute(sc, ws, &events);
            let (events, min_results) = if min_results.iter().any(|r| r.violation.as_ref().is_some_and(|(c, _)| *c == clause)) {
                (events, min_results)
            } else {
                (sc.events.clone(), results.clone())
            };
            let mut seen: BTreeMap<String, ()> = BTreeMap::new();
            for r in min_results.iter().filter(|r| r.violation.is_some()) {
                let (c, d) = r.violation.clone().unwrap();
                // every finding of this property is repaired in /repo: nothing is attributed
                if seen.insert(c.clone(), ()).is_some() {
                    continue;
                }
                report.violations.push(Violation { property: PROPERTY.into(), clause: c, detail: d, finding: None });
            }
            let trace: Vec<Value> = min_results.iter().map(|r| describe_call(ws, &events[r.event_index], r)).collect();
            let min_sc = Scenario { events, ..sc.clone() };
            report.replay = Some(json!({ "scenario": min_sc, "explained_trace": trace }));
        }
        report
    }
}

impl Engine for CertChainEngine {
    fn name(&self) -> &'static str {
        "certchain-sim"
    }

    fn plan(&self, property: &str, tier: Tier) -> Option<Plan> {
        if property != PROPERTY {
            return None;
        }
        Some(Plan {
            runs: match tier {
                Tier::Quick => 4000,
                Tier::Thorough => 200_000,
            },
            level: "exploration",
            rule: "one run = one seeded history: an honest chain (2-7 epochs, 1-4 certificates per epoch, real keys and STM multi-signatures, signer sets and parameters evolving at epoch boundaries with a per-run stability knob) + an adversary workshop, then 1-6 verify calls (70 % mithril_client verify_chain, 30 % common verify_certificate_chain) against one persistent client (cache in 50 % of runs), each with 0-3 provider lies, plus cache resets and persistent provider mode switches; 20 % of runs are fault-free. A run is non-trivial iff at least one call reached a verdict and, in adversarial runs, at least one lie or adversarial certificate was actually served. distinct = distinct hash of the per-call sequence (subject, verdict / rejection class, oracle verdict, kinds of lies served, cache hit yes/no). states = distinct (subject, cache, verdict class, oracle verdict, lie kinds, #cache hits, #requests) tuples.".into(),
            assumptions: vec![
                "SHA-256 collision resistance (certificates are looked up by content hash in the oracle)".into(),
                "STM aggregate-signature verification and Ed25519 verification are correct judges (C01 / genesis key), used by the oracle as the property names them".into(),
                "cache expiry is not exercised (expiration delay 365 days; the cache reads the wall clock)".into(),
                "Concatenation proofs only (feature future_snark not built)".into(),
            ],
            real_components: vec![
                "mithril-client certificate_client: CertificateClient::verify_chain, MithrilCertificateVerifier (verify.rs), InternalCertificateRetriever (fetch.rs), MemoryCertificateVerifierCache (behind a recording decorator)".into(),
                "mithril-common certificate_chain::MithrilCertificateVerifier (verify_certificate, verify_certificate_chain), Certificate / CertificateMessage conversion and serde JSON, ProtocolMessage / Certificate hashing, GenesisVerifier, Epoch".into(),
                "mithril-stm signing, aggregation and verification; mithril-common fixture code for key generation and registration; CertificateGenesisProducer".into(),
            ],
            stub_components: vec![
                "provider transport: CertificateAggregatorRequest (client) and CertificateRetriever (common) answered from memory by the simulated provider".into(),
                "feedback receivers (none registered), logger (discard)".into(),
            ],
            worker_death_is_violation: false,
            time_cap_s: match tier {
                Tier::Quick => 900,
                Tier::Thorough => 14_400,
            },
        })
    }

    fn run(&self, ctx: &RunCtx) -> RunReport {
        // honest chain + key material: one of CHAIN_POOL chains per seed (memoised per worker)
        let pool = match ctx.tier {
            Tier::Quick => 48,
            Tier::Thorough => 1024,
        };
        let mut chain_rng = Rng::for_run(ctx.seed, "C03-chain", ctx.run % pool);
        let mut rng = Rng::for_run(ctx.seed, PROPERTY, ctx.run);
        let t0 = std::time::Instant::now();
        let (sc, ws) = generate::generate(&mut chain_rng, &mut rng);
        let t1 = t0.elapsed();
        let report = Self::evaluate(&sc, &ws, ctx.run, ctx.want_sample, true);
        // debugging aid: VERIF_DUMP_ON_PROBE=<counter> writes the scenario of every run that hit
        // that counter as a replayable document (replay prints the explained trace)
        if let Ok(probe) = std::env::var("VERIF_DUMP_ON_PROBE")
            && report.counters.contains_key(&probe)
        {
            let dir = sim_core::verif_root().join("replays");
            let _ = std::fs::create_dir_all(&dir);
            let doc = json!({"property": PROPERTY, "clause": "-", "detail": format!("probe {probe}"), "engine": "certchain-sim",
                "seed": ctx.seed, "run": ctx.run, "tier": ctx.tier.as_str(), "replay": {"scenario": sc}});
            let _ = std::fs::write(
                dir.join(format!("probe-{probe}-s{}-r{}.json", ctx.seed, ctx.run)),
                serde_json::to_string_pretty(&doc).unwrap_or_default(),
            );
        }
        if std::env::var_os("VERIF_TIMING").is_some() {
            // diagnostics only (stderr); never part of the report
            eprintln!(
                "timing run={} generate+build={:?} ({} certs, {} signings) execute+judge={:?} violations={}",
                ctx.run,
                t1,
                ws.built.len(),
                ws.signings,
                t0.elapsed() - t1,
                report.violations.len()
            );
        }
        report
    }

    fn replay(&self, doc: &Value) -> RunReport {
        let sc: Scenario = match serde_json::from_value(doc["scenario"].clone()) {
            Ok(s) => s,
            Err(e) => {
                eprintln!("bad replay document: {e}");
                std::process::exit(2)
            }
        };
        let ws = Workshop::rebuild(chain::Material { nonce: sc.material.nonce, sets: sc.material.sets.clone() }, &sc.items);
        let report = Self::evaluate(&sc, &ws, 0, true, false);
        if let Some(s) = &report.sample {
            println!("{}", serde_json::to_string_pretty(s).unwrap_or_default());
        }
        report
    }
}

fn main() {
    // keep worker stderr quiet if the code under test panics (recorded as a rejection, see execute)
    std::panic::set_hook(Box::new(|info| {
        let text = info.to_string();
        if text.contains("harness bug") || std::env::var_os("VERIF_TRACE").is_some() {
            eprintln!("panic: {text}");
        }
    }));
    // the repo's fixture code probes `std::env::temp_dir()` for per-party key files: point it at
    // the simulator's scratch root so that nothing under /tmp can influence a run
    let scratch = sim_core::scratch::scratch_root();
    let _ = std::fs::create_dir_all(&scratch);
    // SAFETY: single-threaded at this point
    unsafe { std::env::set_var("TMPDIR", &scratch) };
    batch::main(&CertChainEngine)
}
