//! The untrusted provider behind the client's aggregator seam (`CertificateAggregatorRequest`)
//! and behind the common verifier's `CertificateRetriever`, plus a recording decorator around the
//! real `MemoryCertificateVerifierCache`.
use std::collections::{BTreeMap, BTreeSet};
use std::sync::{Arc, Mutex};

use anyhow::anyhow;
use async_trait::async_trait;
use serde::{Deserialize, Serialize};

use mithril_client::certificate_client::{
    CertificateAggregatorRequest, CertificateVerifierCache, MemoryCertificateVerifierCache,
};
use mithril_client::{MithrilCertificate, MithrilCertificateListItem, MithrilResult};
use mithril_common::certificate_chain::{CertificateRetriever, CertificateRetrieverError};
use mithril_common::entities::Certificate;
use mithril_common::messages::CertificateMessage;

/// Which request a lie applies to.
#[derive(Clone, Debug, Serialize, Deserialize, PartialEq)]
pub enum LieOn {
    /// requests for the hash FIELD of certificate #id
    Hash(usize),
    /// requests for the `previous_hash` of certificate #id (also when no certificate has that hash:
    /// a dangling link)
    PrevOf(usize),
    /// every request
    Any,
}

#[derive(Clone, Debug, Serialize, Deserialize, PartialEq)]
pub enum Answer {
    NotFound,
    TransportError,
    /// serve certificate #id whatever was asked
    Serve(usize),
    /// serve again whatever was served to the previous request (stale / duplicate answer)
    Stale,
}

#[derive(Clone, Debug, Serialize, Deserialize, PartialEq)]
pub struct Lie {
    pub on: LieOn,
    /// `None`: every time; `Some(n)`: only the n-th (0-based) request of that hash within the call
    pub occ: Option<u32>,
    pub answer: Answer,
    /// fault-kind label (counter name suffix)
    pub kind: String,
}

pub const BUDGET_EXHAUSTED: &str = "request_budget_exhausted";

#[derive(Clone, Debug)]
pub struct Served {
    pub requested: String,
    /// `None`: truthful answer from the store
    pub lie_kind: Option<String>,
    /// certificate served (index into the universe), `None` = not found / error
    pub id: Option<usize>,
    pub transport_error: bool,
}

pub struct UniverseView {
    /// wire JSON of every certificate
    pub json: Vec<String>,
    /// hash FIELD of every certificate
    pub hash_field: Vec<String>,
    /// `previous_hash` of every certificate
    pub previous_hash: Vec<String>,
    /// truthful store: content hash -> certificate (only certificates whose hash field is true)
    pub by_content: BTreeMap<String, usize>,
}

#[derive(Default)]
struct State {
    rules: Vec<Lie>,
    call_lies: Vec<Lie>,
    occ: BTreeMap<String, u32>,
    log: Vec<Served>,
    last_served: Option<usize>,
}

pub struct Provider {
    view: UniverseView,
    state: Mutex<State>,
}

impl Provider {
    pub fn new(view: UniverseView) -> Arc<Self> {
        Arc::new(Provider { view, state: Mutex::new(State::default()) })
    }

    pub fn begin_call(&self, lies: Vec<Lie>) {
        let mut st = self.state.lock().unwrap();
        st.call_lies = lies;
        st.occ.clear();
        st.log.clear();
        st.last_served = None;
    }

    pub fn end_call(&self) -> Vec<Served> {
        let mut st = self.state.lock().unwrap();
        st.call_lies.clear();
        std::mem::take(&mut st.log)
    }

    pub fn set_rule(&self, lie: Lie) {
        self.state.lock().unwrap().rules.push(lie);
    }

    pub fn clear_rules(&self) {
        self.state.lock().unwrap().rules.clear();
    }

    fn request_budget(&self) -> usize {
        4 * self.view.json.len() + 64
    }

    fn matches(&self, lie: &Lie, hash: &str, occ: u32) -> bool {
        let on = match &lie.on {
            LieOn::Any => true,
            LieOn::Hash(id) => self.view.hash_field[*id] == hash,
            LieOn::PrevOf(id) => self.view.previous_hash[*id] == hash,
        };
        on && lie.occ.is_none_or(|n| n == occ)
    }

    /// One request. `Ok(Some(json))`, `Ok(None)` = not found, `Err` = transport error.
    fn answer(&self, hash: &str) -> Result<Option<String>, ()> {
        let mut st = self.state.lock().unwrap();
        // Circuit breaker: a verifier that keeps asking (the client's cache-enabled loop can be
        // sent round in circles, see REPORT.md) is cut off with transport errors so that the call
        // ends. Non-termination is not an acceptance, hence not a C03 verdict; it is counted.
        if st.log.len() >= self.request_budget() {
            st.log.push(Served {
                requested: hash.to_string(),
                lie_kind: Some(BUDGET_EXHAUSTED.to_string()),
                id: None,
                transport_error: true,
            });
            return Err(());
        }
        let occ = {
            let c = st.occ.entry(hash.to_string()).or_insert(0);
            let v = *c;
            *c += 1;
            v
        };
        let lie = st
            .call_lies
            .iter()
            .chain(st.rules.iter())
            .find(|l| self.matches(l, hash, occ))
            .cloned();
        let truthful = self.view.by_content.get(hash).copied();
        let (lie_kind, id, transport_error) = match lie {
            None => (None, truthful, false),
            Some(l) => match l.answer {
                Answer::NotFound => (Some(l.kind), None, false),
                Answer::TransportError => (Some(l.kind), None, true),
                Answer::Serve(id) => {
                    if Some(id) == truthful {
                        // a "lie" that happens to be the truth is not a lie
                        (None, truthful, false)
                    } else {
                        (Some(l.kind), Some(id), false)
                    }
                }
                Answer::Stale => match st.last_served {
                    Some(prev) if Some(prev) != truthful => (Some(l.kind), Some(prev), false),
                    _ => (None, truthful, false),
                },
            },
        };
        if id.is_some() {
            st.last_served = id;
        }
        if std::env::var_os("VERIF_TRACE").is_some() {
            eprintln!("trace request {} occ {} -> {:?} lie {:?}", &hash[..hash.len().min(10)], occ, id, lie_kind);
        }
        st.log.push(Served { requested: hash.to_string(), lie_kind, id, transport_error });
        if transport_error {
            return Err(());
        }
        Ok(id.map(|i| self.view.json[i].clone()))
    }

    /// The wire: JSON text -> `CertificateMessage` (the repo's serde code).
    pub fn fetch_message(&self, hash: &str) -> MithrilResult<Option<CertificateMessage>> {
        match self.answer(hash) {
            Err(()) => Err(anyhow!("simulated transport error")),
            Ok(None) => Ok(None),
            Ok(Some(json)) => {
                let message: CertificateMessage = serde_json::from_str(&json)
                    .map_err(|e| anyhow!("cannot decode certificate message: {e}"))?;
                Ok(Some(message))
            }
        }
    }
}

#[async_trait]
impl CertificateAggregatorRequest for Provider {
    async fn list_latest(&self) -> MithrilResult<Vec<MithrilCertificateListItem>> {
        Ok(Vec::new())
    }

    async fn get_by_hash(&self, hash: &str) -> MithrilResult<Option<MithrilCertificate>> {
        self.fetch_message(hash)
    }
}

#[async_trait]
impl CertificateRetriever for Provider {
    async fn get_certificate_details(
        &self,
        certificate_hash: &str,
    ) -> Result<Certificate, CertificateRetrieverError> {
        let message = self
            .fetch_message(certificate_hash)
            .map_err(CertificateRetrieverError)?
            .ok_or_else(|| CertificateRetrieverError(anyhow!("certificate does not exist: '{certificate_hash}'")))?;
        message.try_into().map_err(CertificateRetrieverError)
    }
}

// ---------------------------------------------------------------------------------------------

#[derive(Clone, Debug)]
pub struct CacheEvent {
    pub call: usize,
    pub hash: String,
    pub previous_hash: String,
}

#[derive(Default)]
struct CacheLog {
    call: usize,
    stores: Vec<CacheEvent>,
    hits: Vec<CacheEvent>,
    /// vouchers written during a call that ended in a rejection (and not re-written since by an
    /// accepted call)
    from_rejected_calls: BTreeSet<String>,
}

/// Recording decorator around the REAL `MemoryCertificateVerifierCache`.
pub struct RecordingCache {
    inner: MemoryCertificateVerifierCache,
    log: Mutex<CacheLog>,
}

impl RecordingCache {
    pub fn new() -> Arc<Self> {
        Arc::new(RecordingCache {
            inner: MemoryCertificateVerifierCache::new(chrono::TimeDelta::days(365)),
            log: Mutex::new(CacheLog::default()),
        })
    }

    pub fn begin_call(&self, call: usize) {
        self.log.lock().unwrap().call = call;
    }

    /// Returns (stores, hits) of the call, and books the vouchers of a rejected call.
    pub fn end_call(&self, call: usize, accepted: bool) -> (Vec<CacheEvent>, Vec<CacheEvent>) {
        let mut log = self.log.lock().unwrap();
        let stores: Vec<CacheEvent> = log.stores.iter().filter(|e| e.call == call).cloned().collect();
        let hits: Vec<CacheEvent> = log.hits.iter().filter(|e| e.call == call).cloned().collect();
        for s in &stores {
            if accepted {
                log.from_rejected_calls.remove(&s.hash);
            } else {
                log.from_rejected_calls.insert(s.hash.clone());
            }
        }
        (stores, hits)
    }

    /// Was this voucher written by a call that was later rejected?
    pub fn is_from_rejected_call(&self, hash: &str) -> bool {
        self.log.lock().unwrap().from_rejected_calls.contains(hash)
    }

    pub fn forget_rejected_bookkeeping(&self) {
        self.log.lock().unwrap().from_rejected_calls.clear();
    }

}

#[async_trait]
impl CertificateVerifierCache for RecordingCache {
    async fn store_validated_certificate(
        &self,
        certificate_hash: &str,
        previous_certificate_hash: &str,
    ) -> MithrilResult<()> {
        {
            let mut log = self.log.lock().unwrap();
            let call = log.call;
            log.stores.push(CacheEvent {
                call,
                hash: certificate_hash.to_string(),
                previous_hash: previous_certificate_hash.to_string(),
            });
        }
        self.inner
            .store_validated_certificate(certificate_hash, previous_certificate_hash)
            .await
    }

    async fn get_previous_hash(&self, certificate_hash: &str) -> MithrilResult<Option<String>> {
        let res = self.inner.get_previous_hash(certificate_hash).await?;
        if let Some(prev) = &res {
            let mut log = self.log.lock().unwrap();
            let call = log.call;
            log.hits.push(CacheEvent {
                call,
                hash: certificate_hash.to_string(),
                previous_hash: prev.clone(),
            });
        }
        Ok(res)
    }

    async fn reset(&self) -> MithrilResult<()> {
        self.forget_rejected_bookkeeping();
        self.inner.reset().await
    }
}
