//! Scenario generation: honest chain shape, adversary workshop, history of calls and lies.
//! Everything is drawn from the one `sim_core::Rng` of the run; the result is fully concrete
//! (recipes + events), so the scenario alone replays.
use std::collections::BTreeMap;

use serde::{Deserialize, Serialize};
use sim_core::Rng;

use crate::chain::{Edit, HashRef, Item, Material, MsgPart, Recipe, SetCfg, TotalStake, Workshop};
use crate::provider::{Answer, Lie, LieOn};

#[derive(Clone, Copy, Debug, Serialize, Deserialize, PartialEq, Eq)]
pub enum Subject {
    /// `mithril_client::certificate_client::CertificateClient::verify_chain(hash)`
    Client,
    /// `mithril_common::certificate_chain::CertificateVerifier::verify_certificate_chain(cert)`
    Common,
}

#[derive(Clone, Debug, Serialize, Deserialize, PartialEq)]
pub enum Event {
    /// verify the chain of the certificate whose hash FIELD is that of #start
    Call { subject: Subject, start: usize, lies: Vec<Lie>, note: String },
    ResetCache,
    /// provider mode switch: a persistent answer rule
    SetRule(Lie),
    ClearRules,
}

#[derive(Clone, Debug, Serialize, Deserialize)]
pub struct Scenario {
    pub material: Material,
    pub items: Vec<Item>,
    /// the client is built with the real MemoryCertificateVerifierCache
    pub cache: bool,
    pub adversarial: bool,
    pub honest_n: usize,
    pub shape: String,
    pub events: Vec<Event>,
}

#[derive(Clone, Copy, PartialEq, Debug)]
enum LinkMethod {
    Master,
    Sequential,
    Random,
}

struct Gen<'a> {
    rng: &'a mut Rng,
    ws: Workshop,
    /// honest certificate ids per epoch (first entry of the genesis epoch is the genesis certificate)
    per_epoch: BTreeMap<u64, Vec<usize>>,
    set_of_epoch: BTreeMap<u64, usize>,
    adv_sets: Vec<usize>,
    g0: u64,
    last_epoch: u64,
    honest_n: usize,
    seq: u64,
    events: Vec<Event>,
    calls: usize,
    max_calls: usize,
    adversarial: bool,
    /// paths of honest starts already verified through the client (their vouchers may be cached)
    primed_paths: Vec<Vec<usize>>,
}

fn lie(on: usize, answer: Answer, kind: &str) -> Lie {
    Lie { on: LieOn::Hash(on), occ: None, answer, kind: kind.to_string() }
}

impl<'a> Gen<'a> {
    fn random_params(&mut self) -> (u64, u64, f64) {
        let phi = *self.rng.pick(&[0.65f64, 0.8, 0.95]);
        if self.rng.chance(0.35) {
            // demanding quorum: a strict subset of the signers does not reach k by fair play
            let m = self.rng.range(60, 100);
            return (m * 35 / 100, m, phi);
        }
        let k = *self.rng.pick(&[5u64, 5, 5, 4, 6, 3]);
        let m = self.rng.range(40, 100);
        (k, m, phi)
    }

    /// A coalition of registered signers of `set` (strict subset) and the INSIDER signing edit.
    fn insider_edit(&mut self, set: usize, flavour: usize) -> (String, Edit) {
        let n = self.ws.material.sets[set].parties.len();
        let size = if self.rng.chance(0.6) { 1 } else { self.rng.range(1, n as u64 - 1) as usize };
        let mut idx: Vec<usize> = (0..n).collect();
        self.rng.shuffle(&mut idx);
        let mut members: Vec<usize> = idx.into_iter().take(size).collect();
        members.sort_unstable();
        // relative stake r with r * |ln(1 - phi_f)| of about 9 or 14: win probability per claimed
        // index 1 - e^-9 (resp. e^-14), and a lottery check that still converges quickly
        let phi_f = self.ws.material.sets[set].phi_f;
        let target = *self.rng.pick(&[9.0f64, 9.0, 14.0]);
        let divisor = (target / (1.0 - phi_f).ln().abs()).ceil().max(2.0) as u64;
        let (label, greedy, total_stake) = match flavour {
            0 => ("insider_total_stake_shrunk", true, TotalStake::ShrunkBy(divisor)),
            1 => ("insider_total_stake_enlarged", true, TotalStake::EnlargedBy(*self.rng.pick(&[2u64, 1000]))),
            2 => ("insider_greedy_key_unaltered", true, TotalStake::Keep),
            3 => ("insider_fair_subset_key_unaltered", false, TotalStake::Keep),
            _ => ("insider_fair_subset_total_stake_shrunk", false, TotalStake::ShrunkBy(divisor)),
        };
        (label.to_string(), Edit::InsiderSign { set, members, greedy, total_stake })
    }

    fn new_set(&mut self, adversarial: bool, params: Option<(u64, u64, f64)>) -> usize {
        let n = self.rng.range(3, 5) as usize;
        let tag = self.ws.material.sets.len();
        let nonce = (self.ws.material.nonce & 0xffff_ffff) as u32;
        let who = if adversarial { 'a' } else { 'h' };
        let parties = (0..n)
            .map(|i| (format!("{who}{nonce:08x}s{tag}p{i}"), self.rng.range(1, 1000)))
            .collect();
        let (k, m, phi_f) = params.unwrap_or_else(|| self.random_params());
        self.ws.add_set(SetCfg { parties, k, m, phi_f, adversarial })
    }

    /// The honest signer set of the next epoch, derived from the current one.
    fn evolve_set(&mut self, cur: usize) -> usize {
        let base = self.ws.material.sets[cur].clone();
        match self.rng.weighted(&[20, 30, 25, 25]) {
            0 => {
                // protocol-parameter change only: same keys and stakes, hence the same aggregate key
                let (k, m, phi_f) = self.random_params();
                self.ws.add_set(SetCfg { k, m, phi_f, ..base })
            }
            1 => {
                let mut s = base;
                for p in s.parties.iter_mut() {
                    p.1 = self.rng.range(1, 1000);
                }
                self.ws.add_set(s)
            }
            2 => {
                let mut s = base;
                let tag = self.ws.material.sets.len();
                let nonce = (self.ws.material.nonce & 0xffff_ffff) as u32;
                let i = self.rng.index(s.parties.len());
                s.parties[i] = (format!("h{nonce:08x}s{tag}r{i}"), self.rng.range(1, 1000));
                self.ws.add_set(s)
            }
            _ => {
                let params = if self.rng.chance(0.7) { Some((base.k, base.m, base.phi_f)) } else { None };
                self.new_set(false, params)
            }
        }
    }

    fn add_item(&mut self, recipe: Recipe, honest: bool, label: &str) -> usize {
        self.ws.add(Item { recipe, honest, label: label.to_string() })
    }

    fn honest_chain(&mut self) -> String {
        self.g0 = self.rng.range(1, 40);
        let n_epochs = self.rng.range(2, 7);
        self.last_epoch = self.g0 + n_epochs - 1;
        let stability = *self.rng.pick(&[0.0f64, 0.0, 0.0, 0.4, 0.75, 1.0]);
        let first = self.new_set(false, None);
        self.set_of_epoch.insert(self.g0, first);
        self.set_of_epoch.insert(self.g0 + 1, first);
        for e in self.g0 + 2..=self.last_epoch + 1 {
            let cur = self.set_of_epoch[&(e - 1)];
            let next = if self.rng.chance(stability) { cur } else { self.evolve_set(cur) };
            self.set_of_epoch.insert(e, next);
        }
        let method = *self.rng.pick(&[LinkMethod::Master, LinkMethod::Sequential, LinkMethod::Random]);
        // genesis
        let next_set = self.set_of_epoch[&(self.g0 + 1)];
        let g = self.add_item(Recipe::Genesis { epoch: self.g0, next_set, adv_key: false }, true, "honest.genesis");
        self.per_epoch.insert(self.g0, vec![g]);
        for e in self.g0..=self.last_epoch {
            let n = if e == self.g0 {
                if self.rng.chance(0.85) { 0 } else { self.rng.range(1, 2) }
            } else {
                self.rng.range(1, 4)
            };
            for j in 0..n {
                let in_epoch = self.per_epoch.get(&e).cloned().unwrap_or_default();
                let prev = if in_epoch.is_empty() {
                    let before = &self.per_epoch[&(e - 1)];
                    match method {
                        LinkMethod::Master => before[0],
                        LinkMethod::Sequential => *before.last().unwrap(),
                        LinkMethod::Random => *self.rng.pick(before),
                    }
                } else {
                    match method {
                        LinkMethod::Master => in_epoch[0],
                        LinkMethod::Sequential => *in_epoch.last().unwrap(),
                        LinkMethod::Random => *self.rng.pick(&in_epoch),
                    }
                };
                self.seq += 1;
                let id = self.add_item(
                    Recipe::Signed {
                        epoch: e,
                        set: self.set_of_epoch[&e],
                        next_set: self.set_of_epoch[&(e + 1)],
                        prev: HashRef::Field(prev),
                        digest: format!("digest-{e}-{j}"),
                        seq: self.seq,
                    },
                    true,
                    "honest",
                );
                self.per_epoch.entry(e).or_default().push(id);
            }
        }
        self.honest_n = self.ws.built.len();
        format!(
            "epochs {}..{} certs/epoch {:?} link={method:?} set-stability={stability} sets/epoch {:?}",
            self.g0,
            self.last_epoch,
            self.per_epoch.values().map(|v| v.len()).collect::<Vec<_>>(),
            self.set_of_epoch.values().collect::<Vec<_>>()
        )
    }

    fn epoch_of(&self, id: usize) -> u64 {
        *self.ws.built[id].cert.epoch
    }

    fn path(&self, id: usize) -> Vec<usize> {
        let mut out = vec![id];
        let mut cur = id;
        while out.len() < 64 {
            let prev = &self.ws.built[cur].cert.previous_hash;
            match self.ws.by_content.get(prev) {
                Some(p) => {
                    out.push(*p);
                    cur = *p;
                }
                None => break,
            }
        }
        out
    }

    fn honest_ids(&self) -> Vec<usize> {
        (0..self.honest_n).collect()
    }

    fn pick_honest_start(&mut self) -> usize {
        if self.rng.chance(0.6) {
            let last = self.per_epoch.iter().rev().find(|(_, v)| !v.is_empty()).map(|(_, v)| v.clone()).unwrap();
            *self.rng.pick(&last)
        } else {
            self.rng.index(self.honest_n)
        }
    }

    fn adv_set(&mut self) -> usize {
        *self.rng.pick(&self.adv_sets.clone())
    }

    fn subject(&mut self) -> Subject {
        if self.rng.chance(0.7) { Subject::Client } else { Subject::Common }
    }

    fn push_call(&mut self, subject: Subject, start: usize, lies: Vec<Lie>, note: &str) {
        // 1-6 calls are planned; a campaign may overshoot, never beyond 8
        if self.calls >= 8 {
            return;
        }
        if self.calls > 0 && self.rng.chance(0.12) {
            self.events.push(Event::ResetCache);
        }
        if subject == Subject::Client && lies.is_empty() && self.ws.built[start].honest {
            self.primed_paths.push(self.path(start));
        }
        // "a different valid certificate for the requested hash" is a first-class answer at every
        // fetch site (first-loop fetch of the previous certificate, objects handed to the
        // cache-enabled loop, downloads after a cache hit), on honest and forged paths alike and
        // in whatever state earlier calls left the cache
        let mut lies = lies;
        let mut note = note.to_string();
        if self.adversarial && lies.len() < 3 && self.rng.chance(0.2) {
            let l = self.swap_lie(start, None);
            note.push_str(&format!(" +{}", l.kind));
            lies.push(l);
        }
        self.events.push(Event::Call { subject, start, lies, note });
        self.calls += 1;
    }

    /// A valid certificate that is NOT the one a request on the path of `start` asks for.
    /// `at`: position on the path (`None` = random; `path.len()` = the request for the previous
    /// hash of the last certificate of the path, i.e. a dangling link).
    fn swap_lie(&mut self, start: usize, at: Option<usize>) -> Lie {
        let path = self.path(start);
        let last = *path.last().unwrap();
        let dangling = !self.ws.built[last].cert.is_genesis();
        let positions = path.len() + usize::from(dangling);
        let pos = at.unwrap_or_else(|| self.rng.index(positions)).min(positions - 1);
        let (on, expected_epoch) = if pos < path.len() {
            (LieOn::Hash(path[pos]), self.epoch_of(path[pos]))
        } else {
            (LieOn::PrevOf(last), self.epoch_of(last).saturating_sub(self.rng.below(2)))
        };
        // what is served instead: an honest certificate of the expected epoch (first / any), of a
        // neighbouring epoch, any honest one, or any other self-consistent certificate
        let honest = self.honest_ids();
        let same: Vec<usize> = honest.iter().copied().filter(|h| self.epoch_of(*h) == expected_epoch).collect();
        let near: Vec<usize> = honest
            .iter()
            .copied()
            .filter(|h| self.epoch_of(*h) + 1 == expected_epoch || self.epoch_of(*h) == expected_epoch + 1)
            .collect();
        let consistent: Vec<usize> = (0..self.ws.built.len())
            .filter(|i| self.ws.built[*i].cert.hash == self.ws.built[*i].content_hash)
            .collect();
        let (serve, flavour) = match self.rng.weighted(&[30, 25, 15, 15, 15]) {
            0 if !same.is_empty() => (same[0], "same_epoch_first"),
            1 if !same.is_empty() => (*self.rng.pick(&same), "same_epoch"),
            2 if !near.is_empty() => (*self.rng.pick(&near), "neighbour_epoch"),
            3 => (*self.rng.pick(&consistent), "any_consistent"),
            _ => (*self.rng.pick(&honest), "any_honest"),
        };
        let site = if pos == 0 { "start" } else if pos < path.len() { "link" } else { "dangling" };
        Lie { on, occ: None, answer: Answer::Serve(serve), kind: format!("swap_{site}.{flavour}") }
    }

    // ----------------------------------------------------------------------------------------
    // the adversary's edit catalogue

    /// A relink target of the requested flavour for certificate `x`, if the chain offers one.
    fn relink_target(&mut self, x: usize, flavour: &str) -> Option<HashRef> {
        let e = self.epoch_of(x);
        let path = self.path(x);
        let parent = path.get(1).copied();
        let honest = self.honest_ids();
        let cands: Vec<usize> = match flavour {
            "earlier" => path.iter().skip(2).copied().collect(),
            "later" => honest.iter().copied().filter(|h| self.epoch_of(*h) > e && !path.contains(h)).collect(),
            "same_epoch" => honest
                .iter()
                .copied()
                .filter(|h| self.epoch_of(*h) == e && Some(*h) != parent && *h != x)
                .collect(),
            "prev_epoch_other" => honest
                .iter()
                .copied()
                .filter(|h| self.epoch_of(*h) + 1 == e && Some(*h) != parent)
                .collect(),
            "following_epoch" => honest.iter().copied().filter(|h| self.epoch_of(*h) == e + 1).collect(),
            "far" => honest.iter().copied().filter(|h| self.epoch_of(*h) + 2 <= e || self.epoch_of(*h) >= e + 2).collect(),
            "own" => return Some(HashRef::Own),
            "garbage" => return Some(HashRef::Garbage(self.rng.next_u64())),
            "empty" => return Some(HashRef::Empty),
            _ => vec![],
        };
        if cands.is_empty() {
            return None;
        }
        Some(HashRef::Content(*self.rng.pick(&cands)))
    }

    /// One alteration of certificate `x`: (class label, edits).
    fn random_edit(&mut self, x: usize) -> (String, Vec<Edit>) {
        let e = self.epoch_of(x);
        let a = self.adv_set();
        let other = {
            let ids = self.honest_ids();
            let others: Vec<usize> = ids.into_iter().filter(|h| *h != x).collect();
            if others.is_empty() { 0 } else { *self.rng.pick(&others) }
        };
        const RELINKS: [&str; 9] = [
            "earlier", "later", "same_epoch", "prev_epoch_other", "following_epoch", "far", "own", "garbage", "empty",
        ];
        loop {
            let choice = self.rng.weighted(&[
                30, // 0 relink
                4,  // 1 epoch only
                4,  // 2 epoch consistent with message
                4,  // 3 epoch consistent + resigned
                3,  // 4 signed message garbage
                3,  // 5 signed message of another certificate
                4,  // 6 next avk in message
                4,  // 7 next avk in message, consistent signed message
                3,  // 8 next parameters
                3,  // 9 digest, consistent
                3,  // 10 remove a message part
                2,  // 11 upper-case key encoding
                4,  // 12 transplant signed content of another certificate
                4,  // 13 metadata parameters k=1
                3,  // 14 metadata parameters of adversary
                3,  // 15 metadata signers
                2,  // 16 metadata network
                3,  // 17 metadata sealed_at
                3,  // 18 avk of adversary
                3,  // 19 avk of another certificate
                3,  // 20 signature of another certificate
                6,  // 21 re-signed by the adversary
                3,  // 22 signature only by adversary
                3,  // 23 genesis by adversary key
                2,  // 24 honest genesis signature pasted
                3,  // 25 honest genesis signed content transplanted
                12, // 26 insider coalition of the legitimate signer set
            ]);
            let out: (String, Vec<Edit>) = match choice {
                0 => {
                    let flavour = RELINKS[self.rng.weighted(&[10, 8, 12, 12, 30, 8, 6, 4, 3])];
                    match self.relink_target(x, flavour) {
                        Some(h) => (format!("relink_{flavour}"), vec![Edit::Prev(h)]),
                        None => continue,
                    }
                }
                1 => {
                    let ne = self.near_epoch(e);
                    ("epoch_only".into(), vec![Edit::Epoch(ne)])
                }
                2 => {
                    let ne = self.near_epoch(e);
                    (
                        "epoch_consistent".into(),
                        vec![Edit::Epoch(ne), Edit::MsgSet(MsgPart::Epoch, ne.to_string()), Edit::SignedMessageRecompute],
                    )
                }
                3 => {
                    let ne = self.near_epoch(e);
                    (
                        "epoch_consistent_resigned".into(),
                        vec![
                            Edit::Epoch(ne),
                            Edit::MsgSet(MsgPart::Epoch, ne.to_string()),
                            Edit::SignedMessageRecompute,
                            Edit::Resign(a),
                        ],
                    )
                }
                4 => ("signed_message_garbage".into(), vec![Edit::SignedMessageGarbage(self.rng.next_u64())]),
                5 => ("signed_message_other".into(), vec![Edit::SignedMessageOf(other)]),
                6 => ("msg_next_avk".into(), vec![Edit::MsgNextAvkOfSet(a)]),
                7 => (
                    "msg_next_avk_consistent".into(),
                    vec![Edit::MsgNextAvkOfSet(a), Edit::MsgNextParamsOfSet(a), Edit::SignedMessageRecompute],
                ),
                8 => ("msg_next_params".into(), vec![Edit::MsgNextParamsOfSet(a), Edit::SignedMessageRecompute]),
                9 => (
                    "msg_digest_consistent".into(),
                    vec![Edit::MsgSet(MsgPart::Digest, format!("evil-{}", self.rng.below(1000))), Edit::SignedMessageRecompute],
                ),
                10 => {
                    let part = self.rng.pick(&[MsgPart::Epoch, MsgPart::NextAvk, MsgPart::NextParams]).clone();
                    let mut v = vec![Edit::MsgRemove(part)];
                    if self.rng.chance(0.5) {
                        v.push(Edit::SignedMessageRecompute);
                    }
                    ("msg_remove_part".into(), v)
                }
                11 => ("msg_avk_noncanonical".into(), vec![Edit::MsgNextAvkUpperCase, Edit::SignedMessageRecompute]),
                12 => {
                    let oe = self.epoch_of(other);
                    let mut v = vec![Edit::MsgFrom(other), Edit::SignedMessageOf(other), Edit::SigOf(other)];
                    if self.rng.chance(0.7) {
                        v.push(Edit::Epoch(oe));
                    }
                    if self.rng.chance(0.5) {
                        v.push(Edit::AvkOf(other));
                    }
                    ("transplant_signed_content".into(), v)
                }
                13 => {
                    let s = self.ws.material.sets[self.set_of_epoch[&e.clamp(self.g0, self.last_epoch + 1)]].clone();
                    ("meta_params_k1".into(), vec![Edit::MetaParams(1, s.m, s.phi_f)])
                }
                14 => ("meta_params_adv".into(), vec![Edit::MetaParamsOfSet(a)]),
                15 => ("meta_signers".into(), vec![Edit::MetaSignersOfSet(a)]),
                16 => ("meta_network".into(), vec![Edit::MetaNetwork("evilnet".into())]),
                17 => ("meta_sealed_at".into(), vec![Edit::MetaSealedAt(self.rng.range(0, 100_000) as i64)]),
                18 => ("avk_adv".into(), vec![Edit::AvkOfSet(a)]),
                19 => ("avk_other".into(), vec![Edit::AvkOf(other)]),
                20 => ("sig_other".into(), vec![Edit::SigOf(other)]),
                21 => ("resign_adv".into(), vec![Edit::Resign(a)]),
                22 => ("resign_sig_only".into(), vec![Edit::ResignSigOnly(a)]),
                23 => ("genesis_adv_key".into(), vec![Edit::ResignGenesisAdv]),
                24 => ("genesis_sig_pasted".into(), vec![Edit::SigOf(0)]),
                25 => (
                    "genesis_content_transplant".into(),
                    vec![Edit::MsgFrom(0), Edit::SignedMessageOf(0), Edit::SigOf(0), Edit::Epoch(self.g0)],
                ),
                _ => {
                    if self.ws.built[x].cert.is_genesis() || !self.set_of_epoch.contains_key(&e) {
                        continue;
                    }
                    let flavour = self.rng.weighted(&[45, 10, 20, 15, 10]);
                    let edits = self.insider_message_and_signature(e, flavour, a);
                    edits
                }
            };
            return out;
        }
    }

    fn near_epoch(&mut self, e: u64) -> u64 {
        match self.rng.weighted(&[4, 4, 1, 1]) {
            0 => e + 1,
            1 => e.saturating_sub(1),
            2 => e + 2,
            _ => 0,
        }
    }

    // ----------------------------------------------------------------------------------------
    // moves

    fn move_honest(&mut self) {
        let start = self.pick_honest_start();
        let subject = self.subject();
        self.push_call(subject, start, vec![], "honest");
    }

    /// 1..3 per-request lies on the path of an honest start (no cascade: the forgery is served for
    /// the original hash).
    fn move_point_lies(&mut self) {
        let start = self.pick_honest_start();
        let path = self.path(start);
        let n = self.rng.range(1, 3) as usize;
        let mut lies = Vec::new();
        let mut note = String::from("point:");
        for _ in 0..n {
            // the start request itself is the most exposed one: a fifth of the lies go there
            let pos = if self.rng.chance(0.2) { 0 } else { self.rng.index(path.len()) };
            let x = path[pos];
            let l = match self.rng.weighted(&[10, 10, 12, 8, 25, 25, 6, 6]) {
                0 => lie(x, Answer::NotFound, "not_found"),
                1 => lie(x, Answer::TransportError, "transport_error"),
                2 => {
                    let ids = self.honest_ids();
                    let w = *self.rng.pick(&ids);
                    lie(x, Answer::Serve(w), "wrong_honest")
                }
                3 => {
                    // an adversarial certificate for an honest hash
                    let a = self.adv_set();
                    self.seq += 1;
                    let id = self.add_item(
                        Recipe::Signed {
                            epoch: self.epoch_of(x),
                            set: a,
                            next_set: a,
                            prev: HashRef::Field(*path.get(pos + 1).unwrap_or(&0)),
                            digest: "evil".into(),
                            seq: self.seq,
                        },
                        false,
                        "point.wrong_adversarial",
                    );
                    lie(x, Answer::Serve(id), "wrong_adversarial")
                }
                4 => {
                    let (class, edits) = self.random_edit(x);
                    let id = self.add_item(
                        Recipe::Derived { base: x, edits, rehash: false },
                        false,
                        &format!("point.norehash.{class}"),
                    );
                    lie(x, Answer::Serve(id), &format!("alter_norehash.{class}"))
                }
                5 => {
                    let (class, edits) = self.random_edit(x);
                    let id = self.add_item(
                        Recipe::Derived { base: x, edits, rehash: true },
                        false,
                        &format!("point.rehash.{class}"),
                    );
                    lie(x, Answer::Serve(id), &format!("alter_rehash.{class}"))
                }
                6 => lie(x, Answer::Stale, "stale_duplicate"),
                _ => {
                    // self-referencing pair / loop without re-hash: previous_hash := own hash field
                    let id = self.add_item(
                        Recipe::Derived { base: x, edits: vec![Edit::Prev(HashRef::Own)], rehash: false },
                        false,
                        "point.norehash.self_loop",
                    );
                    lie(x, Answer::Serve(id), "alter_norehash.self_loop")
                }
            };
            let mut l = l;
            if self.rng.chance(0.15) {
                l.occ = Some(self.rng.below(2) as u32);
            }
            note.push_str(&format!(" {}@{}", l.kind, pos));
            lies.push(l);
        }
        let subject = self.subject();
        self.push_call(subject, start, lies, &note);
    }

    /// Alter one or two certificates on the path of `start` WITH re-hash and re-link every
    /// descendant up to a new start (previous_hash is not covered by any signature, so this costs
    /// the adversary nothing). The forged branch is published in the provider's store.
    fn move_cascade_fork(&mut self, forced_flavour: Option<&str>) {
        let start = self.pick_honest_start();
        let path = self.path(start);
        let j = if forced_flavour.is_some() { self.rng.index(path.len().min(3)) } else { self.rng.index(path.len()) };
        let second = if j > 0 && self.rng.chance(0.2) { Some(self.rng.index(j)) } else { None };
        let (class, edits) = match forced_flavour {
            Some(f) => match self.relink_target(path[j], f) {
                Some(h) => (format!("relink_{f}"), vec![Edit::Prev(h)]),
                None => self.random_edit(path[j]),
            },
            None => self.random_edit(path[j]),
        };
        let mut note = format!("fork: {class}@{j}");
        let mut below = self.add_item(
            Recipe::Derived { base: path[j], edits, rehash: true },
            false,
            &format!("fork.{class}"),
        );
        for i in (0..j).rev() {
            let mut edits = vec![Edit::Prev(HashRef::Content(below))];
            let mut label = "fork.cascade_relink".to_string();
            if second == Some(i) {
                let (c2, mut e2) = self.random_edit(path[i]);
                // keep the cascade link unless the second edit is itself a relink
                if e2.iter().any(|e| matches!(e, Edit::Prev(_))) {
                    edits.clear();
                }
                edits.append(&mut e2);
                label = format!("fork.{c2}");
                note.push_str(&format!(" +{c2}@{i}"));
            }
            below = self.add_item(Recipe::Derived { base: path[i], edits, rehash: true }, false, &label);
        }
        // optional per-request lies on the untouched lower part
        let mut lies = Vec::new();
        if self.rng.chance(0.15) && j + 1 < path.len() {
            let x = path[self.rng.range(j as u64 + 1, path.len() as u64 - 1) as usize];
            let l = if self.rng.chance(0.5) {
                lie(x, Answer::NotFound, "not_found")
            } else {
                lie(x, Answer::TransportError, "transport_error")
            };
            note.push_str(&format!(" +{}", l.kind));
            lies.push(l);
        }
        let subject = self.subject();
        self.push_call(subject, below, lies, &note);
    }

    /// Adversary-signed certificates grafted on top of an honest certificate H, with or without a
    /// forged "bridge" answer for H's hash. Produces 1..3 calls.
    fn move_graft(&mut self) {
        // prefer an H whose voucher may sit in the cache
        let h = if !self.primed_paths.is_empty() && self.rng.chance(0.6) {
            let p = self.rng.pick(&self.primed_paths.clone()).clone();
            *self.rng.pick(&p)
        } else if self.rng.chance(0.5) {
            // prime it now with an honest call whose path contains H
            let start = self.pick_honest_start();
            let p = self.path(start);
            self.push_call(Subject::Client, start, vec![], "honest (before graft)");
            *self.rng.pick(&p)
        } else {
            self.rng.index(self.honest_n)
        };
        let eh = self.epoch_of(h);
        let a = self.adv_set();
        let b = if self.rng.chance(0.3) { self.adv_set() } else { a };
        let first_epoch = match self.rng.weighted(&[60, 25, 6, 9]) {
            0 => eh + 1,
            1 => eh,
            2 => eh + 2,
            _ => eh.saturating_sub(1),
        };
        let n_adv = self.rng.range(1, 3) as usize;
        let mut adv = Vec::new();
        let mut prev = HashRef::Field(h);
        let mut epoch = first_epoch;
        let mut set = a;
        for i in 0..n_adv {
            let next_set = if i % 2 == 0 { b } else { a };
            self.seq += 1;
            let id = self.add_item(
                Recipe::Signed { epoch, set, next_set, prev: prev.clone(), digest: format!("forged-{i}"), seq: self.seq },
                false,
                "graft.adversary_signed",
            );
            adv.push(id);
            prev = HashRef::Content(id);
            if self.rng.chance(0.75) {
                epoch += 1;
                set = next_set;
            } else if set != next_set {
                // same epoch must keep the key: stay on `set`
            }
        }
        // bridges: forged answers for H's hash
        let same_epoch = first_epoch == eh;
        let mut bridges: Vec<(usize, &'static str)> = Vec::new();
        let cross = vec![Edit::MsgNextAvkOfSet(a), Edit::MsgNextParamsOfSet(a)];
        let same = vec![Edit::AvkOfSet(a), Edit::MetaParamsOfSet(a), Edit::MetaSignersOfSet(a)];
        let base_edits = if same_epoch { same } else { cross };
        let b1 = self.add_item(
            Recipe::Derived { base: h, edits: base_edits.clone(), rehash: false },
            false,
            "bridge.claims_honest_hash",
        );
        bridges.push((b1, "bridge_claims_honest_hash"));
        let mut e2 = base_edits.clone();
        e2.push(Edit::SignedMessageRecompute);
        e2.push(Edit::Resign(a));
        e2.push(Edit::HashField(HashRef::Field(h)));
        let b2 = self.add_item(Recipe::Derived { base: h, edits: e2, rehash: true }, false, "bridge.resigned_claims_honest_hash");
        bridges.push((b2, "bridge_resigned_claims_honest_hash"));
        let mut e3 = base_edits;
        e3.push(Edit::SignedMessageRecompute);
        let b3 = self.add_item(Recipe::Derived { base: h, edits: e3, rehash: true }, false, "bridge.rehashed");
        bridges.push((b3, "bridge_rehashed"));

        let n_calls = self.rng.range(1, 3) as usize;
        let mut order: Vec<usize> = (0..adv.len()).collect();
        if self.rng.chance(0.3) {
            self.rng.shuffle(&mut order);
        }
        for (c, idx) in order.into_iter().enumerate() {
            if c >= n_calls {
                break;
            }
            let start = adv[idx];
            let mut lies = Vec::new();
            let mut note = format!("graft: A{}/{} on honest@epoch{} first_epoch={}", idx + 1, adv.len(), eh, first_epoch);
            if self.rng.chance(0.7) {
                let (bid, kind) = bridges[self.rng.weighted(&[70, 15, 15])];
                lies.push(lie(h, Answer::Serve(bid), kind));
                note.push_str(&format!(" +{kind}"));
            }
            let subject = if self.rng.chance(0.85) { Subject::Client } else { Subject::Common };
            self.push_call(subject, start, lies, &note);
        }
    }

    /// Insider forgery of a certificate of epoch `e`: a message of the coalition's choice (own
    /// digest; sometimes announcing the adversary's signer set for the next epoch), signed by the
    /// coalition.
    fn insider_message_and_signature(&mut self, e: u64, flavour: usize, adv: usize) -> (String, Vec<Edit>) {
        let set = self.set_of_epoch[&e];
        let (label, sign) = self.insider_edit(set, flavour);
        let mut edits = vec![Edit::MsgSet(MsgPart::Digest, format!("insider-{}", self.rng.below(4)))];
        let mut label = label;
        if self.rng.chance(0.35) {
            edits.push(Edit::MsgNextAvkOfSet(adv));
            edits.push(Edit::MsgNextParamsOfSet(adv));
            label.push_str("+announces_adversary_set");
        }
        edits.push(Edit::SignedMessageRecompute);
        edits.push(sign);
        (label, edits)
    }

    /// Dedicated insider history: a forged certificate of a legitimate epoch (first of the epoch
    /// or not, optionally re-linked inside the epoch / to another certificate of the previous
    /// epoch), verified directly, below re-linked honest descendants, or below a consistent
    /// adversarial chain that starts with the signer set the forgery announced.
    fn move_insider(&mut self) {
        let candidates: Vec<usize> = self.honest_ids().into_iter().filter(|h| !self.ws.built[*h].cert.is_genesis()).collect();
        if candidates.is_empty() {
            return self.move_honest();
        }
        let x = *self.rng.pick(&candidates);
        let e = self.epoch_of(x);
        let adv = self.adv_set();
        let flavour = self.rng.weighted(&[55, 8, 17, 12, 8]);
        let (label, mut edits) = self.insider_message_and_signature(e, flavour, adv);
        if self.rng.chance(0.3) {
            let f = *self.rng.pick(&["same_epoch", "prev_epoch_other"]);
            if let Some(h) = self.relink_target(x, f) {
                edits.insert(0, Edit::Prev(h));
            }
        }
        let announces_adv = label.contains("announces_adversary_set");
        let forged = self.add_item(Recipe::Derived { base: x, edits, rehash: true }, false, &format!("insider.{label}"));
        if self.rng.chance(0.3) {
            let start = self.pick_honest_start();
            self.push_call(Subject::Client, start, vec![], "honest (before insider)");
        }
        let mut start = forged;
        let mut note = format!("insider: {label} @epoch{e}");
        match self.rng.weighted(&[45, 25, 30]) {
            0 => {}
            1 => {
                // an honest certificate of the same / next epoch re-linked on top of the forgery
                let above: Vec<usize> = self
                    .honest_ids()
                    .into_iter()
                    .filter(|h| *h != x && (self.epoch_of(*h) == e || self.epoch_of(*h) == e + 1) && !self.ws.built[*h].cert.is_genesis())
                    .collect();
                if !above.is_empty() {
                    let y = *self.rng.pick(&above);
                    start = self.add_item(
                        Recipe::Derived { base: y, edits: vec![Edit::Prev(HashRef::Content(forged))], rehash: true },
                        false,
                        "insider.honest_relinked_on_top",
                    );
                    note.push_str(" +honest re-linked on top");
                }
            }
            _ => {
                let first_set = if announces_adv { Some(adv) } else { None };
                let n = self.rng.range(1, 3) as usize;
                let chain = self.consistent_adversarial_chain(HashRef::Content(forged), e + 1, n, "oninsider", first_set);
                start = *chain.last().unwrap();
                note.push_str(&format!(" +adversarial chain[{n}] on top"));
            }
        }
        let subject = self.subject();
        self.push_call(subject, start, vec![], &note);
        if self.rng.chance(0.4) {
            // again, in the cache state the first call left, possibly with a swap
            let lies = if self.rng.chance(0.5) { vec![self.swap_lie(start, None)] } else { vec![] };
            self.push_call(Subject::Client, start, lies, &format!("{note} (again)"));
        }
    }

    /// "Withhold" lie: NOT FOUND for the genesis certificate of the chain being walked, or for the
    /// target of any link on the path of `start` (including the dangling `previous_hash`).
    fn withhold_lie(&mut self, start: usize, at: Option<usize>) -> Lie {
        let path = self.path(start);
        let last = *path.last().unwrap();
        let ends_in_genesis = self.ws.built[last].cert.is_genesis();
        if ends_in_genesis && path.len() > 1 && at.is_none() && self.rng.chance(0.6) {
            return Lie { on: LieOn::Hash(last), occ: None, answer: Answer::NotFound, kind: "withhold_genesis".into() };
        }
        let positions = path.len() + usize::from(!ends_in_genesis);
        // position 0 is the start itself, not the target of a link
        let pos = at.unwrap_or_else(|| self.rng.range(1, positions as u64 - 1) as usize).clamp(1, positions - 1);
        if pos < path.len() {
            let kind = if self.ws.built[path[pos]].cert.is_genesis() { "withhold_genesis" } else { "withhold_link_target" };
            Lie { on: LieOn::Hash(path[pos]), occ: None, answer: Answer::NotFound, kind: kind.into() }
        } else {
            Lie { on: LieOn::PrevOf(last), occ: None, answer: Answer::NotFound, kind: "withhold_dangling_target".into() }
        }
    }

    /// One third withhold, two thirds swap.
    fn withhold_or_swap(&mut self, start: usize, at: Option<usize>) -> Lie {
        if self.path(start).len() + usize::from(!self.ws.built[*self.path(start).last().unwrap()].cert.is_genesis()) >= 2
            && self.rng.chance(1.0 / 3.0)
        {
            self.withhold_lie(start, at)
        } else {
            self.swap_lie(start, at)
        }
    }

    /// An internally consistent adversarial chain: 2-4 certificates over consecutive epochs, each
    /// with a valid multi-signature of an adversary signer set, correct hashes, and next-AVK /
    /// next-parameter hand-overs that are consistent among themselves. Returned bottom first.
    fn consistent_adversarial_chain(
        &mut self,
        bottom_prev: HashRef,
        bottom_epoch: u64,
        n: usize,
        tag: &str,
        first_set: Option<usize>,
    ) -> Vec<usize> {
        let sets = self.adv_sets.clone();
        let mut out = Vec::new();
        let mut prev = bottom_prev;
        let mut epoch = bottom_epoch;
        let mut set = first_set.unwrap_or_else(|| *self.rng.pick(&sets));
        for i in 0..n {
            // the set that signs in the next epoch (announced by this certificate)
            let next_set = *self.rng.pick(&sets);
            self.seq += 1;
            let id = self.add_item(
                Recipe::Signed { epoch, set, next_set, prev: prev.clone(), digest: format!("{tag}-{i}"), seq: self.seq },
                false,
                "advchain.adversary_signed",
            );
            out.push(id);
            prev = HashRef::Content(id);
            // mostly one certificate per epoch; a second one in the same epoch keeps the signer set
            if self.rng.chance(0.8) {
                epoch += 1;
                set = next_set;
            }
        }
        out
    }

    /// Campaign on a consistent adversarial chain that hangs from nothing, from a dangling hash,
    /// from an honest hash it is not entitled to, or from the adversary's own genesis certificate:
    /// a first call is rejected somewhere below (but may leave cache vouchers for the adversarial
    /// links verified on the way), then further calls answer requests on that path with other
    /// valid certificates.
    fn move_adversarial_chain_campaign(&mut self) {
        let bottom_epoch = self.rng.range(self.g0 + 1, self.last_epoch.max(self.g0 + 1));
        let (bottom_prev, hang) = match self.rng.weighted(&[40, 10, 35, 15]) {
            0 => (HashRef::Garbage(self.rng.next_u64()), "dangling"),
            1 => (HashRef::Empty, "nothing"),
            2 => {
                // an honest certificate of the previous / same / some epoch: not entitled
                let honest = self.honest_ids();
                let near: Vec<usize> = honest
                    .iter()
                    .copied()
                    .filter(|h| self.epoch_of(*h) + 1 == bottom_epoch || self.epoch_of(*h) == bottom_epoch)
                    .collect();
                let h = if !near.is_empty() && self.rng.chance(0.8) { *self.rng.pick(&near) } else { *self.rng.pick(&honest) };
                (HashRef::Field(h), "honest_hash_not_entitled")
            }
            _ => {
                let a = self.adv_set();
                let g = self.add_item(
                    Recipe::Genesis { epoch: bottom_epoch.saturating_sub(1), next_set: a, adv_key: true },
                    false,
                    "advchain.own_genesis",
                );
                (HashRef::Content(g), "own_genesis")
            }
        };
        let n = self.rng.range(2, 4) as usize;
        let chain = self.consistent_adversarial_chain(bottom_prev, bottom_epoch, n, "advchain", None);
        let top = *chain.last().unwrap();
        if self.rng.chance(0.3) {
            // honest links may be cached too
            let start = self.pick_honest_start();
            self.push_call(Subject::Client, start, vec![], "honest (before adversarial chain)");
        }
        // first call: plain, expected to be rejected below the adversarial links
        let first = if self.rng.chance(0.75) { top } else { *self.rng.pick(&chain) };
        self.push_call(Subject::Client, first, vec![], &format!("advchain[{n}] from {hang}: first call"));
        let more = self.rng.range(1, 3);
        for _ in 0..more {
            let start = if self.rng.chance(0.65) { top } else { *self.rng.pick(&chain) };
            let path_len = self.path(start).len();
            let mut lies = Vec::new();
            let mut note = format!("advchain[{n}] from {hang}: follow-up");
            for _ in 0..self.rng.range(1, 2) {
                // anywhere on the path, with a preference for its lower end and the dangling link
                let at = if self.rng.chance(0.6) {
                    Some(path_len.saturating_sub(self.rng.index(2)))
                } else {
                    None
                };
                let l = self.withhold_or_swap(start, at);
                note.push_str(&format!(" {}", l.kind));
                lies.push(l);
            }
            let subject = if self.rng.chance(0.9) { Subject::Client } else { Subject::Common };
            self.push_call(subject, start, lies, &note);
        }
    }

    /// Prime the cache with an honest call, then answer one request of a second call with ANOTHER
    /// valid honest certificate (one from higher up sends a verifier that follows cached links
    /// round in circles, one from lower down makes it skip part of the chain).
    fn move_cached_link_swap(&mut self) {
        let start = self.pick_honest_start();
        let path = self.path(start);
        if path.len() < 3 {
            return self.move_honest();
        }
        self.push_call(Subject::Client, start, vec![], "honest (before swap)");
        let pos = self.rng.range(1, path.len() as u64 - 1) as usize;
        let other = loop {
            let q = self.rng.index(path.len());
            if q != pos {
                break q;
            }
        };
        let kind = if other < pos { "swap_cached_link_for_descendant" } else { "swap_cached_link_for_ancestor" };
        let lies = vec![lie(path[pos], Answer::Serve(path[other]), kind)];
        let again = if self.rng.chance(0.7) { start } else { self.pick_honest_start() };
        self.push_call(Subject::Client, again, lies, &format!("swap: request@{pos} answered with honest@{other}"));
    }

    /// A chain that is internally consistent but anchored in the adversary's own genesis key, or in
    /// a doctored copy of the honest genesis certificate.
    fn move_adversarial_genesis(&mut self) {
        let a = self.adv_set();
        let (g, label) = match self.rng.weighted(&[50, 25, 25]) {
            0 => {
                let epoch = if self.rng.chance(0.5) { self.g0 } else { self.rng.range(1, 40) };
                (
                    self.add_item(Recipe::Genesis { epoch, next_set: a, adv_key: true }, false, "advgenesis.own_key"),
                    "own_key",
                )
            }
            1 => (
                self.add_item(
                    Recipe::Derived {
                        base: 0,
                        edits: vec![Edit::MsgNextAvkOfSet(a), Edit::MsgNextParamsOfSet(a), Edit::SignedMessageRecompute],
                        rehash: true,
                    },
                    false,
                    "advgenesis.honest_signature_other_message",
                ),
                "honest_signature_other_message",
            ),
            _ => (
                self.add_item(
                    Recipe::Derived {
                        base: 0,
                        edits: vec![Edit::AvkOfSet(a), Edit::MetaParamsOfSet(a)],
                        rehash: true,
                    },
                    false,
                    "advgenesis.honest_signed_content_other_key_field",
                ),
                "honest_signed_content_other_key_field",
            ),
        };
        let ge = self.epoch_of(g);
        let n = self.rng.range(1, 3);
        let mut prev = g;
        let mut epoch = if self.rng.chance(0.7) { ge + 1 } else { ge };
        for i in 0..n {
            self.seq += 1;
            prev = self.add_item(
                Recipe::Signed { epoch, set: a, next_set: a, prev: HashRef::Content(prev), digest: format!("forged-g{i}"), seq: self.seq },
                false,
                "advgenesis.adversary_signed",
            );
            if self.rng.chance(0.6) {
                epoch += 1;
            }
        }
        let subject = self.subject();
        self.push_call(subject, prev, vec![], &format!("adversarial genesis: {label}"));
        // follow-up calls in the cache state the (rejected) first call left
        for _ in 0..self.rng.range(0, 2) {
            let l = self.withhold_or_swap(prev, None);
            let note = format!("adversarial genesis: {label}: follow-up {}", l.kind);
            let subject = if self.rng.chance(0.9) { Subject::Client } else { Subject::Common };
            self.push_call(subject, prev, vec![l], &note);
        }
    }

    fn move_rule_switch(&mut self) {
        if self.rng.chance(0.5) {
            let x = self.rng.index(self.honest_n);
            let l = match self.rng.weighted(&[4, 3, 3]) {
                0 => lie(x, Answer::NotFound, "mode_dropped"),
                1 => lie(x, Answer::TransportError, "mode_transport_error"),
                _ => {
                    let w = self.rng.index(self.honest_n);
                    lie(x, Answer::Serve(w), "mode_wrong_honest")
                }
            };
            self.events.push(Event::SetRule(l));
        } else {
            self.events.push(Event::SetRule(Lie {
                on: LieOn::Any,
                occ: None,
                answer: Answer::TransportError,
                kind: "mode_aggregator_down".into(),
            }));
        }
        // the mode lasts for one or two calls
        self.move_honest();
        if self.rng.chance(0.3) && self.calls < self.max_calls {
            self.move_honest();
        }
        self.events.push(Event::ClearRules);
    }
}

/// `chain_rng` decides the key material, the honest chain and the adversary's signer sets (shared
/// by every run with the same chain index, so that a worker process can memoise the expensive
/// key generation and STM signing); `rng` decides everything else. Both are pure functions of
/// (seed, run).
pub fn generate<'r>(chain_rng: &'r mut Rng, rng: &'r mut Rng) -> (Scenario, Workshop) {
    let nonce = chain_rng.next_u64();
    let cache = rng.chance(0.5);
    let adversarial = rng.chance(0.8);
    let max_calls = rng.range(1, 6) as usize;
    let mut g = Gen {
        rng: chain_rng,
        ws: Workshop::new(Material { nonce, sets: vec![] }),
        per_epoch: BTreeMap::new(),
        set_of_epoch: BTreeMap::new(),
        adv_sets: vec![],
        g0: 1,
        last_epoch: 1,
        honest_n: 0,
        seq: 0,
        events: vec![],
        calls: 0,
        max_calls,
        adversarial,
        primed_paths: vec![],
    };
    let shape = g.honest_chain();
    {
        // the adversary's own signer sets (unused in fault-free runs)
        let n_adv = 2;
        for _ in 0..n_adv {
            // sometimes the adversary copies the honest parameters of some epoch
            let params = if g.rng.chance(0.5) {
                let e = g.rng.range(g.g0, g.last_epoch);
                let s = &g.ws.material.sets[g.set_of_epoch[&e]];
                Some((s.k, s.m, s.phi_f))
            } else {
                None
            };
            let id = g.new_set(true, params);
            g.adv_sets.push(id);
        }
    }
    g.rng = rng;
    while g.calls < g.max_calls {
        if !adversarial {
            g.move_honest();
            continue;
        }
        match g.rng.weighted(&[19, 13, 17, 8, 14, 5, 5, 4, 13, 12]) {
            0 => g.move_honest(),
            1 => g.move_point_lies(),
            2 => g.move_cascade_fork(None),
            3 => {
                // targeted at the epoch rule: links to the following epoch, or across a gap
                let flavour = if g.rng.chance(0.7) { "following_epoch" } else { "far" };
                g.move_cascade_fork(Some(flavour))
            }
            4 => g.move_graft(),
            5 => g.move_adversarial_genesis(),
            6 => g.move_rule_switch(),
            7 => g.move_cached_link_swap(),
            8 => g.move_adversarial_chain_campaign(),
            _ => g.move_insider(),
        }
    }
    let sc = Scenario {
        material: g.ws.material.clone(),
        items: g.ws.items.clone(),
        cache,
        adversarial,
        honest_n: g.honest_n,
        shape,
        events: g.events,
    };
    (sc, g.ws)
}
