//! Independent definition of "a certificate whose chain is anchored in the genesis key", written
//! from the text of property C03. It never calls the certificate verifier under test.
//!
//! Judges named by the property and used as such: the entity's `compute_hash` (definition of "hash
//! matching its content" / "digest of its protocol message"), STM aggregate-signature verification
//! (property C01's subject) and Ed25519 verification of the genesis signature.
use std::cell::RefCell;
use std::collections::BTreeMap;

use mithril_common::crypto_helper::{
    GenesisVerifier, ProtocolAggregateVerificationKeyForConcatenation,
};
use mithril_common::entities::{
    Certificate, CertificateSignature, ProtocolMessagePartKey, ProtocolParameters,
};

#[derive(Clone, Debug, PartialEq)]
pub struct Broken {
    /// position on the chain (0 = the accepted certificate)
    pub at: usize,
    pub rule: &'static str,
    pub detail: String,
}

/// Shape of a link, for probes and for the attribution of known findings.
#[derive(Clone, Copy, Debug, PartialEq, Eq)]
pub enum LinkShape {
    SameEpoch,
    PreviousEpoch,
    FollowingEpoch,
    Gap,
}

pub fn link_shape(from_epoch: u64, to_epoch: u64) -> LinkShape {
    if to_epoch == from_epoch {
        LinkShape::SameEpoch
    } else if to_epoch.checked_add(1) == Some(from_epoch) {
        LinkShape::PreviousEpoch
    } else if from_epoch.checked_add(1) == Some(to_epoch) {
        LinkShape::FollowingEpoch
    } else {
        LinkShape::Gap
    }
}

pub struct Oracle {
    genesis_verifier: GenesisVerifier,
    /// multi-signature verdicts by content hash (the content hash covers message, key, parameters
    /// and signature, so the verdict is a function of it)
    sig_memo: RefCell<BTreeMap<String, bool>>,
    pub stm_verifications: RefCell<u64>,
}

fn content_hash(c: &Certificate) -> Option<String> {
    c.try_compute_hash().ok()
}

impl Oracle {
    pub fn new(genesis_verifier: GenesisVerifier) -> Self {
        Oracle { genesis_verifier, sig_memo: RefCell::new(BTreeMap::new()), stm_verifications: RefCell::new(0) }
    }

    fn integrity(&self, c: &Certificate) -> Result<String, (&'static str, String)> {
        // "has a hash matching its content"
        let h = content_hash(c).ok_or(("hash-matches-content", "content cannot be hashed".to_string()))?;
        if h != c.hash {
            return Err(("hash-matches-content", format!("hash field {} but content hashes to {}", short(&c.hash), short(&h))));
        }
        // "a signed message equal to the digest of its protocol message"
        if c.protocol_message.compute_hash() != c.signed_message {
            return Err(("signed-message-is-digest", "signed message differs from the digest of the protocol message".into()));
        }
        // "its epoch inside that signed message"
        let inside = c
            .protocol_message
            .get_message_part(&ProtocolMessagePartKey::CurrentEpoch)
            .and_then(|s| s.trim().parse::<u64>().ok());
        if inside != Some(*c.epoch) {
            return Err(("epoch-inside-message", format!("epoch field {} but message says {:?}", *c.epoch, inside)));
        }
        Ok(h)
    }

    fn signature(&self, c: &Certificate, h: &str) -> Result<bool, (&'static str, String)> {
        match &c.signature {
            CertificateSignature::GenesisSignature(sig) => {
                // "a genesis certificate whose signature verifies under the configured genesis key"
                self.genesis_verifier
                    .to_ed25519_verification_key()
                    .verify(c.signed_message.as_bytes(), sig)
                    .map_err(|_| ("genesis-signature", "genesis signature does not verify under the configured key".to_string()))?;
                Ok(true)
            }
            CertificateSignature::MultiSignature(_, ms) => {
                // "a multi-signature valid for that signed message under its own aggregate key and
                // parameters"
                let known = self.sig_memo.borrow().get(h).copied();
                let ok = match known {
                    Some(v) => v,
                    None => {
                        *self.stm_verifications.borrow_mut() += 1;
                        let v = ms
                            .verify(
                                c.signed_message.as_bytes(),
                                &c.create_aggregate_verification_key(),
                                &c.metadata.protocol_parameters.clone().into(),
                                c.ancillary_verifier_data.clone().map(|d| d.into_inner()),
                                None,
                            )
                            .is_ok();
                        self.sig_memo.borrow_mut().insert(h.to_string(), v);
                        v
                    }
                };
                if !ok {
                    return Err(("multi-signature", "multi-signature invalid under the certificate's own key and parameters".into()));
                }
                Ok(false)
            }
        }
    }

    /// "Each link goes to a certificate of the same epoch carrying the same aggregate key and
    /// parameters, or to a certificate of the immediately preceding epoch whose signed message
    /// commits to exactly that aggregate key and those parameters; nothing else is accepted."
    fn link(&self, c: &Certificate, p: &Certificate) -> Result<(), (&'static str, String)> {
        match link_shape(*c.epoch, *p.epoch) {
            LinkShape::SameEpoch => {
                if !same_key(&p.aggregate_verification_key, &c.aggregate_verification_key) {
                    return Err(("same-epoch-key", "same epoch but a different aggregate key".into()));
                }
                if !same_parameters(&p.metadata.protocol_parameters, &c.metadata.protocol_parameters) {
                    return Err(("same-epoch-parameters", "same epoch but different parameters".into()));
                }
                Ok(())
            }
            LinkShape::PreviousEpoch => {
                let committed_key = p
                    .protocol_message
                    .get_message_part(&ProtocolMessagePartKey::NextAggregateVerificationKey)
                    .and_then(|s| ProtocolAggregateVerificationKeyForConcatenation::try_from(s.as_str()).ok());
                if !committed_key.as_ref().is_some_and(|k| same_key(k, &c.aggregate_verification_key)) {
                    return Err(("previous-epoch-key", "the previous-epoch certificate does not commit to this aggregate key".into()));
                }
                let committed_params =
                    p.protocol_message.get_message_part(&ProtocolMessagePartKey::NextProtocolParameters);
                if committed_params != Some(&c.metadata.protocol_parameters.compute_hash()) {
                    return Err(("previous-epoch-parameters", "the previous-epoch certificate does not commit to these parameters".into()));
                }
                Ok(())
            }
            LinkShape::FollowingEpoch => Err((
                "link-to-following-epoch",
                format!("link from epoch {} to a certificate of the FOLLOWING epoch {}", *c.epoch, *p.epoch),
            )),
            LinkShape::Gap => Err((
                "link-epoch-gap",
                format!("link from epoch {} to epoch {}", *c.epoch, *p.epoch),
            )),
        }
    }

    /// Does `start` satisfy the property, certificates being looked up by CONTENT hash in `lookup`?
    /// `Ok(chain length)` or the first broken rule.
    pub fn judge<'s, 'u: 's>(
        &self,
        start: &'s Certificate,
        lookup: &dyn Fn(&str) -> Option<&'u Certificate>,
        max_steps: usize,
    ) -> Result<usize, Broken> {
        let mut cur: &'s Certificate = start;
        let mut at = 0usize;
        loop {
            let fail = |(rule, detail): (&'static str, String)| Broken { at, rule, detail };
            let h = self.integrity(cur).map_err(fail)?;
            if self.signature(cur, &h).map_err(fail)? {
                return Ok(at + 1);
            }
            let Some(prev) = lookup(&cur.previous_hash) else {
                return Err(Broken {
                    at,
                    rule: "link-target-exists",
                    detail: format!("no certificate has content hashing to previous_hash {}", short(&cur.previous_hash)),
                });
            };
            self.link(cur, prev).map_err(fail)?;
            cur = prev;
            at += 1;
            if at > max_steps {
                // cannot happen unless SHA-256 collides: the hash covers previous_hash
                return Err(Broken { at, rule: "finitely-many-steps", detail: "chain does not end".into() });
            }
        }
    }
}

/// "The same aggregate key" = the same serialised key: Merkle commitment AND total stake. Compared
/// on the canonical encoding, never through the repository's `PartialEq` (a judged component).
fn same_key(
    a: &ProtocolAggregateVerificationKeyForConcatenation,
    b: &ProtocolAggregateVerificationKeyForConcatenation,
) -> bool {
    match (a.to_json_hex(), b.to_json_hex()) {
        (Ok(x), Ok(y)) => x == y,
        _ => false,
    }
}

fn same_parameters(a: &ProtocolParameters, b: &ProtocolParameters) -> bool {
    a.k == b.k && a.m == b.m && a.phi_f.to_bits() == b.phi_f.to_bits()
}

pub fn short(h: &str) -> String {
    h.chars().take(10).collect()
}
