//! The mirror's workshop: tar archives with arbitrary (also hostile) entry names, written with
//! raw headers because `tar::Builder`'s path helpers refuse `..` and absolute names; zstd / gzip
//! compression; byte damage.
use std::io::Write;

use serde::{Deserialize, Serialize};

#[derive(Clone, Debug, PartialEq, Eq)]
pub enum EntryKind {
    File(Vec<u8>),
    Symlink(String),
    Dir,
}

/// How an entry's effective path is made to differ from the name in its own header.
#[derive(Clone, Copy, Debug, PartialEq, Eq, Serialize, Deserialize)]
#[serde(rename_all = "snake_case")]
pub enum Via {
    /// a GNU long-name record (type `L`) in front of the entry
    GnuLongName,
    /// a PAX extended header (type `x`) with a `path=` record in front of the entry
    Pax,
}

#[derive(Clone, Debug, PartialEq, Eq)]
pub struct Entry {
    /// the effective path (where an unpacker writes the entry)
    pub path: String,
    pub kind: EntryKind,
    /// `Some((name, via))`: the entry's own header carries `name`; `path` is supplied by a
    /// preceding long-name / PAX record (legal tar, the way long paths are stored)
    pub disguise: Option<(String, Via)>,
}

impl Entry {
    pub fn file(path: &str, bytes: Vec<u8>) -> Entry {
        Entry { path: path.to_string(), kind: EntryKind::File(bytes), disguise: None }
    }
}

#[derive(Clone, Copy, Debug, PartialEq, Eq, Serialize, Deserialize)]
#[serde(rename_all = "lowercase")]
pub enum Comp {
    Zstd,
    Gzip,
}

impl Comp {
    pub fn other(self) -> Comp {
        match self {
            Comp::Zstd => Comp::Gzip,
            Comp::Gzip => Comp::Zstd,
        }
    }
    pub fn ext(self) -> &'static str {
        match self {
            Comp::Zstd => "tar.zst",
            Comp::Gzip => "tar.gz",
        }
    }
    pub fn to_repo(self) -> mithril_common::entities::CompressionAlgorithm {
        match self {
            Comp::Zstd => mithril_common::entities::CompressionAlgorithm::Zstandard,
            Comp::Gzip => mithril_common::entities::CompressionAlgorithm::Gzip,
        }
    }
}

fn raw_header(path: &str, kind: &EntryKind) -> tar::Header {
    let mut h = tar::Header::new_gnu();
    {
        let old = h.as_old_mut();
        let bytes = path.as_bytes();
        assert!(bytes.len() < 100, "entry name too long for a raw header: {path}");
        old.name[..bytes.len()].copy_from_slice(bytes);
        if let EntryKind::Symlink(target) = kind {
            let t = target.as_bytes();
            assert!(t.len() < 100);
            old.linkname[..t.len()].copy_from_slice(t);
        }
    }
    h.set_mtime(0);
    h.set_uid(0);
    h.set_gid(0);
    match kind {
        EntryKind::File(bytes) => {
            h.set_entry_type(tar::EntryType::Regular);
            h.set_mode(0o644);
            h.set_size(bytes.len() as u64);
        }
        EntryKind::Symlink(_) => {
            h.set_entry_type(tar::EntryType::Symlink);
            h.set_mode(0o777);
            h.set_size(0);
        }
        EntryKind::Dir => {
            h.set_entry_type(tar::EntryType::Directory);
            h.set_mode(0o755);
            h.set_size(0);
        }
    }
    h.set_cksum();
    h
}

pub fn build_tar(entries: &[Entry]) -> Vec<u8> {
    let mut b = tar::Builder::new(Vec::new());
    for e in entries {
        let h = match &e.disguise {
            None => raw_header(&e.path, &e.kind),
            Some((name, via)) => {
                let (record_type, record_name, data) = match via {
                    Via::GnuLongName => {
                        let mut d = e.path.as_bytes().to_vec();
                        d.push(0);
                        (tar::EntryType::GNULongName, "././@LongLink", d)
                    }
                    Via::Pax => {
                        // "<len> path=<value>\n" where <len> counts the whole record
                        let body = format!(" path={}\n", e.path);
                        let mut len = body.len() + 1;
                        while len.to_string().len() + body.len() != len {
                            len = len.to_string().len() + body.len();
                        }
                        (tar::EntryType::XHeader, "PaxHeaders.0/entry", format!("{len}{body}").into_bytes())
                    }
                };
                let mut r = raw_header(record_name, &EntryKind::File(data.clone()));
                r.set_entry_type(record_type);
                r.set_cksum();
                b.append(&r, data.as_slice()).expect("tar append");
                raw_header(name, &e.kind)
            }
        };
        match &e.kind {
            EntryKind::File(bytes) => b.append(&h, bytes.as_slice()).expect("tar append"),
            _ => b.append(&h, std::io::empty()).expect("tar append"),
        }
    }
    b.into_inner().expect("tar finish")
}

pub fn compress(tar: &[u8], comp: Comp) -> Vec<u8> {
    match comp {
        Comp::Zstd => zstd::encode_all(tar, 3).expect("zstd"),
        Comp::Gzip => {
            let mut e = flate2::write::GzEncoder::new(Vec::new(), flate2::Compression::default());
            e.write_all(tar).expect("gzip");
            e.finish().expect("gzip finish")
        }
    }
}

/// Offset `permille` of the way through `len` bytes (always a valid index when `len > 0`).
pub fn offset_of(len: usize, permille: u32) -> usize {
    if len == 0 {
        return 0;
    }
    ((len as u64 * permille.min(999) as u64) / 1000) as usize
}
