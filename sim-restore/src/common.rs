//! Helpers shared by the C19 and C10 halves of the engine: deterministic file contents,
//! recursive directory listings (sorted, content-hashed), tiny fs utilities.
use std::collections::BTreeMap;
use std::path::Path;

use serde::{Deserialize, Serialize};
use sha2::{Digest, Sha256};
use sim_core::Rng;

pub fn sha256_hex(bytes: &[u8]) -> String {
    hex::encode(Sha256::digest(bytes))
}

/// Deterministic pseudo-random content of a file, a pure function of `(seed, name)`.
/// About one file in eight is empty (real `primary` files of empty chunks are tiny, and equal
/// contents under different names matter for C10).
pub fn content(seed: u64, name: &str) -> Vec<u8> {
    let mut r = Rng::for_run(seed, name, 0);
    let len = match r.below(8) {
        0 => 0,
        1 => 1,
        2..=5 => r.range(2, 96) as usize,
        _ => r.range(97, 700) as usize,
    };
    r.bytes(len)
}

#[derive(Clone, Debug, PartialEq, Eq, Serialize, Deserialize)]
pub enum Node {
    File { sha: String, len: u64 },
    Dir,
    Symlink { target: String },
    Other,
}

/// relative path (with `/`) -> node; directories included; symlinks not followed.
pub type Listing = BTreeMap<String, Node>;

pub fn list_tree(root: &Path) -> Listing {
    let mut out = Listing::new();
    fn walk(dir: &Path, prefix: &str, out: &mut Listing) {
        let Ok(rd) = std::fs::read_dir(dir) else { return };
        let mut names: Vec<std::ffi::OsString> = rd.flatten().map(|e| e.file_name()).collect();
        names.sort();
        for name in names {
            let p = dir.join(&name);
            let rel = if prefix.is_empty() {
                name.to_string_lossy().to_string()
            } else {
                format!("{prefix}/{}", name.to_string_lossy())
            };
            let Ok(md) = std::fs::symlink_metadata(&p) else { continue };
            let ft = md.file_type();
            if ft.is_symlink() {
                let target = std::fs::read_link(&p)
                    .map(|t| t.to_string_lossy().to_string())
                    .unwrap_or_default();
                out.insert(rel, Node::Symlink { target });
            } else if ft.is_dir() {
                out.insert(rel.clone(), Node::Dir);
                walk(&p, &rel, out);
            } else if ft.is_file() {
                let bytes = std::fs::read(&p).unwrap_or_default();
                out.insert(rel, Node::File { sha: sha256_hex(&bytes), len: md.len() });
            } else {
                out.insert(rel, Node::Other);
            }
        }
    }
    walk(root, "", &mut out);
    out
}

pub fn write_file(root: &Path, rel: &str, bytes: &[u8]) {
    let p = root.join(rel);
    if let Some(parent) = p.parent() {
        std::fs::create_dir_all(parent).expect("create parent");
    }
    std::fs::write(&p, bytes).expect("write file");
}

pub fn trio_names(n: u64) -> [String; 3] {
    [format!("{n:05}.chunk"), format!("{n:05}.primary"), format!("{n:05}.secondary")]
}

/// `Some(number)` iff `name` is exactly a five-digit immutable trio file name.
pub fn parse_trio_name(name: &str) -> Option<u64> {
    let (stem, ext) = name.split_once('.')?;
    if !matches!(ext, "chunk" | "primary" | "secondary") {
        return None;
    }
    if stem.len() != 5 || !stem.bytes().all(|b| b.is_ascii_digit()) {
        return None;
    }
    stem.parse().ok()
}

#[derive(Clone, Debug, PartialEq, Eq, Serialize, Deserialize)]
#[serde(rename_all = "snake_case")]
pub enum RangeCfg {
    Full,
    From(u64),
    Range(u64, u64),
    UpTo(u64),
}

impl RangeCfg {
    /// Own reading of the API documentation: inclusive bounds, first immutable is 0.
    pub fn bounds(&self, beacon: u64) -> Option<(u64, u64)> {
        match *self {
            RangeCfg::Full => Some((0, beacon)),
            RangeCfg::From(a) if a <= beacon => Some((a, beacon)),
            RangeCfg::Range(a, b) if a <= b && b <= beacon => Some((a, b)),
            RangeCfg::UpTo(b) if b <= beacon => Some((0, b)),
            _ => None,
        }
    }
    pub fn to_client(&self) -> mithril_client::cardano_database_client::ImmutableFileRange {
        use mithril_client::cardano_database_client::ImmutableFileRange as R;
        match *self {
            RangeCfg::Full => R::Full,
            RangeCfg::From(a) => R::From(a),
            RangeCfg::Range(a, b) => R::Range(a, b),
            RangeCfg::UpTo(b) => R::UpTo(b),
        }
    }
    pub fn kind(&self) -> &'static str {
        match self {
            RangeCfg::Full => "full",
            RangeCfg::From(_) => "from",
            RangeCfg::Range(..) => "inner",
            RangeCfg::UpTo(_) => "upto",
        }
    }
    pub fn generate(rng: &mut Rng, beacon: u64) -> RangeCfg {
        match rng.below(4) {
            0 => RangeCfg::Full,
            1 => RangeCfg::From(rng.range(0, beacon)),
            2 => {
                let a = rng.range(0, beacon);
                RangeCfg::Range(a, rng.range(a, beacon))
            }
            _ => RangeCfg::UpTo(rng.range(0, beacon)),
        }
    }
}

pub fn harness_error(msg: &str) -> ! {
    eprintln!("HARNESS-ERROR: {msg}");
    std::process::exit(2)
}
