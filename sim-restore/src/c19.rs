//! C19 — only verified immutables and manifest-vouched ancillary files get restored.
//!
//! Scenario = config (database shape, mirrors, download steps) + trace of concrete faults (what
//! each mirror serves instead of the honest archive, which locations are unavailable, which user
//! files pre-exist). Execution = real `CardanoDatabaseClient::download_unpack` per step against
//! `file://` mirrors. Oracle = own classification of every path that is new or changed in the
//! target directory, written from the property statement.
use std::collections::{BTreeMap, BTreeSet};
use std::path::{Path, PathBuf};

use mithril_cardano_node_internal_database::entities::AncillaryFilesManifest;
use mithril_client::cardano_database_client::DownloadUnpackOptions;
use mithril_common::entities::{
    AncillaryLocation, CardanoDbBeacon, DigestLocation, ImmutablesLocation, MultiFilesUri, TemplateUri,
};
use mithril_common::messages::{
    AncillaryMessagePart, CardanoDatabaseSnapshotMessage, DigestsMessagePart, ImmutablesMessagePart,
};
use mithril_common::test::double::Dummy;
use serde::{Deserialize, Serialize};
use serde_json::{Value, json};
use sim_core::batch::{RunReport, Violation};
use sim_core::scratch::Scratch;
use sim_core::{Fingerprint, Rng};

use crate::archive::{self, Comp, Entry, EntryKind};
use crate::client::{self, Node as ClientNode};
use crate::common::{self, Listing, Node, RangeCfg};
use crate::downloader::{Call, StepPlan, TaskKey};

pub const PROPERTY: &str = "C19";

#[derive(Serialize, Deserialize, Clone, Debug)]
pub struct MirrorCfg {
    pub comp_imm: Comp,
    pub comp_anc: Comp,
}

#[derive(Serialize, Deserialize, Clone, Debug)]
pub struct StepCfg {
    pub range: RangeCfg,
    pub include_ancillary: bool,
    pub allow_override: bool,
    pub parallel: usize,
    pub picks: Vec<u32>,
}

#[derive(Serialize, Deserialize, Clone, Debug)]
pub struct Config {
    pub content_seed: u64,
    /// immutable files 0..=beacon are certified; the ancillary archive carries trio beacon+1
    pub beacon: u64,
    pub network: String,
    pub mirrors: Vec<MirrorCfg>,
    pub utxo_hd: bool,
    pub steps: Vec<StepCfg>,
}

#[derive(Serialize, Deserialize, Clone, Copy, Debug, PartialEq, Eq, PartialOrd, Ord)]
#[serde(rename_all = "snake_case")]
pub enum TaskRef {
    Imm(u64),
    Anc,
}

#[derive(Serialize, Deserialize, Clone, Debug, PartialEq, Eq)]
#[serde(rename_all = "snake_case")]
pub enum ExtraKind {
    File,
    Symlink(String),
    Dir,
}

#[derive(Serialize, Deserialize, Clone, Debug, PartialEq, Eq)]
#[serde(rename_all = "snake_case")]
pub enum ManifestFault {
    /// a listed hash replaced after signing
    HashChanged(usize),
    /// an entry (and the file, when the path can be stored) added after signing
    EntryAdded(String),
    EntryRemoved(usize),
    SigAltered,
    SigRemoved,
    /// the manifest as it stands (hashes recomputed from the archive content) signed with key B
    ResignOtherKey,
    /// content of a listed file changed in the archive, manifest untouched
    ListedFileAltered(usize),
    ManifestMissing,
    NotJson,
    /// two neighbouring entries `(k1, h1) (k2, h2)` replaced by the single entry `(k1 h1 k2, h2)`,
    /// signature untouched; the archive carries k2's content under the merged name and neither
    /// k1 nor k2 (the signed hash covers the plain concatenation of keys and values)
    MergeEntries(usize),
    /// manifest untouched (validly signed); in the archive a listed path is a *directory* holding
    /// files of the mirror's choosing instead of the listed file
    ListedPathAsDirectory(usize),
}

#[derive(Serialize, Deserialize, Clone, Debug, PartialEq, Eq)]
#[serde(tag = "fault", rename_all = "snake_case")]
pub enum Fault {
    PreExisting { path: String, len: usize },
    Unavailable { step: usize, mirror: usize, task: TaskRef },
    Extra {
        step: usize,
        mirror: usize,
        task: TaskRef,
        path: String,
        kind: ExtraKind,
        len: usize,
        front: bool,
        /// the entry's own header carries this (expected) name; `path` comes from a long-name / PAX record
        #[serde(default)]
        disguise: Option<(String, archive::Via)>,
    },
    DropEntry { step: usize, mirror: usize, task: TaskRef, index: usize },
    WrongCompression { step: usize, mirror: usize, task: TaskRef },
    Truncate { step: usize, mirror: usize, task: TaskRef, permille: u32 },
    BitFlip { step: usize, mirror: usize, task: TaskRef, permille: u32, bit: u8 },
    EmptyFile { step: usize, mirror: usize, task: TaskRef },
    Manifest { step: usize, mirror: usize, what: ManifestFault },
}

impl Fault {
    pub fn kind(&self) -> &'static str {
        match self {
            Fault::PreExisting { .. } => "preexisting_user_file",
            Fault::Unavailable { .. } => "location_unavailable",
            Fault::Extra { disguise: Some((_, archive::Via::GnuLongName)), .. } => "extra_entry_behind_gnu_long_name_record",
            Fault::Extra { disguise: Some((_, archive::Via::Pax)), .. } => "extra_entry_behind_pax_path_record",
            Fault::Extra { task: TaskRef::Imm(_), .. } => "extra_entry_immutable_archive",
            Fault::Extra { task: TaskRef::Anc, .. } => "extra_entry_ancillary_archive",
            Fault::DropEntry { .. } => "entry_dropped",
            Fault::WrongCompression { .. } => "wrong_compression",
            Fault::Truncate { .. } => "truncated",
            Fault::BitFlip { .. } => "bit_flipped",
            Fault::EmptyFile { .. } => "empty_file",
            Fault::Manifest { what, .. } => match what {
                ManifestFault::HashChanged(_) => "manifest_hash_changed",
                ManifestFault::EntryAdded(_) => "manifest_entry_added",
                ManifestFault::EntryRemoved(_) => "manifest_entry_removed",
                ManifestFault::SigAltered => "manifest_sig_altered",
                ManifestFault::SigRemoved => "manifest_sig_removed",
                ManifestFault::ResignOtherKey => "manifest_other_key",
                ManifestFault::ListedFileAltered(_) => "manifest_listed_file_altered",
                ManifestFault::ManifestMissing => "manifest_missing",
                ManifestFault::NotJson => "manifest_not_json",
                ManifestFault::MergeEntries(_) => "manifest_entries_merged_signature_kept",
                ManifestFault::ListedPathAsDirectory(_) => "manifest_listed_path_served_as_directory",
            },
        }
    }
    fn site(&self) -> Option<(usize, usize, TaskRef)> {
        match self {
            Fault::PreExisting { .. } => None,
            Fault::Unavailable { step, mirror, task }
            | Fault::Extra { step, mirror, task, .. }
            | Fault::DropEntry { step, mirror, task, .. }
            | Fault::WrongCompression { step, mirror, task }
            | Fault::Truncate { step, mirror, task, .. }
            | Fault::BitFlip { step, mirror, task, .. }
            | Fault::EmptyFile { step, mirror, task } => Some((*step, *mirror, *task)),
            Fault::Manifest { step, mirror, .. } => Some((*step, *mirror, TaskRef::Anc)),
        }
    }
}

/// Where the real unpacker would put an entry name, by the rules of ustar extraction that the
/// statement takes for granted (own normalisation: drop empty and `.` components and a leading
/// root; a name with `..` is not extractable inside the destination).
fn landing_path(raw: &str) -> Option<String> {
    let mut parts = Vec::new();
    for c in raw.split('/') {
        match c {
            "" | "." => {}
            ".." => return None,
            x => parts.push(x),
        }
    }
    if parts.is_empty() { None } else { Some(parts.join("/")) }
}

// ---------------------------------------------------------------------------------------------
// generation
// ---------------------------------------------------------------------------------------------

fn gen_extra_path(rng: &mut Rng, cfg: &Config, step: &StepCfg, task: TaskRef) -> String {
    let b = cfg.beacon;
    let (lo, hi) = step.range.bounds(b).unwrap_or((0, b));
    let k = rng.below(3);
    let ext = *rng.pick(&["chunk", "primary", "secondary"]);
    let outside: Vec<u64> = (0..=b).filter(|n| *n < lo || *n > hi).collect();
    let mut menu: Vec<String> = vec![
        format!("ledger/evil-{k}"),
        "ledger/4242/state".into(),
        "volatile/blocks-0.dat".into(),
        format!("top-level-{k}.txt"),
        "clean".into(),
        "protocolMagicId".into(),
        "immutable/x/y".into(),
        "immutable/evil.txt".into(),
        format!("/abs-{k}.txt"),
        "/etc/evil".into(),
        format!("../escape-{k}.txt"),
        "immutable/../../escape2.txt".into(),
        format!("immutable/{:05}.{ext}", b + 1),
        format!("immutable/{:05}.{ext}", b + 2),
        format!("immutable/{:05}.{ext}", rng.range(lo, hi)),
        format!("immutable/{:05}.foo", rng.range(lo, hi)),
        "ancillary_manifest.json".into(),
        "ancillary-xyz/ledger/1".into(),
        "./ledger/dot".into(),
        "ledger//double".into(),
        format!("immutable/{}.{ext}", rng.range(0, b)),
    ];
    if !outside.is_empty() {
        // weighted up: the interesting in-beacon, out-of-request numbers
        for _ in 0..4 {
            menu.push(format!("immutable/{:05}.{ext}", rng.pick(&outside)));
        }
    }
    if let TaskRef::Anc = task {
        menu.push("ledger/unlisted".into());
        menu.push(format!("immutable/{:05}.chunk", rng.range(0, b)));
    }
    rng.pick(&menu).clone()
}

fn gen_task(rng: &mut Rng, cfg: &Config, step: &StepCfg, anc_bias: bool) -> TaskRef {
    let (lo, hi) = step.range.bounds(cfg.beacon).unwrap_or((0, cfg.beacon));
    if step.include_ancillary && (anc_bias || rng.chance(0.3)) {
        TaskRef::Anc
    } else {
        TaskRef::Imm(rng.range(lo, hi))
    }
}

pub fn generate(rng: &mut Rng) -> (Config, Vec<Fault>) {
    let beacon = rng.range(1, 5);
    let n_mirrors = 1 + rng.weighted(&[3, 4, 2]);
    let mirrors = (0..n_mirrors)
        .map(|_| MirrorCfg {
            comp_imm: if rng.chance(0.6) { Comp::Zstd } else { Comp::Gzip },
            comp_anc: if rng.chance(0.6) { Comp::Zstd } else { Comp::Gzip },
        })
        .collect();
    let n_steps = if rng.chance(0.3) { 2 } else { 1 };
    let mut steps = Vec::new();
    for s in 0..n_steps {
        let range = RangeCfg::generate(rng, beacon);
        let (_, hi) = range.bounds(beacon).unwrap();
        // the ancillary option requires the beacon in range; ask for it mostly when it is legal
        let include_ancillary = if hi == beacon { rng.chance(0.6) } else { rng.chance(0.05) };
        steps.push(StepCfg {
            range,
            include_ancillary,
            allow_override: s > 0 || rng.chance(0.5),
            parallel: rng.range(1, 4) as usize,
            picks: (0..24).map(|_| rng.below(1000) as u32).collect(),
        });
    }
    let cfg = Config {
        content_seed: rng.next_u64(),
        beacon,
        network: rng.pick(&["preview", "mainnet", "devnet", "preprod", "private"]).to_string(),
        mirrors,
        utxo_hd: rng.chance(0.5),
        steps,
    };
    let mut faults = Vec::new();
    if rng.chance(0.2) {
        return (cfg, faults); // fault-free: the strict honest-run oracle applies
    }
    // swarm: a random subset of fault families is enabled in this run
    let fam_on: Vec<bool> = (0..8).map(|_| rng.chance(0.45)).collect();
    let mut families: Vec<usize> = (0..8).filter(|i| fam_on[*i]).collect();
    if families.is_empty() {
        families.push(rng.index(8));
    }
    // motifs: correlated faults that random independent draws rarely line up
    if rng.chance(0.15) {
        // every mirror fails for one immutable task: the whole download aborts
        let s = rng.index(cfg.steps.len());
        let (lo, hi) = cfg.steps[s].range.bounds(cfg.beacon).unwrap();
        let task = TaskRef::Imm(rng.range(lo, hi));
        for mirror in 0..n_mirrors {
            faults.push(if rng.chance(0.6) {
                Fault::Unavailable { step: s, mirror, task }
            } else {
                Fault::Truncate { step: s, mirror, task, permille: rng.below(1000) as u32 }
            });
        }
    }
    if rng.chance(0.15) {
        // the first ancillary location breaks after part of the files were unpacked
        if let Some(s) = (0..cfg.steps.len()).find(|s| cfg.steps[*s].include_ancillary) {
            faults.push(Fault::Truncate { step: s, mirror: 0, task: TaskRef::Anc, permille: 500 + rng.below(480) as u32 });
        }
    }
    let n_faults = rng.weighted(&[1, 4, 4, 3, 2, 1, 1]);
    for _ in 0..n_faults {
        let s = rng.index(cfg.steps.len());
        let step = &cfg.steps[s];
        let mirror = rng.index(n_mirrors);
        match *rng.pick(&families) {
            0 => {
                let path = rng
                    .pick(&[
                        "my-notes.txt",
                        "immutable/user-file.txt",
                        "immutable/00000.chunk",
                        "ledger/999",
                        "clean",
                        "volatile/keep.me",
                        "protocolMagicId",
                    ])
                    .to_string();
                faults.push(Fault::PreExisting { path, len: rng.range(1, 40) as usize });
            }
            1 => faults.push(Fault::Unavailable { step: s, mirror, task: gen_task(rng, &cfg, step, false) }),
            2 | 3 => {
                let task = if rng.chance(0.8) {
                    let (lo, hi) = step.range.bounds(cfg.beacon).unwrap();
                    TaskRef::Imm(rng.range(lo, hi))
                } else {
                    gen_task(rng, &cfg, step, true)
                };
                let path = gen_extra_path(rng, &cfg, step, task);
                let kind = match rng.below(12) {
                    0 => ExtraKind::Symlink(rng.pick(&["/etc/hostname", "../outside", "immutable"]).to_string()),
                    1 => ExtraKind::Dir,
                    _ => ExtraKind::File,
                };
                let len = rng.range(0, 50) as usize;
                let front = rng.chance(0.5);
                // sometimes the entry hides behind an expected name: its own header says
                // `immutable/<n>.<ext>` of this very archive, the effective path comes from a
                // GNU long-name or PAX record (own sub-stream: older scenarios stay as they were)
                let mut r2 = Rng::for_run(cfg.content_seed, "c19-disguise", faults.len() as u64 * 131 + s as u64);
                let disguise = match (&kind, task) {
                    (ExtraKind::File, TaskRef::Imm(n)) if r2.chance(0.2) => Some((
                        format!("immutable/{:05}.{}", n, r2.pick(&["chunk", "primary", "secondary"])),
                        if r2.chance(0.5) { archive::Via::GnuLongName } else { archive::Via::Pax },
                    )),
                    (ExtraKind::File, TaskRef::Anc) if r2.chance(0.1) => Some((
                        honest_ancillary_paths(&cfg)[r2.index(3)].clone(),
                        if r2.chance(0.5) { archive::Via::GnuLongName } else { archive::Via::Pax },
                    )),
                    _ => None,
                };
                faults.push(Fault::Extra { step: s, mirror, task, path, kind, len, front, disguise });
            }
            4 => {
                let task = gen_task(rng, &cfg, step, false);
                faults.push(match rng.below(3) {
                    0 => Fault::Truncate { step: s, mirror, task, permille: rng.below(1000) as u32 },
                    1 => Fault::BitFlip { step: s, mirror, task, permille: rng.below(1000) as u32, bit: rng.below(8) as u8 },
                    _ => Fault::Truncate { step: s, mirror, task, permille: 850 + rng.below(150) as u32 },
                });
            }
            5 => {
                let task = gen_task(rng, &cfg, step, false);
                faults.push(match rng.below(3) {
                    0 => Fault::WrongCompression { step: s, mirror, task },
                    1 => Fault::EmptyFile { step: s, mirror, task },
                    _ => Fault::DropEntry { step: s, mirror, task, index: rng.index(8) },
                });
            }
            _ => {
                // ancillary manifest family (only meaningful when some step downloads ancillary)
                let what = match rng.below(12) {
                    10 => ManifestFault::MergeEntries(rng.index(8)),
                    11 => ManifestFault::ListedPathAsDirectory(rng.index(8)),
                    0 => ManifestFault::HashChanged(rng.index(8)),
                    1 => ManifestFault::EntryAdded(
                        rng.pick(&[
                            "ledger/evil-added",
                            "../escape-manifest.txt",
                            "/abs/manifest-evil.txt",
                            "immutable/00000.chunk",
                            "volatile/added.dat",
                        ])
                        .to_string(),
                    ),
                    2 => ManifestFault::EntryRemoved(rng.index(8)),
                    3 => ManifestFault::SigAltered,
                    4 => ManifestFault::SigRemoved,
                    5 | 6 => ManifestFault::ResignOtherKey,
                    7 => ManifestFault::ListedFileAltered(rng.index(8)),
                    8 => ManifestFault::ManifestMissing,
                    _ => ManifestFault::NotJson,
                };
                faults.push(Fault::Manifest { step: s, mirror, what });
            }
        }
    }
    (cfg, faults)
}

// ---------------------------------------------------------------------------------------------
// the mirror: archives of one step
// ---------------------------------------------------------------------------------------------

fn honest_file(cfg: &Config, rel: &str) -> Vec<u8> {
    common::content(cfg.content_seed, rel)
}

fn honest_immutable_entries(cfg: &Config, n: u64) -> Vec<Entry> {
    common::trio_names(n)
        .iter()
        .map(|name| {
            let rel = format!("immutable/{name}");
            Entry::file(&rel, honest_file(cfg, &rel))
        })
        .collect()
}

fn honest_ancillary_paths(cfg: &Config) -> Vec<String> {
    let mut v: Vec<String> =
        common::trio_names(cfg.beacon + 1).iter().map(|n| format!("immutable/{n}")).collect();
    let slot = 1000 + cfg.beacon * 100;
    if cfg.utxo_hd {
        v.push(format!("ledger/{slot}/meta"));
        v.push(format!("ledger/{slot}/state"));
        v.push(format!("ledger/{slot}/tables/tvar"));
    } else {
        v.push(format!("ledger/{slot}"));
    }
    v
}

#[derive(Default, Debug, Clone)]
pub struct BuiltStep {
    pub unavailable: BTreeSet<String>,
    /// per mirror: what a manifest validly signed with key A vouches for (path -> sha256)
    pub vouched: BTreeMap<usize, BTreeMap<String, String>>,
    /// per mirror: (landing path, sha256) of every file entry of the ancillary archive served
    pub anc_entries: BTreeMap<usize, Vec<(String, String)>>,
}

fn uri_imm_template(root: &Path, step: usize, mirror: usize, comp: Comp) -> String {
    format!("file://{}/s{step}/m{mirror}/{{immutable_file_number}}.{}", root.display(), comp.ext())
}
fn path_imm(root: &Path, step: usize, mirror: usize, n: u64, comp: Comp) -> PathBuf {
    root.join(format!("s{step}/m{mirror}/{n:05}.{}", comp.ext()))
}
fn path_anc(root: &Path, step: usize, mirror: usize, comp: Comp) -> PathBuf {
    root.join(format!("s{step}/m{mirror}/ancillary.{}", comp.ext()))
}

fn extra_entry(cfg: &Config, path: &str, kind: &ExtraKind, len: usize, task: TaskRef, disguise: &Option<(String, archive::Via)>) -> Entry {
    let kind = match kind {
        // content depends on the archive it is planted in, so the oracle can tell which archive a
        // surviving file came from
        ExtraKind::File => EntryKind::File(Rng::for_run(cfg.content_seed, &format!("{path}@{task:?}"), len as u64).bytes(len)),
        ExtraKind::Symlink(t) => EntryKind::Symlink(t.clone()),
        ExtraKind::Dir => EntryKind::Dir,
    };
    Entry { path: path.to_string(), kind, disguise: disguise.clone() }
}

fn apply_byte_faults(mut bytes: Vec<u8>, faults: &[&Fault]) -> Vec<u8> {
    for f in faults {
        match f {
            Fault::Truncate { permille, .. } => {
                let o = archive::offset_of(bytes.len(), *permille);
                bytes.truncate(o);
            }
            Fault::BitFlip { permille, bit, .. } => {
                if !bytes.is_empty() {
                    let o = archive::offset_of(bytes.len(), *permille);
                    bytes[o] ^= 1 << (bit % 8);
                }
            }
            Fault::EmptyFile { .. } => bytes.clear(),
            _ => {}
        }
    }
    bytes
}

pub fn build_step(cfg: &Config, faults: &[Fault], step: usize, root: &Path) -> BuiltStep {
    let mut built = BuiltStep::default();
    let sc = &cfg.steps[step];
    let Some((lo, hi)) = sc.range.bounds(cfg.beacon) else { return built };
    for (m, mc) in cfg.mirrors.iter().enumerate() {
        std::fs::create_dir_all(root.join(format!("s{step}/m{m}"))).expect("mirror dir");
        let site_faults = |task: TaskRef| -> Vec<&Fault> {
            faults.iter().filter(|f| f.site() == Some((step, m, task))).collect()
        };
        // immutable archives
        for n in lo..=hi {
            let fs = site_faults(TaskRef::Imm(n));
            let path = path_imm(root, step, m, n, mc.comp_imm);
            if fs.iter().any(|f| matches!(f, Fault::Unavailable { .. })) {
                built.unavailable.insert(format!("file://{}", path.display()));
            }
            let mut entries = honest_immutable_entries(cfg, n);
            let mut comp = mc.comp_imm;
            for f in &fs {
                match f {
                    Fault::Extra { path, kind, len, front, disguise, .. } => {
                        let e = extra_entry(cfg, path, kind, *len, TaskRef::Imm(n), disguise);
                        if *front { entries.insert(0, e) } else { entries.push(e) }
                    }
                    Fault::DropEntry { index, .. } => {
                        if !entries.is_empty() {
                            let i = index % entries.len();
                            entries.remove(i);
                        }
                    }
                    Fault::WrongCompression { .. } => comp = mc.comp_imm.other(),
                    _ => {}
                }
            }
            let bytes = apply_byte_faults(archive::compress(&archive::build_tar(&entries), comp), &fs);
            std::fs::write(&path, bytes).expect("write archive");
        }
        // ancillary archive
        if !sc.include_ancillary {
            continue;
        }
        let fs = site_faults(TaskRef::Anc);
        let path = path_anc(root, step, m, mc.comp_anc);
        if fs.iter().any(|f| matches!(f, Fault::Unavailable { .. })) {
            built.unavailable.insert(format!("file://{}", path.display()));
        }
        let listed = honest_ancillary_paths(cfg);
        let mut entries: Vec<Entry> = listed.iter().map(|p| Entry::file(p, honest_file(cfg, p))).collect();
        // manifest as the honest aggregator signs it (real manifest type, real hash, key A)
        let mut data: BTreeMap<PathBuf, String> = entries
            .iter()
            .map(|e| match &e.kind {
                EntryKind::File(b) => (PathBuf::from(&e.path), common::sha256_hex(b)),
                _ => unreachable!(),
            })
            .collect();
        let signer_a = client::signer_a();
        let honest_manifest = {
            let mut m = AncillaryFilesManifest::new_without_signature(data.clone());
            m.set_signature(signer_a.sign(&m.compute_hash()));
            m
        };
        let mut manifest_json = serde_json::to_value(&honest_manifest).expect("manifest json");
        let mut manifest_present = true;
        let mut manifest_raw: Option<Vec<u8>> = None;
        // (manifest JSON right after a merge forgery of the untouched honest manifest, what A really signed)
        let mut merge_forgery: Option<(Value, BTreeMap<PathBuf, String>)> = None;
        let mut comp = mc.comp_anc;
        let reserialise = |data: &BTreeMap<PathBuf, String>, sig: &Value| -> Value {
            let mut v = serde_json::to_value(AncillaryFilesManifest::new_without_signature(data.clone()))
                .expect("manifest json");
            if !sig.is_null() {
                v["signature"] = sig.clone();
            }
            v
        };
        for f in &fs {
            match f {
                Fault::Extra { path, kind, len, front, disguise, .. } => {
                    let e = extra_entry(cfg, path, kind, *len, TaskRef::Anc, disguise);
                    if *front { entries.insert(0, e) } else { entries.push(e) }
                }
                Fault::DropEntry { index, .. } => {
                    if !entries.is_empty() {
                        let i = index % entries.len();
                        entries.remove(i);
                    }
                }
                Fault::WrongCompression { .. } => comp = mc.comp_anc.other(),
                Fault::Manifest { what, .. } => match what {
                    ManifestFault::HashChanged(i) => {
                        if !data.is_empty() {
                            let k = data.keys().nth(i % data.len()).unwrap().clone();
                            let h = data.get_mut(&k).unwrap();
                            let flipped = if h.starts_with('0') { "1" } else { "0" };
                            h.replace_range(0..1, flipped);
                            manifest_json = reserialise(&data, &manifest_json["signature"]);
                        }
                    }
                    ManifestFault::EntryAdded(p) => {
                        let bytes = Rng::for_run(cfg.content_seed, p, 77).bytes(33);
                        data.insert(PathBuf::from(p), common::sha256_hex(&bytes));
                        entries.push(Entry::file(p, bytes));
                        manifest_json = reserialise(&data, &manifest_json["signature"]);
                    }
                    ManifestFault::EntryRemoved(i) => {
                        if !data.is_empty() {
                            let k = data.keys().nth(i % data.len()).unwrap().clone();
                            data.remove(&k);
                            manifest_json = reserialise(&data, &manifest_json["signature"]);
                        }
                    }
                    ManifestFault::SigAltered => {
                        if let Some(s) = manifest_json["signature"].as_str() {
                            let mut s = s.to_string();
                            if !s.is_empty() {
                                let last = s.pop().unwrap();
                                s.push(if last == '0' { '1' } else { '0' });
                            }
                            manifest_json["signature"] = Value::String(s);
                        }
                    }
                    ManifestFault::SigRemoved => {
                        if let Some(o) = manifest_json.as_object_mut() {
                            o.remove("signature");
                        }
                    }
                    ManifestFault::ResignOtherKey => {
                        // recompute hashes of listed files from the archive as it stands, sign with B
                        for (k, h) in data.iter_mut() {
                            if let Some(Entry { kind: EntryKind::File(b), .. }) =
                                entries.iter().rev().find(|e| Path::new(&e.path) == k.as_path())
                            {
                                *h = common::sha256_hex(b);
                            }
                        }
                        let mut m = AncillaryFilesManifest::new_without_signature(data.clone());
                        m.set_signature(client::signer_b().sign(&m.compute_hash()));
                        manifest_json = serde_json::to_value(&m).expect("manifest json");
                    }
                    ManifestFault::ListedFileAltered(i) => {
                        let listed_now: Vec<PathBuf> = data.keys().cloned().collect();
                        if !listed_now.is_empty() {
                            let k = &listed_now[i % listed_now.len()];
                            if let Some(e) = entries.iter_mut().find(|e| Path::new(&e.path) == k.as_path())
                                && let EntryKind::File(b) = &mut e.kind
                            {
                                if b.is_empty() { b.push(0x42) } else { b[0] ^= 0x80 }
                            }
                        }
                    }
                    ManifestFault::ManifestMissing => {
                        manifest_present = false;
                    }
                    ManifestFault::NotJson => {
                        manifest_raw = Some(b"{ this is not json".to_vec());
                    }
                    ManifestFault::ListedPathAsDirectory(i) => {
                        let listed_now: Vec<PathBuf> = data.keys().cloned().collect();
                        if !listed_now.is_empty() {
                            let k = listed_now[i % listed_now.len()].to_string_lossy().to_string();
                            if k.len() < 80 {
                                entries.retain(|e| e.path != k);
                                entries.push(Entry { path: k.clone(), kind: EntryKind::Dir, disguise: None });
                                for inner in ["state", "tables/tvar", "evil.bin"] {
                                    let p = format!("{k}/{inner}");
                                    let bytes = Rng::for_run(cfg.content_seed, &p, 91).bytes(29);
                                    entries.push(Entry::file(&p, bytes));
                                }
                            }
                        }
                    }
                    ManifestFault::MergeEntries(i) => {
                        if data.len() >= 2 {
                            let keys: Vec<PathBuf> = data.keys().cloned().collect();
                            let i = i % (keys.len() - 1);
                            let (k1, k2) = (keys[i].clone(), keys[i + 1].clone());
                            let (h1, h2) = (data[&k1].clone(), data[&k2].clone());
                            let merged = format!("{}{}{}", k1.to_string_lossy(), h1, k2.to_string_lossy());
                            let mut forged = data.clone();
                            forged.remove(&k1);
                            forged.remove(&k2);
                            forged.insert(PathBuf::from(&merged), h2);
                            // applicable only if the byte string the signature covers is unchanged
                            // (the merged key must keep its place in the key order)
                            let same = AncillaryFilesManifest::new_without_signature(forged.clone()).compute_hash()
                                == AncillaryFilesManifest::new_without_signature(data.clone()).compute_hash();
                            let content = entries.iter().find(|e| Path::new(&e.path) == k2.as_path()).and_then(|e| match &e.kind {
                                EntryKind::File(b) => Some(b.clone()),
                                _ => None,
                            });
                            if let (true, Some(content)) = (same, content) {
                                entries.retain(|e| Path::new(&e.path) != k1.as_path() && Path::new(&e.path) != k2.as_path());
                                let disguise = if merged.len() >= 100 { Some(("merged-entry".to_string(), archive::Via::GnuLongName)) } else { None };
                                entries.push(Entry { path: merged, kind: EntryKind::File(content), disguise });
                                let untouched = manifest_json == serde_json::to_value(&honest_manifest).expect("manifest json");
                                let signed = data.clone();
                                data = forged;
                                manifest_json = reserialise(&data, &manifest_json["signature"]);
                                if untouched {
                                    merge_forgery = Some((manifest_json.clone(), signed));
                                }
                            }
                        }
                    }
                },
                _ => {}
            }
        }
        let raw_replaced = manifest_raw.is_some();
        if manifest_present {
            let bytes = manifest_raw.unwrap_or_else(|| serde_json::to_vec(&manifest_json).expect("manifest bytes"));
            entries.push(Entry::file(AncillaryFilesManifest::ANCILLARY_MANIFEST_FILE_NAME, bytes));
        }
        // by construction: the manifest verifies under key A iff the bytes served are exactly the
        // (data, signature) pair A produced; Ed25519 signatures are deterministic and the mirror
        // does not hold A's key, so no other pair it can produce verifies
        let honest_json = serde_json::to_value(&honest_manifest).expect("manifest json");
        let valid_a = manifest_present && !raw_replaced && manifest_json == honest_json;
        if valid_a {
            built.vouched.insert(
                m,
                data.iter().map(|(k, v)| (k.to_string_lossy().to_string(), v.clone())).collect(),
            );
        } else if let Some((forged_json, signed)) = &merge_forgery
            && manifest_present
            && !raw_replaced
            && manifest_json == *forged_json
        {
            // the served manifest carries A's signature over the same byte string but is not what
            // A signed: A vouches for the entries of the manifest it signed, nothing else
            built.vouched.insert(
                m,
                signed.iter().map(|(k, v)| (k.to_string_lossy().to_string(), v.clone())).collect(),
            );
        }
        built.anc_entries.insert(
            m,
            entries
                .iter()
                .filter_map(|e| match &e.kind {
                    EntryKind::File(b) => landing_path(&e.path).map(|p| (p, common::sha256_hex(b))),
                    _ => None,
                })
                .collect(),
        );
        let bytes = apply_byte_faults(archive::compress(&archive::build_tar(&entries), comp), &fs);
        std::fs::write(&path, bytes).expect("write archive");
    }
    built
}

fn snapshot_message(cfg: &Config, step: usize, root: &Path) -> CardanoDatabaseSnapshotMessage {
    let sc = &cfg.steps[step];
    let mut msg = CardanoDatabaseSnapshotMessage::dummy();
    msg.network = cfg.network.clone();
    msg.beacon = CardanoDbBeacon::new(7, cfg.beacon);
    msg.digests = DigestsMessagePart {
        size_uncompressed: 100,
        locations: vec![DigestLocation::Aggregator { uri: "file:///nonexistent/digests.json".into() }],
    };
    msg.immutables = ImmutablesMessagePart {
        average_size_uncompressed: 1000,
        locations: cfg
            .mirrors
            .iter()
            .enumerate()
            .map(|(m, mc)| ImmutablesLocation::CloudStorage {
                uri: MultiFilesUri::Template(TemplateUri(uri_imm_template(root, step, m, mc.comp_imm))),
                compression_algorithm: Some(mc.comp_imm.to_repo()),
            })
            .collect(),
    };
    msg.ancillary = AncillaryMessagePart {
        size_uncompressed: 1000,
        locations: if sc.include_ancillary {
            cfg.mirrors
                .iter()
                .enumerate()
                .map(|(m, mc)| AncillaryLocation::CloudStorage {
                    uri: format!("file://{}", path_anc(root, step, m, mc.comp_anc).display()),
                    compression_algorithm: Some(mc.comp_anc.to_repo()),
                })
                .collect()
        } else {
            // the client must not touch these
            vec![AncillaryLocation::CloudStorage {
                uri: "file:///nonexistent/ancillary.tar.zst".into(),
                compression_algorithm: Some(Comp::Zstd.to_repo()),
            }]
        },
    };
    msg
}

// ---------------------------------------------------------------------------------------------
// execution + oracle
// ---------------------------------------------------------------------------------------------

#[derive(Clone, Debug, PartialEq, Eq, PartialOrd, Ord)]
pub struct Finding {
    pub step: usize,
    pub clause: &'static str,
    pub path: String,
    pub detail: String,
}

#[derive(Default, Clone, Debug)]
pub struct Outcome {
    pub violations: Vec<Finding>,
    pub step_ok: Vec<bool>,
    pub calls: Vec<Vec<Call>>,
    pub fired: BTreeSet<usize>, // indices into the fault list
    pub observations: BTreeMap<String, u64>,
    pub digest: Fingerprint,
    pub classes: BTreeSet<String>,
    pub listings: Vec<Listing>,
}

fn magic_of(network: &str) -> Option<&'static str> {
    // Cardano network magics (public constants of the networks themselves)
    match network {
        "mainnet" => Some("764824073"),
        "preprod" => Some("1"),
        "preview" => Some("2"),
        "devnet" => Some("42"),
        _ => None,
    }
}

/// `ancillary-<uuid v4>`: the name the client gives its temporary unpack directory
fn is_temp_dir_name(name: &str) -> bool {
    name.strip_prefix("ancillary-").is_some_and(|u| {
        u.len() == 36 && u.bytes().all(|b| b.is_ascii_hexdigit() || b == b'-')
    })
}

/// a path strictly inside the client's temporary directory
fn is_temp_path(p: &str) -> bool {
    p.split_once('/').is_some_and(|(first, _)| is_temp_dir_name(first))
}

fn normalise_path(p: &str) -> String {
    // the client names its temporary directory `ancillary-<random uuid>`
    match p.split_once('/') {
        Some((first, rest)) if is_temp_dir_name(first) => format!("ancillary-*/{rest}"),
        None if is_temp_dir_name(p) => "ancillary-*".to_string(),
        _ => p.to_string(),
    }
}

pub fn execute(node: &ClientNode, cfg: &Config, faults: &[Fault]) -> Outcome {
    let scratch = Scratch::new("c19");
    let mirror_root = scratch.sub("mirror");
    let boxdir = scratch.sub("box");
    let target = boxdir.join("target");
    std::fs::create_dir_all(&target).expect("target dir");
    let mut out = Outcome::default();
    out.digest.add(&serde_json::to_string(cfg).unwrap());
    out.digest.add(&serde_json::to_string(faults).unwrap());

    for (i, f) in faults.iter().enumerate() {
        if let Fault::PreExisting { path, len } = f {
            common::write_file(&target, path, &Rng::for_run(cfg.content_seed, path, 1).bytes(*len));
            out.fired.insert(i);
        }
    }

    for (s, sc) in cfg.steps.iter().enumerate() {
        let built = build_step(cfg, faults, s, &mirror_root);
        let msg = snapshot_message(cfg, s, &mirror_root);
        let before = common::list_tree(&target);
        let bounds = sc.range.bounds(cfg.beacon);
        let mut tasks: Vec<TaskKey> = Vec::new();
        if let Some((lo, hi)) = bounds {
            tasks.extend((lo..=hi).map(TaskKey::Imm));
            if sc.include_ancillary {
                tasks.push(TaskKey::Anc);
            }
        }
        let parallel = sc.parallel;
        node.dl.begin(StepPlan {
            tasks,
            parallel,
            locations: cfg.mirrors.len(),
            picks: sc.picks.clone(),
            unavailable: built.unavailable.clone(),
        });
        let options = DownloadUnpackOptions {
            allow_override: sc.allow_override,
            include_ancillary: sc.include_ancillary,
            max_parallel_downloads: parallel,
        };
        let range = sc.range.to_client();
        let db = node.client.cardano_database_v2();
        let result = node.rt.block_on(async {
            tokio::time::timeout(
                std::time::Duration::from_secs(60),
                db.download_unpack(&msg, &range, &target, options),
            )
            .await
        });
        let calls = node.dl.end();
        let ok = match result {
            Ok(r) => r.is_ok(),
            Err(_) => common::harness_error(&format!(
                "download_unpack did not finish (decorator stall?) cfg={} faults={}",
                serde_json::to_string(cfg).unwrap(),
                serde_json::to_string(faults).unwrap()
            )),
        };
        node_quiesce(node);
        let after = common::list_tree(&target);

        // which faults fired: their archive was actually requested (or refused) in this step
        for (i, f) in faults.iter().enumerate() {
            if let Some((fs, fm, ft)) = f.site()
                && fs == s
            {
                let key = match ft {
                    TaskRef::Imm(n) => TaskKey::Imm(n),
                    TaskRef::Anc => TaskKey::Anc,
                };
                if calls.iter().any(|c| c.key == key && c.mirror == fm) {
                    out.fired.insert(i);
                }
            }
        }

        judge_step(cfg, faults, s, ok, &built, &before, &after, &calls, &mut out);

        // anything outside the target directory?
        let outside: Vec<String> =
            common::list_tree(&boxdir).into_keys().filter(|p| p != "target" && !p.starts_with("target/")).collect();
        for p in outside {
            out.violations.push(Finding {
                step: s,
                clause: "escape",
                path: p.clone(),
                detail: format!("path `{p}` appeared next to the target directory"),
            });
        }

        out.digest.add(if ok { "ok" } else { "err" });
        for c in &calls {
            out.digest.add(&format!("{}@{}:{}", c.key.label(), c.mirror, c.ok));
        }
        for (p, n) in &after {
            out.digest.add(&normalise_path(p));
            out.digest.add(&format!("{n:?}"));
        }
        out.step_ok.push(ok);
        out.calls.push(calls);
        out.listings.push(after);
    }
    out.violations.sort();
    out.violations.dedup();
    for v in &out.violations {
        out.digest.add(v.clause).add(&normalise_path(&v.path));
    }
    out
}

fn node_quiesce(node: &ClientNode) {
    // aborted download tasks are dropped by the runtime the next time it runs: let it, until the
    // decorator is referenced only by the client and the harness again
    node.rt.block_on(async {
        for round in 0..100_000u32 {
            if round >= 8 && std::sync::Arc::strong_count(&node.dl) == node.idle_count {
                return;
            }
            tokio::task::yield_now().await;
        }
        common::harness_error("client tasks still alive after the download call returned");
    });
}

#[allow(clippy::too_many_arguments)]
fn judge_step(
    cfg: &Config,
    faults: &[Fault],
    s: usize,
    ok: bool,
    built: &BuiltStep,
    before: &Listing,
    after: &Listing,
    calls: &[Call],
    out: &mut Outcome,
) {
    let sc = &cfg.steps[s];
    let bounds = sc.range.bounds(cfg.beacon);
    let mut vouched: BTreeMap<&str, BTreeSet<&str>> = BTreeMap::new();
    if sc.include_ancillary {
        for m in built.vouched.values() {
            for (p, h) in m {
                vouched.entry(p.as_str()).or_default().insert(h.as_str());
            }
        }
    }
    let anc_served: BTreeSet<(&str, &str)> = built
        .anc_entries
        .values()
        .flat_map(|v| v.iter().map(|(p, h)| (p.as_str(), h.as_str())))
        .collect();
    let push = |clause: &'static str, path: &str, detail: String, out: &mut Outcome| {
        out.violations.push(Finding { step: s, clause, path: path.to_string(), detail });
    };

    for (p, node) in after {
        let was = before.get(p);
        if was == Some(node) {
            continue; // untouched
        }
        let pre = if was.is_some() { "pre-existing, modified" } else { "new" };
        match node {
            Node::Dir => {
                // directories are containers; a directory that holds nothing allowed shows up
                // through its files. Empty foreign directories are recorded, not judged.
                let has_child = after.range(format!("{p}/")..).next().is_some_and(|(q, _)| q.starts_with(&format!("{p}/")));
                if p.strip_prefix("immutable/").is_some_and(|n| common::parse_trio_name(n).is_some()) {
                    *out.observations.entry("obs_directory_under_an_immutable_file_name".into()).or_default() += 1;
                }
                if !has_child {
                    let class = if is_temp_dir_name(p) {
                        "obs_empty_temp_dir_survived"
                    } else {
                        "obs_empty_foreign_dir"
                    };
                    if p != "immutable" && p != "ledger" {
                        *out.observations.entry(class.into()).or_default() += 1;
                    }
                }
                continue;
            }
            Node::File { sha, len } => {
                // (a) bootstrap markers the client writes itself on success
                if ok && p == "clean" && *len == 0 {
                    out.classes.insert("marker".into());
                    continue;
                }
                if ok && p == "protocolMagicId" && magic_of(&cfg.network).is_some_and(|m| common::sha256_hex(m.as_bytes()) == *sha) {
                    out.classes.insert("marker".into());
                    continue;
                }
                // (c) vouched by a manifest signed with the configured key, with the listed hash
                if vouched.get(p.as_str()).is_some_and(|hs| hs.contains(sha.as_str())) {
                    out.classes.insert("vouched".into());
                    continue;
                }
                // (b) immutable file of the requested range
                let trio_number = p.strip_prefix("immutable/").and_then(common::parse_trio_name);
                if let Some(n) = trio_number
                    && bounds.is_some_and(|(lo, hi)| n >= lo && n <= hi)
                {
                    out.classes.insert("immutable-in-range".into());
                    continue;
                }
                if is_temp_path(p) {
                    out.classes.insert("temp-dir-content".into());
                    push("temp-dir-content-survives", &normalise_path(p), format!("`{}` left behind in the client's temporary ancillary directory", normalise_path(p)), out);
                    continue;
                }
                if sc.include_ancillary && anc_served.contains(&(p.as_str(), sha.as_str())) {
                    out.classes.insert("unverified-ancillary".into());
                    push(
                        "unverified-ancillary-kept",
                        p,
                        format!("{pre} file `{p}` comes from an ancillary archive but no manifest signed by the configured key lists it with this hash"),
                        out,
                    );
                    continue;
                }
                if trio_number.is_some() {
                    out.classes.insert("immutable-outside-range".into());
                    push(
                        "immutable-outside-range",
                        p,
                        format!("{pre} immutable file `{p}` is outside the requested range {:?} (beacon {})", sc.range, cfg.beacon),
                        out,
                    );
                    continue;
                }
                let clause = if was.is_some() { "preexisting-modified" } else { "foreign-file" };
                out.classes.insert(clause.into());
                push(clause, p, format!("{pre} file `{p}` (download returned {})", if ok { "Ok" } else { "Err" }), out);
            }
            Node::Symlink { target } => {
                if is_temp_path(p) {
                    push("temp-dir-content-survives", &normalise_path(p), format!("symlink `{}` left behind in the temporary ancillary directory", normalise_path(p)), out);
                } else {
                    // a symlink is never an immutable or ancillary *file* of the database, whatever
                    // its name: what it designates lives outside what was verified
                    out.classes.insert("foreign-symlink".into());
                    push("foreign-file", p, format!("{pre} symlink `{p}` -> `{target}`"), out);
                }
            }
            Node::Other => push("foreign-file", p, format!("{pre} special file `{p}`"), out),
        }
    }
    for p in before.keys() {
        if !after.contains_key(p) {
            *out.observations.entry("obs_preexisting_removed".into()).or_default() += 1;
        }
    }

    // strict form for benign steps: only unavailability faults, an honest copy reachable
    let step_faults: Vec<&Fault> = faults.iter().filter(|f| f.site().is_some_and(|(fs, _, _)| fs == s)).collect();
    // ... and the directory it starts from was not shaped by a faulty mirror in an earlier step
    // (e.g. a hostile directory entry named like an immutable file makes later honest unpacks
    // fail; the statement does not promise success from such a state)
    let earlier_steps_benign = faults
        .iter()
        .filter(|f| f.site().is_some_and(|(fs, _, _)| fs < s))
        .all(|f| matches!(f, Fault::Unavailable { .. }));
    let only_unavailable =
        earlier_steps_benign && step_faults.iter().all(|f| matches!(f, Fault::Unavailable { .. }));
    if let Some((lo, hi)) = bounds
        && only_unavailable
    {
        let mut task_list: Vec<TaskRef> = (lo..=hi).map(TaskRef::Imm).collect();
        if sc.include_ancillary {
            task_list.push(TaskRef::Anc);
        }
        let reachable = task_list.iter().all(|t| {
            (0..cfg.mirrors.len())
                .any(|m| !step_faults.iter().any(|f| f.site() == Some((s, m, *t))))
        });
        let exists = |d: &str| before.contains_key(d);
        let pre_ok = (!sc.include_ancillary || hi == cfg.beacon)
            && (sc.allow_override
                || (!exists("immutable") && (!sc.include_ancillary || (!exists("volatile") && !exists("ledger")))));
        if reachable && pre_ok {
            if !ok {
                push("honest-run-failed", "", format!("every task had an honest reachable mirror, preconditions held, yet download_unpack returned Err (calls: {})", calls.len()), out);
            } else {
                let mut expected = before.clone();
                let put = |rel: &str, bytes: &[u8], expected: &mut Listing| {
                    let mut acc = String::new();
                    let comps: Vec<&str> = rel.split('/').collect();
                    for c in &comps[..comps.len() - 1] {
                        if !acc.is_empty() {
                            acc.push('/');
                        }
                        acc.push_str(c);
                        expected.insert(acc.clone(), Node::Dir);
                    }
                    expected.insert(rel.to_string(), Node::File { sha: common::sha256_hex(bytes), len: bytes.len() as u64 });
                };
                for n in lo..=hi {
                    for name in common::trio_names(n) {
                        let rel = format!("immutable/{name}");
                        put(&rel, &honest_file(cfg, &rel), &mut expected);
                    }
                }
                if sc.include_ancillary {
                    for rel in honest_ancillary_paths(cfg) {
                        put(&rel, &honest_file(cfg, &rel), &mut expected);
                    }
                }
                put("clean", b"", &mut expected);
                if let Some(m) = magic_of(&cfg.network) {
                    put("protocolMagicId", m.as_bytes(), &mut expected);
                }
                if &expected != after {
                    let missing: Vec<&String> = expected.keys().filter(|k| after.get(*k) != expected.get(*k)).take(3).collect();
                    let extra: Vec<&String> = after.keys().filter(|k| !expected.contains_key(*k)).take(3).collect();
                    push("honest-run-wrong-result", "", format!("benign step succeeded but the directory differs from the expected set: missing/different {missing:?}, unexpected {extra:?}"), out);
                }
            }
        }
    }
}

// ---------------------------------------------------------------------------------------------
// attribution, minimisation, reports
// ---------------------------------------------------------------------------------------------

/// A known, unrepaired defect: its id in known-findings.json and how to take its trigger out of
/// a scenario (`None` when the scenario does not contain the trigger).
pub struct KnownTrigger {
    pub id: &'static str,
    pub neutralise: fn(&Config, &[Fault]) -> Option<(Config, Vec<Fault>)>,
}

/// The three defects this engine found in round 1 (foreign entries of immutable archives,
/// immutable files outside the requested range, ancillary temp dir left on abort) were repaired
/// in /repo (known-findings.json status `fixed`, which suppresses nothing). One entry: the signed
/// hash of the ancillary manifest covers the plain concatenation of keys and values, so a
/// manifest with two neighbouring entries merged into one keeps a valid signature (known, not
/// repairable without changing the signed format pinned by an existing test).
pub const KNOWN_TRIGGERS: &[KnownTrigger] = &[KnownTrigger {
    id: "C19-manifest-hash-concatenation-ambiguity",
    neutralise: |cfg, faults| {
        let kept: Vec<Fault> = faults
            .iter()
            .filter(|f| !matches!(f, Fault::Manifest { what: ManifestFault::MergeEntries(_), .. }))
            .cloned()
            .collect();
        if kept.len() == faults.len() { None } else { Some((cfg.clone(), kept)) }
    },
}];

type VKey = (usize, &'static str, String);
fn vkeys(o: &Outcome) -> BTreeSet<VKey> {
    o.violations.iter().map(|v| (v.step, v.clause, v.path.clone())).collect()
}

/// Counterfactual attribution: a violation belongs to a finding only if it disappears when that
/// finding's trigger is taken out of the scenario and everything else is kept.
pub fn attribute(node: &ClientNode, cfg: &Config, faults: &[Fault], out: &Outcome) -> Vec<(Finding, Option<&'static str>)> {
    if out.violations.is_empty() {
        return vec![];
    }
    let counterfactuals: Vec<(&'static str, BTreeSet<VKey>)> = KNOWN_TRIGGERS
        .iter()
        .filter_map(|t| {
            let (c, f) = (t.neutralise)(cfg, faults)?;
            Some((t.id, vkeys(&execute(node, &c, &f))))
        })
        .collect();
    out.violations
        .iter()
        .map(|v| {
            let key: VKey = (v.step, v.clause, v.path.clone());
            let finding = counterfactuals.iter().find(|(_, still)| !still.contains(&key)).map(|(id, _)| *id);
            (v.clone(), finding)
        })
        .collect()
}

pub fn minimise(node: &ClientNode, cfg: &Config, faults: &[Fault], clause: &str, budget: usize) -> (Config, Vec<Fault>) {
    let fails = |cand: &[Fault]| execute(node, cfg, cand).violations.iter().any(|v| v.clause == clause);
    let min_faults = sim_core::ddmin::ddmin(faults.to_vec(), fails, budget);
    // drop steps that are not needed (keep fault step indices consistent)
    let mut best = (cfg.clone(), min_faults);
    if best.0.steps.len() == 2 {
        for keep in [1usize, 0] {
            let mut c = best.0.clone();
            c.steps = vec![best.0.steps[keep].clone()];
            let fs: Option<Vec<Fault>> = best
                .1
                .iter()
                .map(|f| match f.site() {
                    None => Some(f.clone()),
                    Some((s, _, _)) if s == keep => Some(restep(f, 0)),
                    _ => None,
                })
                .collect();
            if let Some(fs) = fs
                && execute(node, &c, &fs).violations.iter().any(|v| v.clause == clause)
            {
                best = (c, fs);
                break;
            }
        }
    }
    // simplest knobs
    for simplify in 0..3 {
        let mut c = best.0.clone();
        match simplify {
            0 => c.steps.iter_mut().for_each(|s| s.parallel = 1),
            1 => {
                if c.mirrors.len() > 1 && best.1.iter().all(|f| f.site().is_none_or(|(_, m, _)| m == 0)) {
                    c.mirrors.truncate(1)
                } else {
                    continue;
                }
            }
            _ => c.steps.iter_mut().for_each(|s| s.picks = vec![0]),
        }
        if execute(node, &c, &best.1).violations.iter().any(|v| v.clause == clause) {
            best.0 = c;
        }
    }
    best
}

fn restep(f: &Fault, to: usize) -> Fault {
    let mut f = f.clone();
    match &mut f {
        Fault::Unavailable { step, .. }
        | Fault::Extra { step, .. }
        | Fault::DropEntry { step, .. }
        | Fault::WrongCompression { step, .. }
        | Fault::Truncate { step, .. }
        | Fault::BitFlip { step, .. }
        | Fault::EmptyFile { step, .. }
        | Fault::Manifest { step, .. } => *step = to,
        Fault::PreExisting { .. } => {}
    }
    f
}

fn summarise(attributed: &[(Finding, Option<&'static str>)]) -> Vec<Violation> {
    // one report line per (clause, finding)
    let mut groups: BTreeMap<(&'static str, Option<&'static str>), Vec<&Finding>> = BTreeMap::new();
    for (v, f) in attributed {
        groups.entry((v.clause, *f)).or_default().push(v);
    }
    groups
        .into_iter()
        .map(|((clause, finding), vs)| Violation {
            property: PROPERTY.into(),
            clause: clause.into(),
            detail: format!(
                "{} path(s); step {}: {}",
                vs.len(),
                vs[0].step,
                vs.iter().take(3).map(|v| v.detail.clone()).collect::<Vec<_>>().join(" | ")
            ),
            finding: finding.map(str::to_string),
        })
        .collect()
}

pub fn replay_doc(cfg: &Config, faults: &[Fault]) -> Value {
    json!({"property": PROPERTY, "config": cfg, "faults": faults})
}

pub fn finish_report(
    node: &ClientNode,
    cfg: &Config,
    faults: &[Fault],
    out: &Outcome,
    report: &mut RunReport,
    minimise_unknown: bool,
) {
    let attributed = attribute(node, cfg, faults, out);
    report.violations = summarise(&attributed);
    // counters
    for i in &out.fired {
        report.hit(&format!("fault_{}", faults[*i].kind()));
    }
    for (k, v) in &out.observations {
        report.count(k, *v);
    }
    for calls in &out.calls {
        report.count("sim_download_calls", calls.len() as u64);
        report.count("sim_fallbacks_to_next_location", calls.iter().filter(|c| !c.ok).count() as u64);
    }
    report.count("sim_download_steps", out.calls.len() as u64);
    for c in &out.classes {
        report.hit(&format!("probe_path_class_{c}"));
    }
    for (s, ok) in out.step_ok.iter().enumerate() {
        report.hit(if *ok { "probe_step_ok" } else { "probe_step_err" });
        if !*ok && out.calls[s].iter().any(|c| c.ok) {
            report.hit("probe_failure_after_part_of_the_files_were_written");
        }
        if s > 0 {
            report.hit("probe_redownload_into_existing_directory");
        }
        let calls = &out.calls[s];
        if let Some(i) = calls.iter().position(|c| c.key == TaskKey::Anc && c.ok)
            && calls[i + 1..].iter().any(|c| matches!(c.key, TaskKey::Imm(_)))
        {
            report.hit("probe_ancillary_moved_before_an_immutable_download");
        }
        let imm_order: Vec<u64> = calls.iter().filter_map(|c| match c.key { TaskKey::Imm(n) => Some(n), _ => None }).collect();
        if imm_order.windows(2).any(|w| w[0] > w[1]) {
            report.hit("probe_immutable_downloads_out_of_numeric_order");
        }
        if !*ok && cfg.steps[s].include_ancillary && calls.iter().any(|c| c.key == TaskKey::Anc && !c.ok) && calls.last().is_some_and(|c| matches!(c.key, TaskKey::Imm(_))) {
            report.hit("probe_abort_between_two_ancillary_location_attempts");
        }
    }
    // fingerprint: normalised op / fault-kind sequence
    let mut fp = Fingerprint::new();
    for (s, sc) in cfg.steps.iter().enumerate() {
        fp.add(sc.range.kind()).add_u64(sc.include_ancillary as u64).add_u64(sc.parallel as u64);
        fp.add_u64(out.step_ok.get(s).copied().unwrap_or(false) as u64);
        if let Some(calls) = out.calls.get(s) {
            for c in calls {
                fp.add(match c.key {
                    TaskKey::Imm(_) => "imm",
                    TaskKey::Anc => "anc",
                    TaskKey::Digest => "dig",
                })
                .add_u64(c.mirror as u64)
                .add_u64(c.ok as u64);
            }
        }
    }
    let mut kinds: Vec<&str> = out.fired.iter().map(|i| faults[*i].kind()).collect();
    kinds.sort();
    for k in &kinds {
        fp.add(k);
    }
    for c in &out.classes {
        fp.add(c);
    }
    report.fingerprint = fp.value();
    let any_call = out.calls.iter().any(|c| !c.is_empty());
    let fault_config = faults.iter().any(|f| !matches!(f, Fault::PreExisting { .. }));
    let site_fault_fired = out.fired.iter().any(|i| faults[*i].site().is_some());
    report.nontrivial = any_call && (!fault_config || site_fault_fired);
    // abstract state: result + classes of new paths + fired kinds, per run
    let mut st = Fingerprint::new();
    for ok in &out.step_ok {
        st.add_u64(*ok as u64);
    }
    for c in &out.classes {
        st.add(c);
    }
    for k in &kinds {
        st.add(k);
    }
    report.states.push(st.value());
    report.digest = out.digest.value();

    if !report.violations.is_empty() {
        let unknown = report.violations.iter().find(|v| v.finding.is_none());
        let known = sim_core::findings::Findings::load();
        let target = unknown.or_else(|| {
            report.violations.iter().find(|v| !v.finding.as_deref().is_some_and(|id| known.is_known(PROPERTY, id)))
        });
        // minimisation re-executes the scenario some 50 times: do it for the first few violating
        // runs of each worker process only (replays of the others carry the full trace)
        static MINIMISED: std::sync::atomic::AtomicU32 = std::sync::atomic::AtomicU32::new(0);
        let budget_left = MINIMISED.load(std::sync::atomic::Ordering::Relaxed) < 4;
        match target {
            Some(v) if minimise_unknown && budget_left => {
                MINIMISED.fetch_add(1, std::sync::atomic::Ordering::Relaxed);
                let clause = v.clause.clone();
                let (c, f) = minimise(node, cfg, faults, &clause, 40);
                report.replay = Some(replay_doc(&c, &f));
            }
            _ => report.replay = Some(replay_doc(cfg, faults)),
        }
    }
}

/// scenarios per run: 1 in the quick tier; the thorough tier packs several scenarios into one
/// run so that millions of scenarios do not mean millions of report lines
pub fn batch_of(tier: sim_core::Tier) -> u64 {
    match tier {
        sim_core::Tier::Quick => 1,
        sim_core::Tier::Thorough => 10,
    }
}

pub fn run(ctx: &sim_core::RunCtx) -> RunReport {
    let node = client::node();
    let batch = batch_of(ctx.tier);
    let mut report = RunReport::new(ctx.run);
    let mut fp = Fingerprint::new();
    let mut digest = Fingerprint::new();
    let mut replay_unknown = false;
    for k in 0..batch {
        let mut rng = Rng::for_run(ctx.seed, PROPERTY, ctx.run * batch + k);
        let (cfg, faults) = generate(&mut rng);
        let out = execute(node, &cfg, &faults);
        let mut sub = RunReport::new(ctx.run);
        finish_report(node, &cfg, &faults, &out, &mut sub, true);
        for (key, n) in &sub.counters {
            report.count(key, *n);
        }
        report.hit("sim_scenarios");
        report.nontrivial |= sub.nontrivial;
        report.states.push(sub.fingerprint);
        report.states.extend(sub.states.iter().copied());
        fp.add_u64(sub.fingerprint);
        digest.add_u64(sub.digest);
        // keep the replay of the first scenario with an unexplained violation, else of the first
        // violating scenario
        let sub_unknown = sub.violations.iter().any(|v| v.finding.is_none());
        if sub.replay.is_some() && (report.replay.is_none() || (sub_unknown && !replay_unknown)) {
            report.replay = sub.replay.take();
            replay_unknown = sub_unknown;
        }
        for v in sub.violations {
            if !report.violations.iter().any(|x| x.clause == v.clause && x.finding == v.finding) {
                report.violations.push(v);
            }
        }
        if ctx.want_sample && k == 0 {
            report.sample = Some(json!({
                "run": ctx.run, "config": cfg, "faults": faults,
                "steps": out.step_ok.iter().enumerate().map(|(s, ok)| json!({
                    "result": if *ok {"Ok"} else {"Err"},
                    "calls": out.calls[s].iter().map(|c| format!("{}@m{}:{}", c.key.label(), c.mirror, if c.ok {"ok"} else {"err"})).collect::<Vec<_>>(),
                    "directory_after": out.listings[s].iter().filter(|(_, n)| !matches!(n, Node::Dir)).map(|(p, _)| normalise_path(p)).collect::<Vec<_>>(),
                })).collect::<Vec<_>>(),
                "violations": out.violations.iter().map(|v| format!("[{}] {}", v.clause, v.detail)).collect::<Vec<_>>(),
            }));
        }
    }
    report.states.sort_unstable();
    report.states.dedup();
    report.fingerprint = fp.value();
    report.digest = digest.value();
    report
}

pub fn replay(doc: &Value) -> RunReport {
    let node = client::node();
    let cfg: Config = serde_json::from_value(doc["config"].clone())
        .unwrap_or_else(|e| common::harness_error(&format!("bad C19 replay config: {e}")));
    let faults: Vec<Fault> = serde_json::from_value(doc["faults"].clone())
        .unwrap_or_else(|e| common::harness_error(&format!("bad C19 replay faults: {e}")));
    let out = execute(node, &cfg, &faults);
    let mut report = RunReport::new(0);
    finish_report(node, &cfg, &faults, &out, &mut report, false);
    for v in &out.violations {
        eprintln!("  step {} [{}] {}", v.step, v.clause, v.detail);
    }
    report
}
