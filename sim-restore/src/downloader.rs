//! Harness decorator around the real `HttpFileDownloader`, injected through
//! `ClientBuilder::with_http_file_downloader`.
//!
//! The client's `InternalArtifactDownloader` runs up to `max_parallel_downloads` download tasks
//! in a `JoinSet`. Two real unpack threads writing at the same time would make the end state
//! depend on thread timing, so this decorator lets exactly ONE download call run at a time and
//! takes the *order* of calls from the scenario (`picks`), which explores the completion and
//! failure orders the JoinSet can produce while staying replayable.
//!
//! A turn is one `download_unpack` call (one location attempt). The next turn is granted only in
//! a quiescent state, defined by conditions and never by time:
//!   * no call is running, no task has definitively failed, no waiter was aborted;
//!   * every task the JoinSet must have spawned by now (first `parallel + finished` tasks of the
//!     task list, the JoinSet's own rule) and that is not finished is waiting at the gate;
//!   * every finished task's future has been dropped: each `DownloadTask` owns one clone of this
//!     decorator per location, so `Arc::strong_count` tells exactly how many tasks are still
//!     alive (this is how the end of the ancillary task's verify-and-move phase is observed);
//!   * a fixed number of extra scheduler yields passed (lets the JoinSet owner react to a failed
//!     ancillary verification with `abort_all`; on the single-threaded runtime the owner is
//!     polled before any waiter, the yields are only a margin).
//! It also injects "location unavailable" transport errors (the HTTP 404 / connection failure
//! of a mirror) without calling the real downloader.
use std::collections::{BTreeMap, BTreeSet};
use std::path::Path;
use std::sync::{Arc, Mutex, Weak};

use async_trait::async_trait;
use mithril_client::file_downloader::{DownloadEvent, FileDownloader, FileDownloaderUri};
use mithril_common::StdResult;
use mithril_common::entities::CompressionAlgorithm;

#[derive(Clone, Copy, Debug, PartialEq, Eq, PartialOrd, Ord)]
pub enum TaskKey {
    Imm(u64),
    Anc,
    Digest,
}

impl TaskKey {
    pub fn label(&self) -> String {
        match self {
            TaskKey::Imm(n) => format!("imm{n}"),
            TaskKey::Anc => "anc".into(),
            TaskKey::Digest => "digest".into(),
        }
    }
}

#[derive(Clone, Debug, Default)]
pub struct StepPlan {
    /// download tasks in the order the client queues them; empty = pass-through (no gating)
    pub tasks: Vec<TaskKey>,
    pub parallel: usize,
    /// locations per task
    pub locations: usize,
    pub picks: Vec<u32>,
    pub unavailable: BTreeSet<String>,
}

#[derive(Clone, Debug, PartialEq, Eq)]
pub struct Call {
    pub key: TaskKey,
    pub mirror: usize,
    pub ok: bool,
    pub simulated_unavailable: bool,
}

#[derive(Default)]
struct State {
    plan: StepPlan,
    base: usize,
    waiting: BTreeSet<TaskKey>,
    finished: BTreeSet<TaskKey>,
    attempts: BTreeMap<TaskKey, usize>,
    granted: Option<TaskKey>,
    terminal: bool,
    aborted: bool,
    settle: u32,
    pick_idx: usize,
    calls: Vec<Call>,
}

const SETTLE_YIELDS: u32 = 64;

pub struct SerialisingDownloader {
    inner: Arc<dyn FileDownloader>,
    me: Weak<SerialisingDownloader>,
    state: Mutex<State>,
    notify: tokio::sync::Notify,
}

enum Decision {
    Go,
    Wait,
    Spin,
}

fn mirror_of(uri: &str) -> usize {
    // .../m<i>/<file>
    uri.rsplit('/')
        .nth(1)
        .and_then(|seg| seg.strip_prefix('m'))
        .and_then(|d| d.parse().ok())
        .unwrap_or(usize::MAX)
}

impl SerialisingDownloader {
    pub fn new(inner: Arc<dyn FileDownloader>) -> Arc<Self> {
        Arc::new_cyclic(|me| SerialisingDownloader {
            inner,
            me: me.clone(),
            state: Mutex::new(State::default()),
            notify: tokio::sync::Notify::new(),
        })
    }

    /// Call right before a client operation; no client task may exist at this point.
    pub fn begin(&self, plan: StepPlan) {
        let mut st = self.state.lock().unwrap();
        *st = State { plan, base: self.me.strong_count(), ..State::default() };
    }

    /// Calls made since `begin`, in execution order.
    pub fn end(&self) -> Vec<Call> {
        let mut st = self.state.lock().unwrap();
        let calls = std::mem::take(&mut st.calls);
        *st = State::default();
        calls
    }

    fn decide(&self, key: TaskKey) -> Decision {
        let mut st = self.state.lock().unwrap();
        if st.granted == Some(key) {
            return Decision::Go;
        }
        if st.terminal || st.aborted || st.granted.is_some() {
            return Decision::Wait;
        }
        // quiescence
        let total = st.plan.tasks.len();
        let spawned = (st.plan.parallel + st.finished.len()).min(total);
        let all_arrived = st.plan.tasks[..spawned]
            .iter()
            .all(|k| st.finished.contains(k) || st.waiting.contains(k));
        let expected_clones = st.base + st.plan.locations * (total - st.finished.len());
        let drops_done = self.me.strong_count() == expected_clones;
        if !(all_arrived && drops_done) {
            st.settle = 0;
            return Decision::Spin;
        }
        if st.settle < SETTLE_YIELDS {
            st.settle += 1;
            return Decision::Spin;
        }
        let cands: Vec<TaskKey> = st.waiting.iter().copied().collect();
        let pick = if st.plan.picks.is_empty() {
            0
        } else {
            st.plan.picks[st.pick_idx % st.plan.picks.len()] as usize
        } % cands.len();
        st.pick_idx += 1;
        let chosen = cands[pick];
        st.waiting.remove(&chosen);
        st.granted = Some(chosen);
        st.settle = 0;
        drop(st);
        self.notify.notify_waiters();
        if chosen == key { Decision::Go } else { Decision::Wait }
    }
}

struct WaitGuard<'a> {
    dl: &'a SerialisingDownloader,
    key: TaskKey,
    armed: bool,
}

impl Drop for WaitGuard<'_> {
    fn drop(&mut self) {
        if self.armed {
            // the future was dropped while waiting or running: the JoinSet aborted this task
            let mut st = self.dl.state.lock().unwrap();
            st.waiting.remove(&self.key);
            st.aborted = true;
            drop(st);
            self.dl.notify.notify_waiters();
        }
    }
}

#[async_trait]
impl FileDownloader for SerialisingDownloader {
    async fn download_unpack(
        &self,
        location: &FileDownloaderUri,
        file_size: u64,
        target_dir: &Path,
        compression_algorithm: Option<CompressionAlgorithm>,
        download_event_type: DownloadEvent,
    ) -> StdResult<()> {
        let key = match &download_event_type {
            DownloadEvent::Immutable { immutable_file_number, .. } => TaskKey::Imm(*immutable_file_number),
            DownloadEvent::Ancillary { .. } => TaskKey::Anc,
            _ => TaskKey::Digest,
        };
        let uri = location.as_str().to_string();
        let (gated, unavailable) = {
            let st = self.state.lock().unwrap();
            (st.plan.tasks.contains(&key), st.plan.unavailable.contains(&uri))
        };
        let mut guard = WaitGuard { dl: self, key, armed: gated };
        if gated {
            {
                let mut st = self.state.lock().unwrap();
                st.waiting.insert(key);
                st.settle = 0;
            }
            loop {
                let notified = self.notify.notified();
                tokio::pin!(notified);
                notified.as_mut().enable();
                match self.decide(key) {
                    Decision::Go => break,
                    Decision::Wait => notified.await,
                    Decision::Spin => tokio::task::yield_now().await,
                }
            }
        }
        let result = if unavailable {
            Err(anyhow::anyhow!("simulated transport fault: location unavailable"))
        } else {
            self.inner
                .download_unpack(location, file_size, target_dir, compression_algorithm, download_event_type)
                .await
        };
        {
            let mut st = self.state.lock().unwrap();
            st.calls.push(Call {
                key,
                mirror: mirror_of(&uri),
                ok: result.is_ok(),
                simulated_unavailable: unavailable,
            });
            if gated {
                st.granted = None;
                st.settle = 0;
                let n = st.attempts.entry(key).or_default();
                *n += 1;
                let n = *n;
                if result.is_ok() {
                    st.finished.insert(key);
                } else if n >= st.plan.locations {
                    // every location of this task failed: the task fails, the JoinSet owner aborts the rest
                    st.terminal = true;
                }
            }
        }
        guard.armed = false;
        self.notify.notify_waiters();
        result
    }
}
