//! The client node: the real `mithril_client::Client` built with the public `ClientBuilder`,
//! the real `HttpFileDownloader` (on `file://` URIs) behind the serialising decorator, the real
//! `AncillaryVerifier` configured with verification key A. Built once per worker process (the
//! builder initialises TLS); every run re-arms the decorator with its own plan.
use std::sync::{Arc, OnceLock};

use mithril_client::feedback::FeedbackSender;
use mithril_client::file_downloader::HttpFileDownloader;
use mithril_client::{AggregatorDiscoveryType, Client, ClientBuilder, GenesisVerificationKey};
use mithril_common::crypto_helper::{GenesisVerifier, ManifestSigner};

use crate::downloader::SerialisingDownloader;

pub struct Node {
    pub rt: tokio::runtime::Runtime,
    pub client: Client,
    pub dl: Arc<SerialisingDownloader>,
    /// `Arc::strong_count(&dl)` when no client task exists
    pub idle_count: usize,
}

/// The ancillary signing key the client is configured to trust.
pub fn signer_a() -> ManifestSigner {
    ManifestSigner::create_deterministic_signer()
}

/// Some other key (a mirror's own).
pub fn signer_b() -> ManifestSigner {
    use rand_chacha::rand_core::SeedableRng;
    ManifestSigner::create_test_signer(rand_chacha::ChaCha20Rng::from_seed([7u8; 32]))
}

fn logger() -> slog::Logger {
    slog::Logger::root(slog::Discard, slog::o!())
}

/// A fresh client over the process-wide downloader decorator (one per trace execution).
pub fn build_client(node: &Node) -> Client {
    let genesis_vk = GenesisVerifier::create_deterministic_verifier()
        .to_ed25519_verification_key()
        .to_json_hex()
        .expect("genesis vk");
    let anc_vk = signer_a().verification_key().to_json_hex().expect("ancillary vk");
    let _g = node.rt.enter();
    ClientBuilder::new(AggregatorDiscoveryType::Url("http://127.0.0.1:9/aggregator".into()))
        .set_genesis_verification_key(GenesisVerificationKey::JsonHex(genesis_vk))
        .with_http_file_downloader(node.dl.clone())
        .set_ancillary_verification_key(anc_vk)
        .with_logger(logger())
        .build()
        .unwrap_or_else(|e| crate::common::harness_error(&format!("ClientBuilder::build: {e:?}")))
}

pub fn node() -> &'static Node {
    static NODE: OnceLock<Node> = OnceLock::new();
    NODE.get_or_init(|| {
        let rt = tokio::runtime::Builder::new_current_thread()
            .enable_all()
            .max_blocking_threads(8)
            .build()
            .expect("tokio runtime");
        let real = HttpFileDownloader::new(FeedbackSender::new(&[]), logger())
            .unwrap_or_else(|e| crate::common::harness_error(&format!("HttpFileDownloader::new: {e:?}")));
        let dl = SerialisingDownloader::new(Arc::new(real));
        let genesis_vk = GenesisVerifier::create_deterministic_verifier()
            .to_ed25519_verification_key()
            .to_json_hex()
            .expect("genesis vk");
        let anc_vk = signer_a().verification_key().to_json_hex().expect("ancillary vk");
        let client = {
            let _g = rt.enter();
            // the aggregator endpoint is never contacted: every operation under test takes the
            // aggregator's messages as arguments and the harness supplies them from memory
            ClientBuilder::new(AggregatorDiscoveryType::Url("http://127.0.0.1:9/aggregator".into()))
                .set_genesis_verification_key(GenesisVerificationKey::JsonHex(genesis_vk))
                .with_http_file_downloader(dl.clone())
                .set_ancillary_verification_key(anc_vk)
                .with_logger(logger())
                .build()
                .unwrap_or_else(|e| crate::common::harness_error(&format!("ClientBuilder::build: {e:?}")))
        };
        let idle_count = Arc::strong_count(&dl);
        Node { rt, client, dl, idle_count }
    })
}
