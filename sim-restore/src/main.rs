//! E4 restore-sim: the real `mithril-client` Cardano database restore path (download, unpack,
//! clean-up, ancillary verification, digest verification) against seeded mirrors on `file://`.
//! Serves C19 and C10.
mod archive;
mod c10;
mod c19;
mod client;
mod common;
mod downloader;

use serde_json::Value;
use sim_core::batch::{self, Engine, Plan, RunCtx, RunReport, Tier};

struct RestoreEngine;

fn real_components() -> Vec<String> {
    vec![
        "mithril-client: ClientBuilder, CardanoDatabaseClient::{download_unpack, download_and_verify_digests, verify_cardano_database}, InternalArtifactDownloader (JoinSet, DownloadTask), InternalArtifactProver".into(),
        "mithril-client: HttpFileDownloader on file:// URIs (real streaming, real tar + zstd/gzip unpack)".into(),
        "mithril-client: UnexpectedDownloadedFileVerifier, AncillaryVerifier, create_bootstrap_node_files, MessageBuilder::compute_cardano_database_message".into(),
        "mithril-cardano-node-internal-database: AncillaryFilesManifest, CardanoImmutableDigester, ImmutableFile".into(),
        "mithril-common: ManifestSigner/ManifestVerifier (Ed25519), MKTree/MKProof, ProtocolMessage, CertificateMessage::match_message, message types".into(),
        "real filesystem in a scratch directory on /dev/shm".into(),
    ]
}

fn stub_components() -> Vec<String> {
    vec![
        "aggregator HTTP API: never contacted, the CardanoDatabaseSnapshot and Certificate messages are built in memory by the harness".into(),
        "remote HTTP transport: mirrors are directories served through file:// URIs; 'location unavailable' is injected at the FileDownloader seam".into(),
        "archive production: harness (tar/zstd/flate2 crates + the repo's AncillaryFilesManifest and ManifestSigner) instead of the aggregator's snapshotter".into(),
        "FileDownloader seam wrapped by a decorator that lets one download call run at a time in a seeded order".into(),
    ]
}

impl Engine for RestoreEngine {
    fn name(&self) -> &'static str {
        "restore-sim"
    }

    fn plan(&self, property: &str, tier: Tier) -> Option<Plan> {
        match property {
            "C19" => Some(Plan {
                // quick: one scenario per run; thorough: 10 scenarios per run (counter sim_scenarios)
                runs: match tier {
                    Tier::Quick => 40_000,
                    Tier::Thorough => 150_000,
                },
                level: "exploration",
                rule: "one run = one seeded scenario: database shape (beacon 1-5, legacy or UTxO-HD ledger layout, network), 1-3 mirrors with their own compression, 1-2 download steps (range full/from/up-to/inner, with/without ancillary, allow_override, max_parallel_downloads 1-4, seeded order of download calls) and a trace of 0-6 concrete faults (location unavailable, extra archive entries of 20+ shapes, dropped entries, wrong compression, truncation, bit flip, empty file, 9 manifest alterations, pre-existing user files); ~20% of runs are fault-free. A run is non-trivial iff at least one download call reached the FileDownloader seam and, when the scenario has mirror faults, at least one faulty archive/location was actually requested by the client. In the thorough tier a run packs 10 scenarios (counter sim_scenarios; their individual fingerprints are in the distinct-states measure). distinct = distinct hash of (per step: range kind, ancillary flag, parallelism, result, sequence of (task kind, mirror, ok/err) calls) + fired fault kinds + classes of new paths.".into(),
                assumptions: vec![
                    "two real unpack threads never write concurrently: the decorator serialises download calls and explores their order; an abort landing in the middle of another task's unpack is out of scope (DESIGN section 9)".into(),
                    "empty directories are recorded as observations, only files and symlinks are judged".into(),
                    "the ancillary signing key holder is honest: validly signed manifests list only paths inside the archive".into(),
                ],
                real_components: real_components(),
                stub_components: stub_components(),
                worker_death_is_violation: false,
                time_cap_s: match tier {
                    Tier::Quick => 900,
                    Tier::Thorough => 14_400,
                },
            }),
            "C10" => c10::plan(tier, real_components(), stub_components()),
            _ => None,
        }
    }

    fn run(&self, ctx: &RunCtx) -> RunReport {
        match ctx.property.as_str() {
            "C19" => c19::run(ctx),
            "C10" => c10::run(ctx),
            other => common::harness_error(&format!("property {other} not served")),
        }
    }

    fn replay(&self, doc: &Value) -> RunReport {
        match doc["property"].as_str() {
            Some("C19") => c19::replay(doc),
            Some("C10") => c10::replay(doc),
            other => common::harness_error(&format!("replay document for unknown property {other:?}")),
        }
    }
}

static TMP_DIR: std::sync::OnceLock<std::path::PathBuf> = std::sync::OnceLock::new();

extern "C" fn remove_tmp_dir_at_exit() {
    if let Some(p) = TMP_DIR.get() {
        let _ = std::fs::remove_dir_all(p);
    }
}

/// Remove scratch directories of engine processes that no longer exist (killed workers, runs that
/// ended in a harness error): `<label>-<pid>[-<n>]` under the scratch root.
fn remove_stale_scratch() {
    let root = sim_core::scratch::scratch_root();
    let Ok(rd) = std::fs::read_dir(&root) else { return };
    for e in rd.flatten() {
        let name = e.file_name().to_string_lossy().to_string();
        let mut parts = name.split('-');
        let (Some(label), Some(pid)) = (parts.next(), parts.next()) else { continue };
        if !matches!(label, "tmp" | "c19" | "c10") {
            continue;
        }
        let Ok(pid) = pid.parse::<u32>() else { continue };
        if label == "tmp" && parts.next().is_some() {
            continue;
        }
        if !std::path::Path::new(&format!("/proc/{pid}")).exists() {
            let _ = std::fs::remove_dir_all(e.path());
        }
    }
}

fn main() {
    // The client puts the downloaded digest file under std::env::temp_dir(): keep that inside the
    // scratch area. Set before any thread exists; removed by an atexit handler because the batch
    // runner leaves through process::exit.
    let tmp = sim_core::scratch::scratch_root().join(format!("tmp-{}", std::process::id()));
    let _ = std::fs::create_dir_all(&tmp);
    // SAFETY: single-threaded at this point
    unsafe { std::env::set_var("TMPDIR", &tmp) };
    let _ = TMP_DIR.set(tmp);
    // SAFETY: registering a plain function with the C runtime
    unsafe { libc::atexit(remove_tmp_dir_at_exit) };
    if std::env::args().nth(1).as_deref() != Some("worker") {
        remove_stale_scratch();
    }
    std::panic::set_hook(Box::new(|info| {
        eprintln!("HARNESS-ERROR: panic in harness or repo code: {info}");
    }));
    batch::main(&RestoreEngine)
}
