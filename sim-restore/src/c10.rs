//! C10 — a restored Cardano database is accepted only if every file is the certified one
//! (scoped: directory and digest list reach the verifier through storage / transport faults).
//!
//! A certified database is produced for real (immutable trios on disk, digests and Merkle root by
//! the real `CardanoImmutableDigester`, digest list in the digests artifact format, root in a
//! protocol message + certificate message), restored by the real `download_unpack`, damaged at
//! rest, and judged by the real `download_and_verify_digests` -> `verify_cardano_database` ->
//! `compute_cardano_database_message` -> `match_message`. The oracle is an own model:
//! file name -> sha256 of the certified content.
use std::collections::BTreeMap;
use std::path::{Path, PathBuf};

use mithril_cardano_node_internal_database::digesters::{CardanoImmutableDigester, ImmutableDigester};
use mithril_client::MessageBuilder;
use mithril_client::cardano_database_client::{DownloadUnpackOptions, VerifiedDigests};
use mithril_common::entities::{
    AncillaryLocation, CardanoDbBeacon, DigestLocation, ImmutablesLocation, MultiFilesUri, ProtocolMessagePartKey,
    TemplateUri,
};
use mithril_common::messages::{
    AncillaryMessagePart, CardanoDatabaseDigestListItemMessage, CardanoDatabaseSnapshotMessage, CertificateMessage,
    DigestsMessagePart, ImmutablesMessagePart,
};
use mithril_common::test::double::Dummy;
use serde::{Deserialize, Serialize};
use serde_json::{Value, json};
use sim_core::batch::{Plan, RunReport, Tier, Violation};
use sim_core::scratch::Scratch;
use sim_core::{Fingerprint, Rng};

use crate::archive::{self, Comp, Entry};
use crate::client::{self, Node as ClientNode};
use crate::common::{self, RangeCfg};
use crate::downloader::StepPlan;

pub const PROPERTY: &str = "C10";

// ---------------------------------------------------------------------------------------------
// scenario description
// ---------------------------------------------------------------------------------------------

#[derive(Serialize, Deserialize, Clone, Debug, PartialEq, Eq)]
#[serde(rename_all = "snake_case")]
pub enum DigestServing {
    /// plain JSON, as the aggregator route serves it
    Aggregator,
    /// tar archive with the JSON file, as uploaded to cloud storage
    Cloud(Comp),
}

#[derive(Serialize, Deserialize, Clone, Debug)]
pub struct Config {
    pub content_seed: u64,
    /// number of certified immutable trios: files 00000..=(trios-1); beacon = trios-1
    pub trios: u64,
    /// the in-progress trio `beacon+1` is also present in the restored directory
    pub with_next: bool,
    pub comp: Comp,
    pub digest_serving: DigestServing,
    /// range restored by the initial (honest) download
    pub restore_range: RangeCfg,
}

impl Config {
    pub fn beacon(&self) -> u64 {
        self.trios - 1
    }
}

#[derive(Serialize, Deserialize, Clone, Debug, PartialEq, Eq)]
#[serde(rename_all = "snake_case")]
pub enum StrayContent {
    CopyOf(String),
    Random(usize),
}

#[derive(Serialize, Deserialize, Clone, Debug, PartialEq, Eq)]
#[serde(tag = "ev", rename_all = "snake_case")]
pub enum Event {
    // faults at rest on the restored directory (file names inside `immutable/`)
    BitFlip { file: String, permille: u32, bit: u8 },
    Truncate { file: String, permille: u32 },
    ZeroFill { file: String },
    Delete { file: String },
    Swap { a: String, b: String },
    CopyOver { src: String, dst: String },
    Stray { name: String, content: StrayContent },
    Rename { from: String, to: String },
    /// the file is gone, a directory of the same name stands in its place
    ReplaceByDir { file: String },
    /// the file is gone, a symbolic link to a sibling file stands in its place
    ReplaceBySymlink { file: String, target: String },
    // faults on the served digest list (indices modulo the current length)
    ListRename { index: usize, to: String },
    ListSwapDigests { a: usize, b: usize },
    ListDrop { index: usize },
    ListAdd { name: String, digest_of: Option<usize> },
    ListReverse,
    ListRotate { by: usize },
    ListDuplicate { index: usize },
    ListOtherBeacon { beacon: u64 },
    ListTruncateBytes { permille: u32 },
    /// root-preserving shift: an entry whose name is a path alias of a certified file
    /// (`./00000.chunk`, `x/00004.secondary` ...) is added at the front (or back) of the name
    /// order, every certified name gets the digest of its successor (predecessor) and the last
    /// (first) certified name is dropped: the sequence of digests in name order, hence the
    /// Merkle root, is unchanged, the name -> digest assignment is shifted by one
    ListShift { front: bool, alias_prefix: String },
    /// a hostile mirror that serves what the hostile list promises: every file whose name the
    /// list carries gets the certified content that hashes to the digest the list gives it
    DirFollowList,
    // operations
    Verify { range: RangeCfg, allow_missing: bool },
    Redownload { range: RangeCfg },
}

impl Event {
    pub fn kind(&self) -> &'static str {
        match self {
            Event::BitFlip { .. } => "bit_flip",
            Event::Truncate { .. } => "truncate",
            Event::ZeroFill { .. } => "zero_fill",
            Event::Delete { .. } => "delete",
            Event::Swap { .. } => "swap_contents",
            Event::CopyOver { .. } => "copy_over",
            Event::Stray { .. } => "stray_file",
            Event::Rename { .. } => "rename",
            Event::ReplaceByDir { .. } => "file_replaced_by_directory",
            Event::ReplaceBySymlink { .. } => "file_replaced_by_symlink",
            Event::ListRename { .. } => "list_entry_renamed",
            Event::ListSwapDigests { .. } => "list_digests_swapped",
            Event::ListDrop { .. } => "list_entry_dropped",
            Event::ListAdd { .. } => "list_entry_added",
            Event::ListReverse | Event::ListRotate { .. } => "list_reordered",
            Event::ListDuplicate { .. } => "list_entry_duplicated",
            Event::ListOtherBeacon { .. } => "list_from_other_beacon",
            Event::ListTruncateBytes { .. } => "list_bytes_truncated",
            Event::ListShift { .. } => "list_shifted_behind_path_alias",
            Event::DirFollowList => "directory_follows_served_list",
            Event::Verify { .. } => "verify",
            Event::Redownload { .. } => "redownload",
        }
    }
    fn is_fault(&self) -> bool {
        !matches!(self, Event::Verify { .. } | Event::Redownload { .. })
    }
}

// ---------------------------------------------------------------------------------------------
// world: source database, certificate, mirror, restored directory
// ---------------------------------------------------------------------------------------------

type Dir = BTreeMap<String, Vec<u8>>; // immutable/<name> -> bytes
/// content that stands for "this name is a directory, not a file" in the model of the restored
/// directory
const DIR_SENTINEL: &[u8] = b"\0<<this name is a directory>>\0";
/// content that stands for "this name is a symbolic link to <name>" (a sibling in `immutable/`)
const LINK_SENTINEL: &[u8] = b"\0<<symlink>>\0";

fn link_target(bytes: &[u8]) -> Option<String> {
    let t = std::str::from_utf8(bytes.strip_prefix(LINK_SENTINEL)?).ok()?;
    // (a damaged sentinel is just file content)
    if t.is_empty() || t.contains('/') || t.contains('\0') { None } else { Some(t.to_string()) }
}
type DigestList = Vec<(String, String)>;

pub struct World<'a> {
    node: &'a ClientNode,
    /// this execution's own client: nothing a client keeps between calls leaks from one trace
    /// execution into the next (a fresh process replaying the trace sees the same)
    client: mithril_client::Client,
    cfg: Config,
    scratch: Scratch,
    /// certified model: name -> sha256 hex of the honest content (own computation)
    model: BTreeMap<String, String>,
    honest: Dir, // honest contents incl. the in-progress trio
    other_lists: BTreeMap<u64, DigestList>,
    certificate: CertificateMessage,
    message: CardanoDatabaseSnapshotMessage,
    work: PathBuf,
    digests_dir: PathBuf,
    // mutable state
    pub dir: Dir,
    pub list: DigestList,
    pub list_truncate: Option<u32>,
    // caches
    digest_phase: BTreeMap<u64, Option<VerifiedDigests>>,
    verify_phase: BTreeMap<(u64, u64, String, bool), (Verdict, Vec<(String, String)>)>,
    pub stats: BTreeMap<String, u64>,
}

#[derive(Clone, Copy, Debug, PartialEq, Eq)]
pub enum Verdict {
    Accepted,
    RejectedDigestList,
    RejectedDirectory,
    RejectedMessage,
}

fn list_json(list: &DigestList) -> Vec<u8> {
    let items: Vec<CardanoDatabaseDigestListItemMessage> = list
        .iter()
        .map(|(n, d)| CardanoDatabaseDigestListItemMessage { immutable_file_name: n.clone(), digest: d.clone() })
        .collect();
    serde_json::to_vec(&items).expect("digest list json")
}

fn hash_list(list: &DigestList, trunc: Option<u32>) -> u64 {
    let mut f = Fingerprint::new();
    for (n, d) in list {
        f.add(n).add(d);
    }
    f.add_u64(trunc.map(|t| t as u64 + 1).unwrap_or(0));
    f.value()
}

fn hash_dir(dir: &Dir) -> u64 {
    let mut f = Fingerprint::new();
    for (n, b) in dir {
        f.add(n).add_u64(sim_core::fnv64(b)).add_u64(b.len() as u64);
    }
    f.value()
}

fn logger() -> slog::Logger {
    slog::Logger::root(slog::Discard, slog::o!())
}

impl<'a> World<'a> {
    pub fn new(node: &'a ClientNode, cfg: &Config) -> World<'a> {
        let scratch = Scratch::new("c10");
        let src = scratch.sub("source");
        let mirror = scratch.sub("mirror");
        let work = scratch.path().join("restored");
        let digests_dir = scratch.sub("digests");
        let beacon = cfg.beacon();
        // the honest node's database (incl. the in-progress trio beacon+1)
        let mut honest = Dir::new();
        for n in 0..=beacon + 1 {
            for name in common::trio_names(n) {
                let bytes = common::content(cfg.content_seed, &format!("immutable/{name}"));
                common::write_file(&src, &format!("immutable/{name}"), &bytes);
                honest.insert(name, bytes);
            }
        }
        let model: BTreeMap<String, String> = honest
            .iter()
            .filter(|(n, _)| common::parse_trio_name(n).is_some_and(|k| k <= beacon))
            .map(|(n, b)| (n.clone(), common::sha256_hex(b)))
            .collect();
        // certification by the real digester
        let digester = CardanoImmutableDigester::new(None, logger());
        let db_beacon = CardanoDbBeacon::new(7, beacon);
        let (root_hex, real_entries) = node.rt.block_on(async {
            let tree = digester
                .compute_merkle_tree(&src, &db_beacon)
                .await
                .unwrap_or_else(|e| common::harness_error(&format!("real digester failed on the honest database: {e:?}")));
            let root = tree.compute_root().expect("root").to_hex();
            let entries = digester
                .compute_digests_for_range(&src, &(0..=beacon))
                .await
                .unwrap_or_else(|e| common::harness_error(&format!("real digester failed: {e:?}")))
                .entries;
            (root, entries)
        });
        let honest_list: DigestList =
            real_entries.iter().map(|(f, d)| (f.filename.clone(), d.clone())).collect();
        let as_map: BTreeMap<String, String> = honest_list.iter().cloned().collect();
        if as_map != model {
            common::harness_error("the real digester and the harness model disagree on the honest database (not a C10 matter: see C12)");
        }
        // lists "from another beacon": the honest list of a shorter / longer database
        let mut other_lists = BTreeMap::new();
        let full_sorted: DigestList = {
            let mut v: Vec<(u64, String, String)> = honest
                .iter()
                .map(|(n, b)| (common::parse_trio_name(n).unwrap(), n.clone(), common::sha256_hex(b)))
                .collect();
            v.sort();
            v.into_iter().map(|(_, n, d)| (n, d)).collect()
        };
        for b in 0..=beacon + 1 {
            if b != beacon {
                other_lists.insert(
                    b,
                    full_sorted.iter().filter(|(n, _)| common::parse_trio_name(n).unwrap() <= b).cloned().collect(),
                );
            }
        }
        // certificate: protocol message carrying the root, signed message = its hash
        let mut certificate = CertificateMessage::dummy();
        certificate
            .protocol_message
            .set_message_part(ProtocolMessagePartKey::CardanoDatabaseMerkleRoot, root_hex.clone());
        certificate.signed_message = certificate.protocol_message.compute_hash();
        // honest mirror
        std::fs::create_dir_all(mirror.join("m0")).expect("mirror dir");
        for n in 0..=beacon {
            let entries: Vec<Entry> = common::trio_names(n)
                .iter()
                .map(|name| Entry::file(&format!("immutable/{name}"), honest[name].clone()))
                .collect();
            let bytes = archive::compress(&archive::build_tar(&entries), cfg.comp);
            std::fs::write(mirror.join(format!("m0/{n:05}.{}", cfg.comp.ext())), bytes).expect("archive");
        }
        let mut message = CardanoDatabaseSnapshotMessage::dummy();
        message.network = "preview".into();
        message.beacon = db_beacon;
        message.merkle_root = root_hex;
        message.certificate_hash = certificate.hash.clone();
        message.immutables = ImmutablesMessagePart {
            average_size_uncompressed: 1000,
            locations: vec![ImmutablesLocation::CloudStorage {
                uri: MultiFilesUri::Template(TemplateUri(format!(
                    "file://{}/m0/{{immutable_file_number}}.{}",
                    mirror.display(),
                    cfg.comp.ext()
                ))),
                compression_algorithm: Some(cfg.comp.to_repo()),
            }],
        };
        message.ancillary = AncillaryMessagePart {
            size_uncompressed: 0,
            locations: vec![AncillaryLocation::CloudStorage {
                uri: "file:///nonexistent/ancillary.tar.zst".into(),
                compression_algorithm: Some(Comp::Zstd.to_repo()),
            }],
        };
        let (uri, compression) = match &cfg.digest_serving {
            DigestServing::Aggregator => (format!("file://{}/m0/digests.json", digests_dir.display()), None),
            DigestServing::Cloud(c) => {
                (format!("file://{}/m0/digests.{}", digests_dir.display(), c.ext()), Some(c.to_repo()))
            }
        };
        std::fs::create_dir_all(digests_dir.join("m0")).expect("digests dir");
        message.digests = DigestsMessagePart {
            size_uncompressed: 1000,
            locations: vec![match compression {
                None => DigestLocation::Aggregator { uri },
                Some(c) => DigestLocation::CloudStorage { uri, compression_algorithm: Some(c) },
            }],
        };
        let mut w = World {
            node,
            client: client::build_client(node),
            cfg: cfg.clone(),
            scratch,
            model,
            list: honest_list,
            other_lists,
            honest,
            certificate,
            message,
            work,
            digests_dir,
            dir: Dir::new(),
            list_truncate: None,
            digest_phase: BTreeMap::new(),
            verify_phase: BTreeMap::new(),
            stats: BTreeMap::new(),
        };
        // the honest restore, by the real client
        std::fs::create_dir_all(&w.work).expect("work dir");
        w.real_download(&cfg.restore_range.clone(), false);
        if cfg.with_next {
            // what the ancillary archive legitimately adds next to the certified range
            if cfg.restore_range.bounds(beacon).is_some_and(|(_, hi)| hi == beacon) {
                for name in common::trio_names(beacon + 1) {
                    common::write_file(&w.work, &format!("immutable/{name}"), &w.honest[&name]);
                }
            }
        }
        w.dir = w.read_back();
        w
    }

    fn hit(&mut self, key: &str) {
        *self.stats.entry(key.to_string()).or_default() += 1;
    }

    fn read_back(&self) -> Dir {
        let mut d = Dir::new();
        if let Ok(rd) = std::fs::read_dir(self.work.join("immutable")) {
            for e in rd.flatten() {
                if std::fs::symlink_metadata(e.path()).is_ok_and(|m| m.file_type().is_symlink()) {
                    let target = std::fs::read_link(e.path()).map(|t| t.to_string_lossy().to_string()).unwrap_or_default();
                    let mut v = LINK_SENTINEL.to_vec();
                    v.extend_from_slice(target.as_bytes());
                    d.insert(e.file_name().to_string_lossy().to_string(), v);
                } else if e.path().is_file() {
                    d.insert(e.file_name().to_string_lossy().to_string(), std::fs::read(e.path()).unwrap_or_default());
                } else if e.path().is_dir() {
                    d.insert(e.file_name().to_string_lossy().to_string(), DIR_SENTINEL.to_vec());
                }
            }
        }
        d
    }

    fn materialise(&self) {
        let imm = self.work.join("immutable");
        let _ = std::fs::remove_dir_all(&imm);
        std::fs::create_dir_all(&imm).expect("immutable dir");
        for (n, b) in &self.dir {
            if b.as_slice() == DIR_SENTINEL {
                std::fs::create_dir_all(imm.join(n)).expect("directory in place of a file");
                std::fs::write(imm.join(n).join("inside"), b"x").expect("write inside");
            } else if let Some(target) = link_target(b) {
                std::os::unix::fs::symlink(&target, imm.join(n)).expect("symlink in place of a file");
            } else {
                std::fs::write(imm.join(n), b).unwrap_or_else(|e| panic!("write immutable {n}: {e}"));
            }
        }
    }

    /// real `download_unpack` of an honest mirror into the working directory
    fn real_download(&mut self, range: &RangeCfg, over_existing: bool) -> bool {
        if over_existing {
            self.materialise();
        }
        self.node.dl.begin(StepPlan::default());
        let db = self.client.cardano_database_v2();
        let options = DownloadUnpackOptions { allow_override: true, include_ancillary: false, max_parallel_downloads: 1 };
        let r = self
            .node
            .rt
            .block_on(db.download_unpack(&self.message, &range.to_client(), &self.work, options));
        self.node.dl.end();
        r.is_ok()
    }

    pub fn apply_fault(&mut self, ev: &Event) -> bool {
        let before = (hash_dir(&self.dir), hash_list(&self.list, self.list_truncate));
        let n = self.list.len();
        match ev {
            Event::BitFlip { file, permille, bit } => {
                if let Some(b) = self.dir.get_mut(file)
                    && !b.is_empty()
                {
                    let o = archive::offset_of(b.len(), *permille);
                    b[o] ^= 1 << (bit % 8);
                }
            }
            Event::Truncate { file, permille } => {
                if let Some(b) = self.dir.get_mut(file) {
                    let o = archive::offset_of(b.len(), *permille);
                    b.truncate(o);
                }
            }
            Event::ZeroFill { file } => {
                if let Some(b) = self.dir.get_mut(file) {
                    b.iter_mut().for_each(|x| *x = 0);
                }
            }
            Event::Delete { file } => {
                self.dir.remove(file);
            }
            Event::Swap { a, b } => {
                if a != b
                    && let (Some(x), Some(y)) = (self.dir.get(a).cloned(), self.dir.get(b).cloned())
                {
                    self.dir.insert(a.clone(), y);
                    self.dir.insert(b.clone(), x);
                }
            }
            Event::CopyOver { src, dst } => {
                if self.dir.contains_key(dst)
                    && let Some(x) = self.dir.get(src).cloned()
                {
                    self.dir.insert(dst.clone(), x);
                }
            }
            Event::Stray { name, content } => {
                let bytes = match content {
                    StrayContent::CopyOf(f) => self.honest.get(f).cloned().unwrap_or_default(),
                    StrayContent::Random(len) => Rng::for_run(self.cfg.content_seed, name, *len as u64).bytes(*len),
                };
                self.dir.entry(name.clone()).or_insert(bytes);
            }
            Event::Rename { from, to } => {
                if from != to
                    && let Some(x) = self.dir.remove(from)
                {
                    self.dir.insert(to.clone(), x);
                }
            }
            Event::ReplaceByDir { file } => {
                if self.dir.contains_key(file) {
                    self.dir.insert(file.clone(), DIR_SENTINEL.to_vec());
                }
            }
            Event::ReplaceBySymlink { file, target } => {
                if file != target && self.dir.contains_key(file) && self.dir.get(target).is_some_and(|b| b.as_slice() != DIR_SENTINEL && link_target(b).is_none()) {
                    let mut v = LINK_SENTINEL.to_vec();
                    v.extend_from_slice(target.as_bytes());
                    self.dir.insert(file.clone(), v);
                }
            }
            Event::ListRename { index, to } => {
                if n > 0 {
                    self.list[index % n].0 = to.clone();
                }
            }
            Event::ListSwapDigests { a, b } => {
                if n > 0 {
                    let (a, b) = (a % n, b % n);
                    let t = self.list[a].1.clone();
                    self.list[a].1 = self.list[b].1.clone();
                    self.list[b].1 = t;
                }
            }
            Event::ListDrop { index } => {
                if n > 0 {
                    self.list.remove(index % n);
                }
            }
            Event::ListAdd { name, digest_of } => {
                let d = match digest_of {
                    Some(i) if n > 0 => self.list[i % n].1.clone(),
                    _ => common::sha256_hex(name.as_bytes()),
                };
                self.list.push((name.clone(), d));
            }
            Event::ListReverse => self.list.reverse(),
            Event::ListRotate { by } => {
                if n > 0 {
                    self.list.rotate_left(by % n);
                }
            }
            Event::ListDuplicate { index } => {
                if n > 0 {
                    let e = self.list[index % n].clone();
                    self.list.push(e);
                }
            }
            Event::ListOtherBeacon { beacon } => {
                if let Some(l) = self.other_lists.get(beacon) {
                    self.list = l.clone();
                }
            }
            Event::ListTruncateBytes { permille } => self.list_truncate = Some(*permille),
            Event::ListShift { front, alias_prefix } => {
                let mut sorted = self.list.clone();
                sorted.sort();
                let k = sorted.len();
                if k >= 2 {
                    let digests: Vec<String> = sorted.iter().map(|e| e.1.clone()).collect();
                    let mut out: DigestList = Vec::with_capacity(k);
                    if *front {
                        out.push((format!("{alias_prefix}{}", sorted[0].0), digests[0].clone()));
                        for i in 0..k - 1 {
                            out.push((sorted[i].0.clone(), digests[i + 1].clone()));
                        }
                    } else {
                        for i in 1..k {
                            out.push((sorted[i].0.clone(), digests[i - 1].clone()));
                        }
                        out.push((format!("{alias_prefix}{}", sorted[k - 1].0), digests[k - 1].clone()));
                    }
                    self.list = out;
                }
            }
            Event::DirFollowList => {
                let by_digest: BTreeMap<String, Vec<u8>> =
                    self.honest.iter().map(|(_, bytes)| (common::sha256_hex(bytes), bytes.clone())).collect();
                for (name, digest) in self.list.clone() {
                    if self.model.contains_key(&name)
                        && let Some(bytes) = by_digest.get(&digest)
                    {
                        self.dir.insert(name, bytes.clone());
                    }
                }
            }
            Event::Verify { .. } | Event::Redownload { .. } => {}
        }
        (hash_dir(&self.dir), hash_list(&self.list, self.list_truncate)) != before
    }

    /// Phase 1, real `download_and_verify_digests` on the list as currently served.
    fn digest_phase(&mut self) -> u64 {
        let key = hash_list(&self.list, self.list_truncate);
        if self.digest_phase.contains_key(&key) {
            return key;
        }
        let mut bytes = list_json(&self.list);
        let file = match &self.cfg.digest_serving {
            DigestServing::Aggregator => self.digests_dir.join("m0/digests.json"),
            DigestServing::Cloud(c) => {
                bytes = archive::compress(&archive::build_tar(&[Entry::file("digests.json", bytes)]), *c);
                self.digests_dir.join(format!("m0/digests.{}", c.ext()))
            }
        };
        if let Some(p) = self.list_truncate {
            let o = archive::offset_of(bytes.len(), p);
            bytes.truncate(o);
        }
        std::fs::write(&file, bytes).expect("write digest artifact");
        self.node.dl.begin(StepPlan::default());
        let db = self.client.cardano_database_v2();
        let r = self
            .node
            .rt
            .block_on(db.download_and_verify_digests(&self.certificate, &self.message));
        self.node.dl.end();
        self.hit("sim_digest_list_verifications");
        self.digest_phase.insert(key, r.ok());
        key
    }

    /// The whole client-side verification on the current state.
    /// Returns the verdict and the oracle's objections `(clause, detail)`.
    pub fn verify(&mut self, range: &RangeCfg, allow_missing: bool) -> (Verdict, Vec<(String, String)>) {
        let lkey = self.digest_phase();
        let dkey = hash_dir(&self.dir);
        let ckey = (lkey, dkey, format!("{range:?}"), allow_missing);
        if let Some(r) = self.verify_phase.get(&ckey).cloned() {
            self.hit("sim_cases_answered_from_identical_state");
            return r;
        }
        let mut objections = Vec::new();
        let mut trusted_differs = false;
        let verdict = 'v: {
            let Some(vd) = self.digest_phase.get(&lkey).unwrap().as_ref() else {
                break 'v Verdict::RejectedDigestList;
            };
            // observation, digest phase: the Merkle root commits to the digests in file-name
            // order only, so a list whose names are altered without changing that order still
            // reproduces the root. The statement asks no more of the list than to reproduce the
            // root, so this is counted, not judged; the directory is judged against the model.
            if vd.digests != self.model {
                trusted_differs = true;
            }
            self.materialise();
            let db = self.client.cardano_database_v2();
            let proof = self.node.rt.block_on(db.verify_cardano_database(
                &self.certificate,
                &self.message,
                &range.to_client(),
                allow_missing,
                &self.work,
                vd,
            ));
            let Ok(proof) = proof else { break 'v Verdict::RejectedDirectory };
            let msg = self
                .node
                .rt
                .block_on(MessageBuilder::new().compute_cardano_database_message(&self.certificate, &proof));
            match msg {
                Ok(m) if self.certificate.match_message(&m) => Verdict::Accepted,
                _ => Verdict::RejectedMessage,
            }
        };
        *self.stats.entry("sim_directory_verifications".into()).or_default() += 1;
        if trusted_differs {
            self.hit("obs_accepted_digest_list_with_altered_names");
        }
        if verdict == Verdict::Accepted {
            objections.extend(self.directory_objections(&self.dir, range, allow_missing));
        }
        self.verify_phase.insert(ckey, (verdict, objections.clone()));
        (verdict, objections)
    }

    /// Own model of the statement: for every certified file name in the requested range the file
    /// is present (unless gaps are allowed) and sha256(content) == model[name]; no other file
    /// that passes for an immutable file of the range.
    fn directory_objections(&self, dir: &Dir, range: &RangeCfg, allow_missing: bool) -> Vec<(String, String)> {
        let mut out = Vec::new();
        let Some((lo, hi)) = range.bounds(self.cfg.beacon()) else { return out };
        let mut wrong = Vec::new();
        let mut missing = Vec::new();
        for n in lo..=hi {
            for name in common::trio_names(n) {
                match dir.get(&name) {
                    None => {
                        if !allow_missing {
                            missing.push(name)
                        }
                    }
                    // a directory of that name is not the file
                    Some(b) if b.as_slice() == DIR_SENTINEL => {
                        if !allow_missing {
                            missing.push(name)
                        }
                    }
                    // a symbolic link: what a reader of that name gets is the target's content
                    Some(b) if link_target(b).is_some() => {
                        match link_target(b).and_then(|t| dir.get(&t)).filter(|t| t.as_slice() != DIR_SENTINEL && link_target(t).is_none()) {
                            None => {
                                if !allow_missing {
                                    missing.push(name)
                                }
                            }
                            Some(t) => {
                                if common::sha256_hex(t) != self.model[&name] {
                                    wrong.push(name)
                                }
                            }
                        }
                    }
                    Some(b) => {
                        if common::sha256_hex(b) != self.model[&name] {
                            wrong.push(name)
                        }
                    }
                }
            }
        }
        let foreign: Vec<&String> = dir
            .iter()
            .filter(|(_, b)| b.as_slice() != DIR_SENTINEL && link_target(b).is_none())
            .map(|(name, _)| name)
            .filter(|name| !self.model.contains_key(*name) && immutable_like_number(name).is_some_and(|k| k >= lo && k <= hi))
            .collect();
        if !wrong.is_empty() {
            out.push((
                "accepted-wrong-content".into(),
                format!("verification succeeded although {} file(s) in range do not hash to the digest certified for their name: {:?}", wrong.len(), &wrong[..wrong.len().min(4)]),
            ));
        }
        if !missing.is_empty() {
            out.push((
                "accepted-missing-file".into(),
                format!("verification succeeded with allow_missing=false although {:?} are absent", &missing[..missing.len().min(4)]),
            ));
        }
        if !foreign.is_empty() {
            out.push((
                "accepted-foreign-file".into(),
                format!("verification succeeded although the range contains immutable-looking file(s) that no certified name covers: {:?}", &foreign[..foreign.len().min(4)]),
            ));
        }
        out
    }

    /// The same verdict the model would give (used for observations and the fault-free clause).
    fn model_accepts(&self, range: &RangeCfg, allow_missing: bool) -> bool {
        let list_ok = {
            let m: BTreeMap<String, String> = self
                .list
                .iter()
                .filter(|(n, _)| immutable_like_number(n).is_some_and(|k| k <= self.cfg.beacon()))
                .cloned()
                .collect();
            self.list_truncate.is_none() && m == self.model
        };
        list_ok && range.bounds(self.cfg.beacon()).is_some() && self.directory_objections(&self.dir, range, allow_missing).is_empty()
    }

    pub fn scratch_path(&self) -> &Path {
        self.scratch.path()
    }
}

/// A known, unrepaired defect: its id in known-findings.json and how to neutralise its trigger
/// in the directory under verification.
pub struct KnownTrigger {
    pub id: &'static str,
    pub neutralise: fn(&World, &RangeCfg) -> BTreeMap<String, Vec<u8>>,
}

/// Empty: the defect this engine found (content accepted under the wrong name, `C10-content-swap`)
/// was repaired in /repo (status `fixed`, which suppresses nothing). The machinery stays.
pub const KNOWN_TRIGGERS: &[KnownTrigger] = &[];

/// A file name that passes for an immutable file: digits (an optional sign is what integer
/// parsers accept), one dot, one of the three extensions. Returns its number.
fn immutable_like_number(name: &str) -> Option<u64> {
    let (stem, ext) = name.rsplit_once('.')?;
    if !matches!(ext, "chunk" | "primary" | "secondary") {
        return None;
    }
    let digits = stem.strip_prefix('+').unwrap_or(stem);
    if digits.is_empty() || !digits.bytes().all(|b| b.is_ascii_digit()) {
        return None;
    }
    digits.parse().ok()
}

// ---------------------------------------------------------------------------------------------
// running a trace
// ---------------------------------------------------------------------------------------------

#[derive(Clone, Debug)]
pub struct CaseViolation {
    pub clause: String,
    pub detail: String,
    pub finding: Option<&'static str>,
}

#[derive(Default)]
pub struct TraceOutcome {
    pub violations: Vec<CaseViolation>,
    pub verdicts: Vec<Verdict>,
    pub effective_faults: Vec<&'static str>,
}

/// Execute the events on the world's *current* state. `fault_free_so_far` says whether the state
/// is still the honest restore.
pub fn run_trace(w: &mut World, trace: &[Event]) -> TraceOutcome {
    let mut out = TraceOutcome::default();
    let mut dirty = false;
    for ev in trace {
        match ev {
            Event::Verify { range, allow_missing } => {
                let (verdict, objections) = w.verify(range, *allow_missing);
                out.verdicts.push(verdict);
                w.hit(match verdict {
                    Verdict::Accepted => "probe_verdict_accepted",
                    Verdict::RejectedDigestList => "probe_verdict_rejected_at_digest_list",
                    Verdict::RejectedDirectory => "probe_verdict_rejected_at_directory",
                    Verdict::RejectedMessage => "probe_verdict_rejected_at_message",
                });
                let model_ok = w.model_accepts(range, *allow_missing);
                if verdict != Verdict::Accepted && model_ok {
                    // the strict "fault-free => must succeed" form is for verifying what was
                    // restored; verifying a range that was never restored (with gaps allowed)
                    // is not an honest restore of that range
                    let covered = match (range.bounds(w.cfg.beacon()), w.cfg.restore_range.bounds(w.cfg.beacon())) {
                        (Some((a, b)), Some((c, d))) => a >= c && b <= d,
                        _ => false,
                    };
                    if dirty || !covered {
                        w.hit("obs_model_accepts_client_rejects");
                    } else {
                        out.violations.push(CaseViolation {
                            clause: "honest-rejected".into(),
                            detail: format!("fault-free restore of range {range:?} was rejected ({verdict:?})"),
                            finding: None,
                        });
                    }
                }
                for (clause, detail) in objections {
                    // counterfactual attribution: the violation belongs to a known finding only
                    // if it is gone once that finding's trigger is neutralised in the directory
                    let mut finding = None;
                    for t in KNOWN_TRIGGERS {
                        let neutral = (t.neutralise)(w, range);
                        if neutral != w.dir {
                            let saved = std::mem::replace(&mut w.dir, neutral);
                            let (v2, o2) = w.verify(range, *allow_missing);
                            w.dir = saved;
                            if !(v2 == Verdict::Accepted && o2.iter().any(|(c, _)| *c == clause)) {
                                finding = Some(t.id);
                                break;
                            }
                        }
                    }
                    out.violations.push(CaseViolation { clause, detail, finding });
                }
            }
            Event::Redownload { range } => {
                w.real_download(range, true);
                w.dir = w.read_back();
                w.hit("probe_redownload_over_damaged_directory");
            }
            fault => {
                if w.apply_fault(fault) {
                    dirty = true;
                    out.effective_faults.push(fault.kind());
                }
            }
        }
    }
    out
}

// ---------------------------------------------------------------------------------------------
// enumeration (d <= 3): all single faults, all pairs
// ---------------------------------------------------------------------------------------------

fn unpadded(name: &str) -> String {
    let (stem, ext) = name.split_once('.').unwrap();
    format!("{}.{ext}", stem.parse::<u64>().unwrap())
}

/// Canonical single faults for a database of `trios` certified trios (+ the in-progress one).
pub fn single_faults(trios: u64) -> Vec<Event> {
    let beacon = trios - 1;
    let cert: Vec<String> = (0..=beacon).flat_map(common::trio_names).collect();
    let next: Vec<String> = common::trio_names(beacon + 1).to_vec();
    let mut v = Vec::new();
    for f in &cert {
        v.push(Event::BitFlip { file: f.clone(), permille: 0, bit: 0 });
        v.push(Event::Truncate { file: f.clone(), permille: 500 });
        v.push(Event::ZeroFill { file: f.clone() });
        v.push(Event::Delete { file: f.clone() });
        v.push(Event::ReplaceByDir { file: f.clone() });
        if let Some(other) = cert.iter().find(|o| *o != f) {
            v.push(Event::ReplaceBySymlink { file: f.clone(), target: other.clone() });
        }
    }
    for (i, a) in cert.iter().enumerate() {
        for b in &cert[i + 1..] {
            v.push(Event::Swap { a: a.clone(), b: b.clone() });
        }
    }
    for src in cert.iter().chain(next.iter()) {
        for dst in &cert {
            if src != dst {
                v.push(Event::CopyOver { src: src.clone(), dst: dst.clone() });
            }
        }
    }
    for from in &cert {
        for to in &cert {
            if from != to {
                v.push(Event::Rename { from: from.clone(), to: to.clone() });
            }
        }
        v.push(Event::Rename { from: from.clone(), to: unpadded(from) });
        v.push(Event::Rename { from: from.clone(), to: format!("00099.{}", from.split_once('.').unwrap().1) });
    }
    for name in ["0.chunk", "+00000.primary", "00099.chunk", "notes.txt"] {
        v.push(Event::Stray { name: name.into(), content: StrayContent::CopyOf(cert[cert.len() - 1].clone()) });
        v.push(Event::Stray { name: name.into(), content: StrayContent::Random(24) });
    }
    let n = cert.len();
    for i in 0..n {
        v.push(Event::ListRename { index: i, to: unpadded(&cert[i]) });
        v.push(Event::ListRename { index: i, to: format!("00099.{}", cert[i].split_once('.').unwrap().1) });
        v.push(Event::ListDrop { index: i });
        v.push(Event::ListDuplicate { index: i });
        for j in i + 1..n {
            v.push(Event::ListSwapDigests { a: i, b: j });
        }
    }
    v.push(Event::ListAdd { name: "00099.chunk".into(), digest_of: None });
    v.push(Event::ListAdd { name: "0.chunk".into(), digest_of: Some(0) });
    v.push(Event::ListReverse);
    v.push(Event::ListRotate { by: 1 });
    if beacon >= 1 {
        v.push(Event::ListOtherBeacon { beacon: beacon - 1 });
    }
    v.push(Event::ListOtherBeacon { beacon: beacon + 1 });
    v.push(Event::ListTruncateBytes { permille: 500 });
    v
}

#[derive(Clone, Debug)]
struct EnumCfg {
    trios: u64,
    range: RangeCfg,
    allow_missing: bool,
    /// also enumerate every ordered pair (i, j), i != j, of single faults
    pairs: bool,
}

fn enum_configs(tier: Tier) -> Vec<EnumCfg> {
    let mut v = Vec::new();
    for trios in 1..=3u64 {
        let b = trios - 1;
        let mut ranges = vec![RangeCfg::Full];
        if b >= 1 {
            ranges.push(RangeCfg::From(1));
            ranges.push(RangeCfg::UpTo(b - 1));
        }
        if b >= 2 {
            ranges.push(RangeCfg::Range(1, 1));
        }
        for range in ranges {
            for allow_missing in [false, true] {
                // quick: pairs for every configuration of 1-2 trios, and for 3 trios on the full
                // and the inner range; thorough: pairs everywhere
                let pairs = match tier {
                    Tier::Thorough => true,
                    Tier::Quick => trios < 3 || matches!(range, RangeCfg::Full | RangeCfg::Range(..)),
                };
                v.push(EnumCfg { trios, range: range.clone(), allow_missing, pairs });
            }
        }
    }
    v
}

const CHUNK: u64 = 1500;

fn enum_case_count(c: &EnumCfg) -> u64 {
    let s = single_faults(c.trios).len() as u64;
    1 + s + if c.pairs { s * (s - 1) } else { 0 }
}

/// (config index, first case, end case) for enumeration run `run`, or None when past the end.
fn enum_slice(tier: Tier, run: u64) -> Option<(EnumCfg, u64, u64)> {
    let mut r = run;
    for c in enum_configs(tier) {
        let total = enum_case_count(&c);
        let chunks = total.div_ceil(CHUNK);
        if r < chunks {
            return Some((c, r * CHUNK, ((r + 1) * CHUNK).min(total)));
        }
        r -= chunks;
    }
    None
}

pub fn enum_runs(tier: Tier) -> u64 {
    enum_configs(tier).iter().map(|c| enum_case_count(c).div_ceil(CHUNK)).sum()
}

fn enum_case(singles: &[Event], idx: u64) -> Vec<Event> {
    // 0 = fault-free, 1..=s singles, then ordered pairs
    let s = singles.len() as u64;
    if idx == 0 {
        vec![]
    } else if idx <= s {
        vec![singles[(idx - 1) as usize].clone()]
    } else {
        let p = idx - 1 - s;
        let i = p / (s - 1);
        let mut j = p % (s - 1);
        if j >= i {
            j += 1;
        }
        vec![singles[i as usize].clone(), singles[j as usize].clone()]
    }
}

// ---------------------------------------------------------------------------------------------
// sampled runs (d up to 12, longer histories)
// ---------------------------------------------------------------------------------------------

fn gen_fault(rng: &mut Rng, cfg: &Config) -> Event {
    let beacon = cfg.beacon();
    let cert: Vec<String> = (0..=beacon).flat_map(common::trio_names).collect();
    let all: Vec<String> = (0..=beacon + 1).flat_map(common::trio_names).collect();
    let n = cert.len();
    let f = |rng: &mut Rng| rng.pick(&cert).clone();
    match rng.weighted(&[3, 3, 2, 3, 6, 5, 3, 4, 2, 2, 2, 2, 1, 1, 1, 1, 2, 1, 2, 2]) {
        0 => Event::BitFlip { file: f(rng), permille: rng.below(1000) as u32, bit: rng.below(8) as u8 },
        1 => Event::Truncate { file: f(rng), permille: rng.below(1000) as u32 },
        2 => Event::ZeroFill { file: f(rng) },
        3 => Event::Delete { file: f(rng) },
        4 => Event::Swap { a: f(rng), b: f(rng) },
        5 => Event::CopyOver { src: rng.pick(&all).clone(), dst: f(rng) },
        6 => {
            let base = f(rng);
            let name = match rng.below(5) {
                0 => unpadded(&base),
                1 => format!("+{base}"),
                2 => format!("{:05}.chunk", beacon + 2 + rng.below(50)),
                3 => format!("0{base}"),
                _ => "README.txt".to_string(),
            };
            let content = if rng.chance(0.6) { StrayContent::CopyOf(f(rng)) } else { StrayContent::Random(rng.range(0, 64) as usize) };
            Event::Stray { name, content }
        }
        7 => {
            let from = f(rng);
            let to = match rng.below(4) {
                0 => unpadded(&from),
                1 => format!("{:05}.{}", beacon + 5, from.split_once('.').unwrap().1),
                _ => f(rng),
            };
            Event::Rename { from, to }
        }
        8 => {
            let i = rng.index(n);
            let to = match rng.below(5) {
                0 => unpadded(&cert[i]),
                1 => rng.pick(&all).clone(),
                2 => format!("./{}", cert[i]),
                3 => format!("{}/{}", rng.pick(&["x", "immutable", "..", "/abs"]), cert[i]),
                _ => format!("{:05}.chunk", beacon + 7),
            };
            Event::ListRename { index: i, to }
        }
        9 => Event::ListSwapDigests { a: rng.index(n), b: rng.index(n) },
        10 => Event::ListDrop { index: rng.index(n) },
        11 => {
            if rng.chance(0.5) {
                Event::ListAdd { name: format!("{:05}.chunk", beacon + 1 + rng.below(9)), digest_of: None }
            } else {
                Event::ListAdd { name: unpadded(&f(rng)), digest_of: Some(rng.index(n)) }
            }
        }
        12 => {
            if rng.chance(0.5) { Event::ListReverse } else { Event::ListRotate { by: rng.index(n) } }
        }
        13 => Event::ListDuplicate { index: rng.index(n) },
        14 => Event::ListOtherBeacon { beacon: rng.range(0, beacon + 1) },
        15 => Event::ListTruncateBytes { permille: rng.below(1000) as u32 },
        16 => {
            let front = rng.chance(0.5);
            let alias_prefix = if front { *rng.pick(&["./", "/", ".//", "-/", "+", " "]) } else { *rng.pick(&["x/", "immutable/", "~/", "a/../", "z"]) };
            Event::ListShift { front, alias_prefix: alias_prefix.to_string() }
        }
        17 => Event::DirFollowList,
        18 => Event::ReplaceByDir { file: f(rng) },
        _ => Event::ReplaceBySymlink { file: f(rng), target: rng.pick(&all).clone() },
    }
}

fn generate_sampled(rng: &mut Rng) -> (Config, Vec<Event>) {
    let trios = match rng.below(4) {
        0 => rng.range(1, 3),
        _ => rng.range(4, 12),
    };
    let beacon = trios - 1;
    let restore_range = if rng.chance(0.5) { RangeCfg::Full } else { RangeCfg::generate(rng, beacon) };
    let cfg = Config {
        content_seed: rng.next_u64(),
        trios,
        with_next: rng.chance(0.5),
        comp: if rng.chance(0.5) { Comp::Zstd } else { Comp::Gzip },
        digest_serving: match rng.below(3) {
            0 => DigestServing::Aggregator,
            1 => DigestServing::Cloud(Comp::Zstd),
            _ => DigestServing::Cloud(Comp::Gzip),
        },
        restore_range: restore_range.clone(),
    };
    let mut trace = Vec::new();
    let fault_free = rng.chance(0.15);
    let rounds = 1 + rng.weighted(&[5, 3, 1]);
    // the same client often verifies the genuine restore first (whatever it keeps from that
    // call is there when it verifies the tampered directory)
    if rng.chance(0.4) {
        trace.push(Event::Verify { range: restore_range.clone(), allow_missing: false });
    }
    // sometimes the mirror and the served list lie together: a root-preserving shift of the
    // list, a directory that holds what the shifted list promises, and a verification of a
    // range that avoids the dropped name
    let coherent_attack = !fault_free && trios >= 3 && rng.chance(0.12);
    if coherent_attack {
        let front = rng.chance(0.5);
        let alias_prefix = if front { *rng.pick(&["./", "/", ".//", "-/"]) } else { *rng.pick(&["x/", "immutable/", "~/"]) };
        trace.push(Event::ListShift { front, alias_prefix: alias_prefix.to_string() });
        trace.push(Event::DirFollowList);
        let range = if front { RangeCfg::UpTo(rng.range(0, beacon - 1)) } else { RangeCfg::From(rng.range(1, beacon)) };
        trace.push(Event::Verify { range, allow_missing: rng.chance(0.5) });
    }
    for round in 0..rounds {
        if !fault_free {
            for _ in 0..rng.weighted(&[1, 5, 4, 2, 1]) {
                trace.push(gen_fault(rng, &cfg));
            }
        }
        if round > 0 && rng.chance(0.3) {
            trace.push(Event::Redownload { range: restore_range.clone() });
        }
        // mostly verify what was restored; sometimes another range
        let range = if rng.chance(0.75) { restore_range.clone() } else { RangeCfg::generate(rng, beacon) };
        let covered = match (range.bounds(beacon), restore_range.bounds(beacon)) {
            (Some((a, b)), Some((c, d))) => a >= c && b <= d,
            _ => false,
        };
        let allow_missing = if covered { rng.chance(0.35) } else { rng.chance(0.8) };
        trace.push(Event::Verify { range, allow_missing });
    }
    (cfg, trace)
}

// ---------------------------------------------------------------------------------------------
// engine entry points
// ---------------------------------------------------------------------------------------------

pub fn plan(tier: Tier, real: Vec<String>, stub: Vec<String>) -> Option<Plan> {
    let e = enum_runs(tier);
    let cases: u64 = enum_configs(tier).iter().map(enum_case_count).sum();
    // sampled runs: one scenario each in the quick tier, 10 each in the thorough tier
    let sampled = match tier {
        Tier::Quick => 6_000,
        Tier::Thorough => 120_000,
    };
    Some(Plan {
        runs: e + sampled,
        level: "fault_enumeration",
        rule: format!(
            "runs 0..{e} enumerate, in chunks of {CHUNK} cases, for databases of 1, 2 and 3 certified trios (+ the in-progress trio), every verified range shape (full / from / up-to / inner) and allow_missing in {{false,true}}: the fault-free case, every single fault of the canonical alphabet (per file: bit flip, truncate, zero-fill, delete; every unordered content swap; every copy f->g incl. from the in-progress trio; every rename f->g onto another certified name, onto the unpadded alias and out of range; 8 stray files; per digest-list entry: rename to alias / out of range, drop, duplicate; every pair of entries with swapped digests; added entries, reversed, rotated, list of beacon-1 and beacon+1, truncated artifact) and every ORDERED pair of two different single faults ({}); {cases} cases in total, each = apply faults to the honestly restored directory / served list, run the real verification, judge with the model. runs {e}.. are sampled (one scenario per run in the quick tier, 10 per run in the thorough tier, counter probe_sampled_scenarios): 1-12 trios, seeded restore range, 1-3 rounds of (0-4 faults with random arguments, optional real re-download over the damaged directory, verify with seeded range / allow_missing); ~15% fault-free. 'evaluations' counts runs; counter sim_cases counts verifications judged. A run is non-trivial iff at least one verification was judged and, unless the run is fault-free by construction, at least one fault changed the directory or the served list before it. distinct = distinct hash of (database shape, sequence of effective fault kinds and verdicts).",
            match tier {
                Tier::Thorough => "all configurations",
                Tier::Quick => "quick tier: all configurations of 1-2 trios, and for 3 trios the full and the inner range; the other 3-trio configurations get the singles only",
            }
        ),
        assumptions: vec![
            "the certificate itself is taken as valid (chain verification is C03's subject): the judge is match_message on the certified protocol message".into(),
            "soundness direction only, as the statement says 'succeeds only if'; a rejection of a state the model accepts is counted (obs_model_accepts_client_rejects) and is a violation only for a fault-free restore".into(),
            "a file passes for an immutable file of the range when its name is <integer>.<chunk|primary|secondary> with the integer in range".into(),
        ],
        real_components: real,
        stub_components: stub,
        worker_death_is_violation: false,
        time_cap_s: match tier {
            Tier::Quick => 900,
            Tier::Thorough => 14_400,
        },
    })
}

fn group(violations: &[(Config, Vec<Event>, CaseViolation)]) -> Vec<Violation> {
    let mut groups: BTreeMap<(String, Option<&'static str>), Vec<&(Config, Vec<Event>, CaseViolation)>> = BTreeMap::new();
    for v in violations {
        groups.entry((v.2.clause.clone(), v.2.finding)).or_default().push(v);
    }
    let mut ordered: Vec<_> = groups.into_iter().collect();
    // the canonical clause first: the runner keeps the first example it sees per finding
    ordered.sort_by_key(|((clause, _), _)| (clause != "accepted-wrong-content", clause.clone()));
    ordered
        .into_iter()
        .map(|((clause, finding), vs)| Violation {
            property: PROPERTY.into(),
            clause,
            detail: format!(
                "{} case(s); e.g. after {}: {}",
                vs.len(),
                serde_json::to_string(&vs[0].1.iter().filter(|e| e.is_fault()).collect::<Vec<_>>()).unwrap_or_default(),
                vs[0].2.detail
            ),
            finding: finding.map(str::to_string),
        })
        .collect()
}

pub fn replay_doc(cfg: &Config, trace: &[Event]) -> Value {
    json!({"property": PROPERTY, "config": cfg, "trace": trace})
}

/// Smallest sub-trace (faults only; the final verify is kept) that still yields `clause`.
fn minimise(node: &ClientNode, cfg: &Config, trace: &[Event], clause: &str) -> Vec<Event> {
    let Some(last_verify) = trace.iter().rposition(|e| matches!(e, Event::Verify { .. })) else {
        return trace.to_vec();
    };
    let head: Vec<Event> = trace[..last_verify].to_vec();
    let tail = trace[last_verify].clone();
    let fails = |cand: &[Event]| {
        let mut w = World::new(node, cfg);
        let mut t = cand.to_vec();
        t.push(tail.clone());
        run_trace(&mut w, &t).violations.iter().any(|v| v.clause == clause)
    };
    if !fails(&head) {
        return trace.to_vec(); // needs the earlier verifies' side effects? keep as is
    }
    let mut min = if head.len() <= 1 { head } else { sim_core::ddmin::ddmin(head, &fails, 40) };
    if min.len() == 1 && !fails(&min) {
        // ddmin never returns empty
    } else if min.len() == 1 && fails(&[]) {
        min.clear();
    }
    min.push(tail);
    min
}

/// sampled scenarios per run: 1 in the quick tier, 10 in the thorough tier (see `c19::batch_of`)
fn sampled_batch(tier: Tier) -> u64 {
    match tier {
        Tier::Quick => 1,
        Tier::Thorough => 10,
    }
}

pub fn run(ctx: &sim_core::RunCtx) -> RunReport {
    let node = client::node();
    let mut report = RunReport::new(ctx.run);
    let tier = ctx.tier;
    let mut digest = Fingerprint::new();
    let mut fp = Fingerprint::new();
    let mut all: Vec<(Config, Vec<Event>, CaseViolation)> = Vec::new();
    let mut nontrivial = false;
    let mut judged = 0u64;
    let mut sample_cases: Vec<Value> = Vec::new();

    if let Some((ec, first, end)) = enum_slice(tier, ctx.run) {
        // enumeration chunk: the database is a function of the seed and the shape only
        let cfg = Config {
            content_seed: Rng::for_run(ctx.seed, "C10-enum-db", ec.trios).next_u64(),
            trios: ec.trios,
            with_next: true,
            comp: Comp::Zstd,
            digest_serving: DigestServing::Aggregator,
            restore_range: RangeCfg::Full,
        };
        let singles = single_faults(ec.trios);
        let mut w = World::new(node, &cfg);
        let (dir0, list0) = (w.dir.clone(), w.list.clone());
        fp.add("enum").add_u64(ec.trios).add(ec.range.kind()).add_u64(ec.allow_missing as u64).add_u64(first);
        digest.add(&format!("{ec:?} {first}..{end}"));
        let mut effective_any = false;
        for idx in first..end {
            let mut trace = enum_case(&singles, idx);
            trace.push(Event::Verify { range: ec.range.clone(), allow_missing: ec.allow_missing });
            w.dir = dir0.clone();
            w.list = list0.clone();
            w.list_truncate = None;
            let out = run_trace(&mut w, &trace);
            judged += out.verdicts.len() as u64;
            effective_any |= !out.effective_faults.is_empty();
            for k in &out.effective_faults {
                report.hit(&format!("fault_{k}"));
            }
            digest.add_u64(idx).add(&format!("{:?}", out.verdicts));
            fp.add(&format!("{:?}", out.verdicts));
            for v in &out.violations {
                digest.add(&v.clause).add(v.finding.unwrap_or("-"));
            }
            if ctx.want_sample && sample_cases.len() < 3 && idx > first {
                sample_cases.push(json!({"trace": trace, "verdicts": out.verdicts.iter().map(|v| format!("{v:?}")).collect::<Vec<_>>(),
                    "objections": out.violations.iter().map(|v| format!("[{}] {}", v.clause, v.detail)).collect::<Vec<_>>()}));
            }
            for v in out.violations {
                all.push((cfg.clone(), trace.clone(), v));
            }
        }
        nontrivial = judged > 0 && effective_any;
        report.states.push(fp.value());
        report.hit("probe_enumeration_chunks");
        report.count("sim_enumerated_cases", end - first);
        for (k, v) in &w.stats {
            report.count(k, *v);
        }
    } else {
        let batch = sampled_batch(tier);
        let base = ctx.run - enum_runs(tier);
        for k in 0..batch {
            let mut rng = Rng::for_run(ctx.seed, PROPERTY, base * batch + k);
            let (cfg, trace) = generate_sampled(&mut rng);
            let fault_free_by_construction = !trace.iter().any(Event::is_fault);
            let mut w = World::new(node, &cfg);
            digest.add(&serde_json::to_string(&cfg).unwrap()).add(&serde_json::to_string(&trace).unwrap());
            let out = run_trace(&mut w, &trace);
            judged += out.verdicts.len() as u64;
            let mut sfp = Fingerprint::new();
            sfp.add("sampled").add_u64(cfg.trios).add(cfg.restore_range.kind());
            for kind in &out.effective_faults {
                report.hit(&format!("fault_{kind}"));
                sfp.add(kind);
            }
            for e in &trace {
                if let Event::Verify { range, allow_missing } = e {
                    sfp.add(range.kind()).add_u64(*allow_missing as u64);
                }
            }
            sfp.add(&format!("{:?}", out.verdicts));
            fp.add_u64(sfp.value());
            report.states.push(sfp.value());
            nontrivial |= !out.verdicts.is_empty() && (fault_free_by_construction || !out.effective_faults.is_empty());
            digest.add(&format!("{:?}", out.verdicts));
            for v in &out.violations {
                digest.add(&v.clause).add(v.finding.unwrap_or("-"));
            }
            if ctx.want_sample && k == 0 {
                sample_cases.push(json!({"config": cfg, "trace": trace, "verdicts": out.verdicts.iter().map(|v| format!("{v:?}")).collect::<Vec<_>>(),
                    "objections": out.violations.iter().map(|v| format!("[{}] {}", v.clause, v.detail)).collect::<Vec<_>>()}));
            }
            for v in out.violations {
                all.push((cfg.clone(), trace.clone(), v));
            }
            report.hit("probe_sampled_scenarios");
            for (key, v) in &w.stats {
                report.count(key, *v);
            }
        }
    }

    report.count("sim_cases", judged);
    report.violations = group(&all);
    report.nontrivial = nontrivial;
    report.fingerprint = fp.value();
    report.states.sort_unstable();
    report.states.dedup();
    report.digest = digest.value();
    if ctx.want_sample {
        report.sample = Some(json!({"run": ctx.run, "cases": sample_cases}));
    }
    if !all.is_empty() {
        // the runner replays the document and expects the clause of the first violation it
        // reports for this run: take a case of that clause (unattributed ones first)
        let known = sim_core::findings::Findings::load();
        let first = report
            .violations
            .iter()
            .find(|v| !v.finding.as_deref().is_some_and(|id| known.is_known(PROPERTY, id)))
            .map(|v| (v.clause.clone(), v.finding.clone()));
        let pick = first.and_then(|(clause, finding)| {
            all.iter().find(|(_, _, v)| v.clause == clause && v.finding.map(str::to_string) == finding)
        });
        static MINIMISED: std::sync::atomic::AtomicU32 = std::sync::atomic::AtomicU32::new(0);
        let budget_left = MINIMISED.fetch_add(1, std::sync::atomic::Ordering::Relaxed) < 4;
        report.replay = Some(match pick {
            Some((cfg, trace, v)) if budget_left => replay_doc(cfg, &minimise(node, cfg, trace, &v.clause)),
            Some((cfg, trace, _)) => replay_doc(cfg, trace),
            None => replay_doc(&all[0].0, &all[0].1),
        });
    }
    report
}

pub fn replay(doc: &Value) -> RunReport {
    let node = client::node();
    let cfg: Config = serde_json::from_value(doc["config"].clone())
        .unwrap_or_else(|e| common::harness_error(&format!("bad C10 replay config: {e}")));
    let trace: Vec<Event> = serde_json::from_value(doc["trace"].clone())
        .unwrap_or_else(|e| common::harness_error(&format!("bad C10 replay trace: {e}")));
    let mut w = World::new(node, &cfg);
    let out = run_trace(&mut w, &trace);
    let mut report = RunReport::new(0);
    eprintln!("  verdicts: {:?}", out.verdicts);
    let all: Vec<(Config, Vec<Event>, CaseViolation)> = out.violations.into_iter().map(|v| (cfg.clone(), trace.clone(), v)).collect();
    report.violations = group(&all);
    let _ = w.scratch_path();
    report
}
