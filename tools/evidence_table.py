#!/usr/bin/env python3
"""Print a markdown table of what the committed quick-tier evidence files say."""
import json, glob
print("| property | engine | level | runs | non-trivial | wall s | runs/h | abstract states | fault / probe kinds fired | known findings hit |")
print("|---|---|---|---|---|---|---|---|---|---|")
for f in sorted(glob.glob('/verif/evidence/C*.json')):
    e = json.load(open(f)); c = e['coverage']; cnt = c.get('counters', {})
    kinds = sum(1 for k, v in cnt.items() if (k.startswith('fault_') or k.startswith('probe_')) and v)
    kf = ", ".join(x['finding'] for x in c.get('known_findings_hit', [])) or "-"
    print(f"| {e['property_id']} | {c.get('engine')} | {e['level']} | {c.get('evaluations')} | {c.get('nontrivial_runs')} | {e.get('wall_s')} | {int(c.get('runs_per_hour', 0))} | {c.get('distinct_abstract_states')} | {kinds} | {kf} |")
