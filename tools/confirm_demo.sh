#!/usr/bin/env bash
# tools/confirm_demo.sh <ID> <m> <crate> <crate-dir> [extra cargo args]  — demo passes without / fails with the patch,
# existing lib tests of the crate pass with the patch; in the scratch worktree /tmp/confirm-wt.
set -u
export CARGO_INCREMENTAL=0
id="$1"; m="$2"; crate="$3"; cdir="$4"; shift 4
base="${MUT_BASE:-/tmp/mut}"
cd /tmp/confirm-wt || exit 2
git checkout -q -f --detach "$(git -C /repo rev-parse HEAD)"; git clean -fdq
mkdir -p "$cdir/tests"; cp $base-$id-out/$m/demo/*.rs "$cdir/tests/" 2>/dev/null; for d in $base-$id-out/$m/demo/*/; do [ -d "$d" ] && cp -r "$d" "$cdir/tests/"; done
tests=$(cd $base-$id-out/$m/demo && ls *.rs | sed 's/\.rs$//')
run() { for t in $tests; do CARGO_NET_OFFLINE=true cargo test --offline --target-dir /repo/target -p "$crate" "$@" --test "$t" 2>&1 | grep -E "^test result|^error(\[|:)" | head -3; done; }
echo "-- demo WITHOUT patch"; run "$@"
git apply $base-$id-out/$m/patch.diff || exit 2
echo "-- demo WITH patch"; run "$@"
echo "-- existing tests of $crate WITH patch"
CARGO_NET_OFFLINE=true cargo test --offline --target-dir /repo/target -p "$crate" "$@" --lib 2>&1 | grep -E "^test result|^error(\[|:)|^test .* FAILED" | head -6
git checkout -q -f --detach "$(git -C /repo rev-parse HEAD)"; git clean -fdq
