#!/usr/bin/env python3
"""tools/keep_seeded.py <ID> <m> <detected: yes|no> "<check result line>" "<confirmation text>"
Store a confirmed seeded change under /verif/seeded/<ID>-<m>/ (patch.diff, demo, meta.json)."""
import json, shutil, sys, os
pid, m, detected, result, confirmation = sys.argv[1:6]
base = os.environ.get("MUT_BASE", "/tmp/mut")
src = f"{base}-{pid}-out/{m}"
name = os.environ.get("KEEP_AS", m)
dst = f"/verif/seeded/{pid}-{name}"
os.makedirs(dst, exist_ok=True)
shutil.copy(f"{src}/patch.diff", f"{dst}/patch.diff")
if os.path.isdir(f"{dst}/demo"):
    shutil.rmtree(f"{dst}/demo")
shutil.copytree(f"{src}/demo", f"{dst}/demo")
meta = json.load(open(f"{src}/meta.json"))
meta["breaks_property"] = pid
meta["confirmed_by_me"] = confirmation
meta["check_run"] = f"git -C /repo apply seeded/{pid}-{name}/patch.diff && ./check {pid} quick ; git -C /repo checkout -- ."
meta["detected_by_check"] = detected == "yes"
meta["check_result"] = result
json.dump(meta, open(f"{dst}/meta.json", "w"), indent=1)
print("kept", dst)
