#!/usr/bin/env bash
# tools/run_seeded.sh <patch.diff> <ID> [tier]  — apply a seeded change to /repo, run the check, undo it.
set -u
patch="$1"; id="$2"; tier="${3:-quick}"
cd /repo || exit 2
if ! git diff --quiet; then echo "refusing: /repo has uncommitted changes"; exit 2; fi
git apply "$patch" || { echo "patch does not apply"; exit 2; }
if git diff --quiet; then echo "patch not applied"; exit 2; fi
mkdir -p /tmp/vr-seeded; cp /verif/known-findings.json /tmp/vr-seeded/known-findings.json
out=$(cd /verif && VERIF_ROOT=/tmp/vr-seeded timeout ${SEEDED_TIMEOUT:-1500} ./check "$id" "$tier" 2>&1)
rc=$?
git -C /repo checkout -- . ; git -C /repo clean -fdq -- . >/dev/null 2>&1
echo "exit=$rc"
echo "$out" | grep -E "^runs=|VIOLATION|KNOWN-FINDING|HARNESS-ERROR" | cut -c1-400 | head -${LINES_MAX:-6}
# rebuild clean: leave the engine binary of the unchanged tree behind, never the patched one
(cd /verif && VERIF_ROOT=/tmp/vr-seeded VERIF_RUNS=1 ./check "$id" quick >/dev/null 2>&1 || true)
