#!/usr/bin/env python3
"""Generate /verif/MANIFEST.json from the table below (single source of truth for the interface)."""
import json

NA = {
 "C01": "pure predicate over one (signature, key, parameters, message) value: no schedule, clock, I/O, crash or history for a simulator to control",
 "C04": "pure hash / serialisation functions of one value",
 "C07": "pure predicate over one registration record and one stake distribution",
 "C08": "pure numeric function of (draw, stake, total, phi)",
 "C09": "pure functions of (leaves, subset, proof); the property itself calls for exhaustive enumeration, i.e. bounded model checking",
 "C11": "pure verification functions over one response value; all quantified alterations are structural input mutations",
 "C17": "pure arithmetic on (tip, parameters)",
}

ENGINES = {
 "pool-shuttle": ("sim-pool", "real resource_pool.rs + real prover.rs/prover_legacy.rs compiled against shuttle's Mutex/Condvar; seeded random + PCT schedulers; history oracle"),
 "net-sim": ("sim-net", "real aggregator (state machine, certifier, multi-signer, epoch service, registration, SQLite repositories, HTTP routes) + signers + verifying client + adversarial peer in one process; seeded scheduler over ticks / chain progress / deliveries / restarts / DB faults"),
 "digest-sim": ("sim-digest", "real CardanoImmutableDigester + cache providers + signable builder on a real filesystem; histories of directory growth, cache warm-ups, restarts, cache-file damage; metamorphic oracle"),
 "import-sim": ("sim-import", "real chain importer + block scanner + streamer + transaction repository on file-backed SQLite against a chain-sync server model with forks; crash / error at every DB statement"),
 "restore-sim": ("sim-restore", "real client download / unpack / verify code over file:// mirrors serving seeded honest, damaged or hostile archives; at-rest storage faults; recursive-listing and name->hash oracles"),
 "certchain-sim": ("sim-certchain", "real client + common certificate verifiers with verifier cache against a faulty / Byzantine certificate provider; independent chain-validity oracle"),
 "wire-sim": ("sim-wire", "every public decoder of the wire types fed with honest encodings damaged by transport / storage faults; panic, allocation and round-trip monitors"),
}

# property -> (engine, level, technique, level text, level note, design ref)
CHECKS = {}

def check(pid, engine, level, technique, text, note, ref):
    CHECKS[pid] = dict(engine=engine, level=level, technique=technique, text=text, note=note, ref=ref)

check("C18", "pool-shuttle", "exploration",
      "deterministic simulation of thread interleavings (shuttle controlled scheduler, seeded random + PCT search) with a generation-stamp history oracle",
      "Seeded search over thread schedules of the real pool (and of the real provers on top of it): every lock, wait, notify and explicit yield is a scheduling point decided by the seeded scheduler; the recorded history is checked for stale-generation hand-outs, over-capacity and blocked-forever acquirers; every failure is a replayable schedule. Sampling, not enumeration.",
      "Trusts shuttle's model of std Mutex/Condvar; wait_timeout never times out under shuttle so the time-out branch is not explored; refreshes are sequential (one compute_cache at a time per prover).",
      "DESIGN.md section 4 C18, section 3 E7")
check("C14", "net-sim", "exploration",
      "deterministic simulation with fault injection: seeded schedules of aggregator ticks, chain progress (epochs, immutable files, blocks; also arriving inside a cycle), registrations, signature deliveries through HTTP and the message queue (loss, duplication, reordering, delay, damage, batches), expiry, restarts and operator re-configuration of the protocol parameters; invariants after every event against an independent reference model and the public client verifier",
      "Seeded search over event histories of the real aggregator; after every event each stored certificate is re-fetched over the aggregator's own HTTP route and verified with its whole chain by the real client verifier, and the new certificates are checked against an independent model (quorum recount by producing key, aggregate key from the registrations acknowledged while their round was open, protocol parameters as first published for the epoch, parent link, double certification, epoch gap); no registration is acknowledged for a round that is not the open one. Evidence over the sampled histories, not proof.",
      "Cardano node, digester, uploader, transport and signers are doubles (listed in evidence); timestamps are real but excluded from control flow; a crash is a process kill.",
      "DESIGN.md section 4 C14, section 3 E1")
check("C16", "net-sim", "exploration",
      "deterministic simulation with an adversarial registered peer: forged / relabelled signature submissions interleaved with honest traffic under a seeded scheduler; per-row verification under the registered key of the named party",
      "Seeded search over histories in which a peer re-submits observed signatures under other names (registered, unregistered, with altered index lists), or signs with its own next-epoch key, through the HTTP route, the buffered path and the message-queue path (simulated DMQ node in front of the repository's deduplicating consumer client, DMQ signature consumer and sequential signature processor); after every event every single_signature row is verified for its open message under the key that very party registered; conservation of honest rows, recording of every honest signature that reaches an open round (nobody can suppress another party's contribution) and the certificate's signer list are checked. One known finding (C16-dmq-dedup-ignores-sender) is attributed by its trigger and confirmed by a counterfactual re-run without the deduplicating client.",
      "The DMQ node itself (envelope authentication, network) is a double: it hands (payload, pool id) pairs to the consumer; same doubles as C14.",
      "DESIGN.md section 4 C16")
check("C02", "net-sim", "exploration",
      "deterministic simulation of the signature delivery network (duplicates, reordering, damage, index-subset re-encodings, cross-round mixing) with a clerk probe: the real aggregation entry point is run on every prefix of the delivery log against an independent recount",
      "For every round of every simulated history the complete delivery log (every copy, every damaged body that still decodes, signatures for other messages) is handed as it stands, prefix by prefix and in a permuted order, to the real MultiSigner/Clerk built from the same registration; success must follow from quorum, be monotone over prefixes, order-independent, and the result must verify.",
      "Signature validity is judged with the STM single-signature verification under the producer's registered key (C01's subject); delivery logs are capped at 18 entries per round.",
      "DESIGN.md section 4 C02")
check("C12", "digest-sim", "exploration",
      "deterministic simulation of one node's disk history (directory growth, extra files, cache warm-ups, restarts, cache-file damage, second node with another creation order) with a metamorphic oracle: cold cache-less computation on a canonical copy + independent SHA-256 / Merkle reference",
      "Seeded histories of operations on a real filesystem drive the real digester with no / memory / JSON cache; every computation is compared with a cold computation on a canonical copy and with an independent reference; perturbation probes check sensitivity to covered files and insensitivity to everything else.",
      "Computations are issued one at a time (no overlapping computations on one JSON cache); tmpfs only; files <= 64 KiB.",
      "DESIGN.md section 4 C12, sim-digest/REPORT.md")

check("C03", "certchain-sim", "exploration",
      "deterministic simulation of a client verifying against a faulty / Byzantine certificate provider across successive verifications (cache state persists): seeded histories of provider lies (altered, re-hashed, re-linked, re-signed, wrong, stale, looping answers); independent chain-validity oracle written from the statement",
      "Seeded histories of 1-6 verify_chain calls on one persistent client (verifier cache on in half of the runs) and on the common verifier, against a provider that lies per request (25 edit classes, adversary signer sets and genesis key, forks re-linking every descendant); every accepted certificate is judged by an independent definition of 'chained to the configured genesis key'; honest chains must verify.",
      "Multi-signature validity is judged with STM verify (C01's subject); cache expiry (wall clock) is not exercised; concatenation proofs only.",
      "DESIGN.md section 4 C03, sim-certchain/REPORT.md")
check("C05", "wire-sim", "fault_enumeration",
      "fault injection on the channel the bytes arrive on: honest encodings of every wire type damaged by enumerated transport / storage faults (all bit flips in headers and length fields, all truncation points, block zero/ones-fill, splices, misdirected deliveries) into every public decoder, under panic / allocation / loop / round-trip monitors in forked children",
      "For 126 honest encodings per run (CBOR-v1, legacy, hex, JSON-hex, JSON, bincode, DMQ frame) the complete single-fault enumeration of one primary encoding plus seeded multi-fault cases is fed to 20 decode entry points; no panic, abort, overflow, unbounded loop or allocation out of proportion; fault-free decode(encode(v)) == v. Scoped claim: only inputs derived from honest encodings by channel faults - arbitrary bytes, grammar-based generation and coverage-guided fuzzing are not claimed.",
      "Overflow checks are on (profile sim); the fault model includes an erased (0xff) block; allocation ceiling 64 x input + 1 MiB.",
      "DESIGN.md section 4 C05, sim-wire/REPORT.md")

check("C15", "net-sim", "fault_enumeration",
      "crash-point enumeration under deterministic simulation: a recorded fault-free history of the real aggregator is re-run once per chosen persistence step ('stop before write statement j of event i', through the statement-level hook in mithril-persistence), the node is restarted on its SQLite files, a seeded driver continues, then a fault-free quiescence script; safety invariants after every event and bounded liveness after faults stop",
      "For each baseline history the aggregator's ordered list of write statements (insert certificate, update open_message, insert signed_entity, upsert single_signature, delete buffered_single_signature, transaction begin / commit ...) inside ticks, the background artifact task and signature deliveries is recorded; for every distinct statement label the first and seeded later occurrences become a crash (and, for a third of them, a transient error) point, a quarter of the variants get a second stop right after the restart. After the restart and again after three quiescence phases: every stored certificate verifies with its chain under the client verifier, no entity has two artifacts, every artifact references a stored certificate of exactly that entity, and rounds with a stored quorum get sealed / every entity type is certified in the epochs that follow.",
      "A crash is a process kill at a statement boundary (a cut inside an explicit SQL transaction rolls it back); the event store and the signer side are not covered; the baseline must itself pass the quiescence script (differential), quorum-less epochs are excused and counted.",
      "DESIGN.md section 4 C15, section 6 H2")

check("C19", "restore-sim", "exploration",
      "deterministic simulation of a database restore against seeded mirrors (honest, missing, truncated, bit-flipped, wrong compression, hostile extra entries, manifest alterations) with a serialising downloader decorator that makes the order of parallel download completions and failures a seeded choice; recursive before/after listing oracle",
      "Seeded scenarios drive the real download_unpack (JoinSet, location fallback, real tar + zstd/gzip unpack over file://, unexpected-file clean-up, ancillary verification and move, bootstrap markers) against 1-3 mirrors serving 25 shapes of hostile entries and 9 manifest alterations, with failures injected while files are being unpacked; after every call (success or error) every new or changed path must be a client marker, an immutable file of the requested range, or a file vouched by a manifest signed with the configured key.",
      "No two real unpacks overlap (orders only); an abort landing in the middle of an unpack is not simulated; certificate chain validity is assumed (C03).",
      "DESIGN.md section 4 C19, sim-restore/REPORT.md")
check("C10", "restore-sim", "fault_enumeration",
      "fault enumeration on the restored directory and the served digest list (at-rest storage faults and corrupting mirror): every single and every ordered pair of faults for databases of 1-3 trios over every range shape, plus seeded larger scenarios, through the real download / digest verification / database verification / message computation; independent name->sha256 model",
      "Scoped claim (DESIGN section 4 C10): directory states and digest lists that are the image of an honest restore under storage / transport faults (bit flip, truncate, zero-fill, delete, swap contents, copy over, stray file, rename; list entry renamed, swapped, dropped, added, reordered, other beacon). Acceptance (all four client calls succeed) must imply: every certified name of the range present unless allow_missing, content hash equal to the certified digest of that very name, no other immutable-looking file in range. Fault-free must succeed.",
      "The certificate chain is assumed valid; enumeration is complete for d <= 2 and for the full / inner ranges of d = 3 in the quick tier.",
      "DESIGN.md section 4 C10, sim-restore/REPORT.md")

check("C13", "import-sim", "exploration",
      "deterministic simulation of chain import histories against a chain-sync server model with forks: seeded sequences of growth, roll-backs (biased to block-range boundaries and to the first stored block), imports with varying targets, restarts, pruning, with crash / transient error at enumerated DB statements and reader errors; oracle = independent model + a fresh node importing the final canonical chain once with the real code",
      "The real importer, block scanner, streamer and transaction repository on file-backed SQLite are driven through seeded histories; after every successful import the stored blocks, transactions and both kinds of block-range roots are compared with an independent model and with a fresh node; the root offered for signing must depend only on the canonical chain up to the beacon; every 25th run enumerates crash / error points of one import. Four genuine defects that were not repaired are listed in known-findings.json and attributed counterfactually (same trace with the trigger neutralised).",
      "The Pallas chain-sync client and sockets are replaced by a server model behind ChainBlockReader; an import that returns an error is followed by a process restart (a failed import retried by the same process is outside the statement; observed, not judged); in pruning runs forks are at most keep-14 deep.",
      "DESIGN.md section 4 C13, sim-import/REPORT.md")

check("C06", "net-sim", "exploration",
      "deterministic simulation of the registration network (arrival permutations, duplicates, re-registration, partial registration, aggregator restarts between registrations) with a multi-node agreement invariant over three real computation paths and a paired-run history check (same history, registrations arriving in the opposite order)",
      "In every simulated epoch the aggregate key in the aggregator's certificates is compared with (a) the key derived from the acknowledged registrations, (b) the key a signer derives from the signer list published on /epoch-settings (JSON in the loop) in served, reversed, shuffled and JSON-round-tripped order, together with total stake and each party's signer slot, (c) the message the client's MessageBuilder re-computes from the downloaded stake-distribution artifact; distinct registration sets must give distinct keys; (d) key-registration sessions fed with the epoch's registrations in seeded orders with repeated (refused) arrivals; every run is re-executed with the registration deliveries of each round reversed and must give bit-identical keys per epoch.",
      "Signers are light actors built on the repository's SignerBuilder / ProtocolInitializer (the real signer node's epoch service is not in the loop); permuted groups never span a tick, because arrival relative to the rotation of the registration round matters by design.",
      "DESIGN.md section 4 C06")

check("C20", "net-sim", "exploration",
      "deterministic simulation with real signer nodes: the repository's signer state machine, runner, certifier, single signer, epoch service and SQLite repositories (real KES signing, seeded key material through hook H4) tick under a seeded scheduler against the real aggregator over a simulated link (request lost, acknowledgement lost, duplicated, aggregator unreachable, stale epoch settings), with per-node chain-view lag (also catching up in the middle of a cycle), restarts of signers and aggregator and operator re-configuration of the protocol parameters; exactly-once / right-key / acceptance oracle over the recorded wire history, bounded liveness after faults stop",
      "Every request of every signer is recorded on the wire together with what the aggregator answered and what the signer was told. Per (signer, signed entity, beacon): at most one acknowledged publication, un-acknowledged retries carry the identical signature; every published signature verifies, under an independent statement of the epoch offsets, with the key that signer registered (as acknowledged by the aggregator) for the epoch whose stake distribution is in force; it is accepted by the real aggregator whenever the matching round is open; no publication without an eligible registration; after three fault-free quiescence phases every registered signer is back in ReadyToSign.",
      "CardanoTransactions signing runs over a block scanner double (no forks), CardanoBlocksTransactions is not exercised; the production wiring function of the signer (DependenciesBuilder::build) and the retry / delay decorators of the signature publisher are not wired (retries are the scheduler's); an aggregator that has just been restarted and has not cycled yet may reject (transient, counted).",
      "DESIGN.md section 4 C20, section 6 H4")

def manifest():
    checks = []
    for pid in sorted(CHECKS):
        c = CHECKS[pid]
        checks.append({
            "property_id": pid,
            "quick_cmd": f"./check {pid} quick",
            "thorough_cmd": f"./check {pid} thorough",
            "evidence_file": f"evidence/{pid}.json",
            "replay_cmd_template": "./check replay {path}",
            "engine": c["engine"],
            "technique": c["technique"],
            "level_claimed": {"category": c["level"], "text": c["text"], "design_ref": c["ref"]},
            "level_note": c["note"],
        })
    not_applicable = [{"property_id": k, "reason": v} for k, v in sorted(NA.items())]
    pending = {
        "C03": "engine E5 (certchain-sim) not finished yet in this round",
        "C05": "engine E6 (wire-sim) not finished yet in this round",
        "C06": "E1 (net-sim) check for C06 not finished yet in this round",
        "C10": "engine E4 (restore-sim) not finished yet in this round",
        "C13": "engine E2 (import-sim) not finished yet in this round",
        "C15": "E1 (net-sim) crash mode not finished yet in this round",
        "C19": "engine E4 (restore-sim) not finished yet in this round",
        "C20": "E1 (net-sim) real signer nodes not finished yet in this round",
    }
    for k, v in sorted(pending.items()):
        if k not in CHECKS:
            not_applicable.append({"property_id": k, "reason": v})
    used = sorted({c["engine"] for c in CHECKS.values()})
    engines = [{"name": e, "path": ENGINES[e][0], "serves_properties": sorted(p for p, c in CHECKS.items() if c["engine"] == e), "kind_free_text": ENGINES[e][1]} for e in used]
    return {
        "version": 1,
        "setup_cmd": "./setup.sh",
        "hooks": {
            "guard": "cfg mithril_verif (statement hook in mithril-persistence, global_allocator opt-out in aggregator/signer libs) and cfg mithril_verif_shuttle (resource pool sync primitives -> shuttle::sync)",
            "enable": "rustflags in each engine's .cargo/config.toml: --cfg mithril_verif (sim-pool: --cfg mithril_verif_shuttle, with the shuttle dependency supplied by the shadow manifest sim-pool/shadow-resource-pool)",
            "baseline_off_cmd": "cd /repo && cargo nextest run --workspace --no-fail-fast --tool-config-file pb:/w/lib/nextest.toml --profile pb --test-threads 8 --offline",
            "source_commits": ["118e19bdb", "f0a7adfa4", "02840e8c9", "c978da17a"],
            "add_only": False,
        },
        "engines": engines,
        "checks": checks,
        "not_applicable": not_applicable,
        "notes": "Hooks: H1 rewrites one `use` line in internal/mithril-resource-pool/src/resource_pool.rs (cfg-switched import); H3 rewrites the four `#[global_allocator]` attribute lines of mithril-aggregator/src/lib.rs and mithril-signer/src/lib.rs into `#[cfg_attr(not(mithril_verif), global_allocator)]`; H2 only adds code; H4 (mithril-signer: seeded generator for the per-epoch key material instead of OsRng under cfg mithril_verif) puts one existing `let` line behind `#[cfg(not(mithril_verif))]` and adds code. Hence add_only=false. With both cfgs off the crates compile to what they compiled to before. Unguarded `fix:` commits in /repo (21, each recorded with its replay file in known-findings.json as `fixed`; full table in DESIGN.md section 11.3): 973c7af0c (C18), 1a94af927 (C12), 4f5ce2b29 (C16), c196a0569 0b86c82cc 9a2a9eab4 (C02), 0d8ed8408 6057eb0a7 (C05), d7948dfa7 eef9023be 483b6bf59 (C03), 00cf1206e 8f2e3d406 333535004 (C10), 658c0504a 2d0846181 2c79164b6 (C19), 7b2f8551d 42b0c08f9 8f720ef97 (C13), 5d0b6c195 (C20).",
    }

if __name__ == "__main__":
    json.dump(manifest(), open("/verif/MANIFEST.json", "w"), indent=1)
    print("MANIFEST.json written:", ", ".join(sorted(CHECKS)))
