//! The corrupting channel: what a transport or a storage device can do to an honest encoding.
use serde::{Deserialize, Serialize};

#[derive(Clone, Debug, PartialEq, Eq, Serialize, Deserialize)]
#[serde(tag = "k", rename_all = "snake_case")]
pub enum Fault {
    /// single bit flip (bit index over the whole buffer, LSB first inside a byte)
    Flip { bit: usize },
    /// byte overwrite (stuck-at / misdirected single-byte write)
    Set { off: usize, val: u8 },
    /// short read / torn write: only the first `len` bytes arrive
    Trunc { len: usize },
    /// lost sector (val 0x00) or erased flash page (val 0xff): a block is replaced by a constant
    Fill { off: usize, len: usize, val: u8 },
    /// tail duplication: bytes[from..] are appended once more (retransmitted segment)
    DupTail { from: usize },
    /// misframing: the first `keep` bytes of this encoding followed by another honest encoding
    /// (index into the run's encoding list) starting at `from`
    Splice {
        other: usize,
        keep: usize,
        from: usize,
    },
    /// two honest messages delivered as one (concatenated frames)
    Concat { other: usize },
}

impl Fault {
    pub fn kind(&self) -> &'static str {
        match self {
            Fault::Flip { .. } => "bit_flip",
            Fault::Set { .. } => "byte_overwrite",
            Fault::Trunc { .. } => "truncation",
            Fault::Fill { val: 0, .. } => "zero_fill",
            Fault::Fill { .. } => "ones_fill",
            Fault::DupTail { .. } => "tail_duplication",
            Fault::Splice { .. } => "splice",
            Fault::Concat { .. } => "concatenation",
        }
    }
}

/// Apply the faults in order. A fault whose offsets are out of range for the current buffer is
/// not enabled and is skipped (keeps shrunken traces executable); returns the buffer and the
/// kinds that actually fired.
pub fn apply(
    src: &[u8],
    faults: &[Fault],
    others: &dyn Fn(usize) -> Option<Vec<u8>>,
) -> (Vec<u8>, Vec<&'static str>) {
    let mut b = src.to_vec();
    let mut fired = Vec::new();
    for f in faults {
        let ok = match f {
            Fault::Flip { bit } => {
                if bit / 8 < b.len() {
                    b[bit / 8] ^= 1 << (bit % 8);
                    true
                } else {
                    false
                }
            }
            Fault::Set { off, val } => {
                if *off < b.len() && b[*off] != *val {
                    b[*off] = *val;
                    true
                } else {
                    false
                }
            }
            Fault::Trunc { len } => {
                if *len < b.len() {
                    b.truncate(*len);
                    true
                } else {
                    false
                }
            }
            Fault::Fill { off, len, val } => {
                if *off < b.len() && *len > 0 {
                    let end = (*off + *len).min(b.len());
                    let changed = b[*off..end].iter().any(|x| x != val);
                    for x in &mut b[*off..end] {
                        *x = *val;
                    }
                    changed
                } else {
                    false
                }
            }
            Fault::DupTail { from } => {
                if *from < b.len() && b.len() < (1 << 16) {
                    let tail = b[*from..].to_vec();
                    b.extend_from_slice(&tail);
                    true
                } else {
                    false
                }
            }
            Fault::Splice { other, keep, from } => match others(*other) {
                Some(o) if *keep <= b.len() && *from <= o.len() => {
                    b.truncate(*keep);
                    b.extend_from_slice(&o[*from..]);
                    true
                }
                _ => false,
            },
            Fault::Concat { other } => match others(*other) {
                Some(o) if b.len() + o.len() < (1 << 17) => {
                    b.extend_from_slice(&o);
                    true
                }
                _ => false,
            },
        };
        if ok {
            fired.push(f.kind());
        }
    }
    (b, fired)
}
