//! The corrupting channel: what a transport or a storage device can do to an honest encoding.
use serde::{Deserialize, Serialize};

#[derive(Clone, Debug, PartialEq, Eq, Serialize, Deserialize)]
#[serde(tag = "k", rename_all = "snake_case")]
pub enum Fault {
    /// single bit flip (bit index over the whole buffer, LSB first inside a byte)
    Flip { bit: usize },
    /// byte overwrite (stuck-at / misdirected single-byte write)
    Set { off: usize, val: u8 },
    /// short read / torn write: only the first `len` bytes arrive
    Trunc { len: usize },
    /// lost sector (val 0x00) or erased flash page (val 0xff): a block is replaced by a constant
    Fill { off: usize, len: usize, val: u8 },
    /// tail duplication: bytes[from..] are appended once more (retransmitted segment)
    DupTail { from: usize },
    /// misframing: the first `keep` bytes of this encoding followed by another honest encoding
    /// (index into the run's encoding list) starting at `from`
    Splice {
        other: usize,
        keep: usize,
        from: usize,
    },
    /// two honest messages delivered as one (concatenated frames)
    Concat { other: usize },
    /// word overwrite: a structurally located length / count / size field is replaced by another
    /// value of the same width (misdirected or stale word-sized write). `enc`: how the field is
    /// laid out (see `WordEnc`); `hex`: the buffer is the hex text of the bytes (offsets in
    /// characters). The buffer length never changes.
    Word {
        off: usize,
        width: usize,
        val: u64,
        enc: WordEnc,
        hex: bool,
    },
}

#[derive(Clone, Copy, Debug, PartialEq, Eq, Serialize, Deserialize)]
#[serde(rename_all = "snake_case")]
pub enum WordEnc {
    /// `width` bytes at `off`, big endian (legacy layouts, DMQ frame, CBOR header arguments)
    Be,
    /// `width` bytes at `off`, little endian (bincode arguments after a 0xfb/0xfc/0xfd marker)
    Le,
    /// CBOR header rewrite: the header byte at `off` keeps its major type and gets the
    /// additional-information value announcing a `width`-byte argument, which overwrites the
    /// `width` bytes that follow (a 1 + width byte stale write over a short header)
    CborHeader,
    /// bincode varint rewrite: the byte at `off` becomes the marker announcing a `width`-byte
    /// little-endian argument (0xfb / 0xfc / 0xfd), which overwrites the bytes that follow
    BincodeMarker,
}

/// A located length / count / size field of an honest encoding.
#[derive(Clone, Copy, Debug, PartialEq, Eq)]
pub struct WordField {
    pub off: usize,
    pub width: usize,
    pub enc: WordEnc,
    pub hex: bool,
}

impl WordField {
    pub fn shifted(&self, by: usize) -> WordField {
        WordField {
            off: self.off + by,
            ..*self
        }
    }
    /// the same field in the hex text of the buffer; `at`: character offset of the hex text
    pub fn in_hex(&self, at: usize) -> WordField {
        WordField {
            off: at + 2 * self.off,
            hex: true,
            ..*self
        }
    }
}

/// Element sizes and offsets the legacy parsers multiply or add with (digest 32, BLS signature
/// 48, key 96, key + PoP 192, registration entry 104, signature tail 56, in-memory signature
/// with party 328, parameters 24, KES signature 448 ...).
pub const ELEMENT_SIZES: [u64; 14] = [8, 16, 24, 32, 48, 56, 64, 96, 104, 192, 200, 256, 328, 448];
const ADDED_CONSTANTS: [u64; 4] = [8, 16, 56, 64];

/// Boundary values for a field of `width` bytes: the values where `8 * n`, `n * size`,
/// `offset + n` and `offset + constant` change behaviour. Sorted, unique, finite (< 1000).
pub fn boundary_values(width: usize) -> Vec<u64> {
    let bits = (width * 8).min(64) as u32;
    let max: u64 = if bits == 64 {
        u64::MAX
    } else {
        (1u64 << bits) - 1
    };
    let mut v: Vec<u64> = vec![0, 1];
    for k in [7u32, 8, 15, 16, 31, 32, 60, 61, 62, 63] {
        if k < bits {
            let p = 1u64 << k;
            v.extend([p - 1, p, p.saturating_add(1)]);
        }
    }
    for c in 0..=8u64 {
        v.push(max.saturating_sub(c));
    }
    for s in ELEMENT_SIZES {
        let q = max / s;
        for d in -8i64..=8 {
            v.push(q.saturating_add_signed(d));
        }
        // offset + n just below / above the wrap point when a constant of this size is added
        for c in 0..=8u64 {
            v.push(max.saturating_sub(s).saturating_sub(c));
            v.push(max.saturating_sub(s).saturating_add(c));
        }
        // s * n + c wraps
        for c in ADDED_CONSTANTS {
            let q = max.saturating_sub(c) / s;
            for d in -2i64..=2 {
                v.push(q.saturating_add_signed(d));
            }
        }
    }
    v.retain(|x| *x <= max);
    v.sort_unstable();
    v.dedup();
    v
}

impl Fault {
    pub fn kind(&self) -> &'static str {
        match self {
            Fault::Flip { .. } => "bit_flip",
            Fault::Set { .. } => "byte_overwrite",
            Fault::Trunc { .. } => "truncation",
            Fault::Fill { val: 0, .. } => "zero_fill",
            Fault::Fill { .. } => "ones_fill",
            Fault::DupTail { .. } => "tail_duplication",
            Fault::Splice { .. } => "splice",
            Fault::Concat { .. } => "concatenation",
            Fault::Word {
                enc: WordEnc::Be | WordEnc::Le,
                ..
            } => "word_overwrite",
            Fault::Word { .. } => "word_overwrite_header_rewrite",
        }
    }
}

/// Apply the faults in order. A fault whose offsets are out of range for the current buffer is
/// not enabled and is skipped (keeps shrunken traces executable); returns the buffer and the
/// kinds that actually fired.
pub fn apply(
    src: &[u8],
    faults: &[Fault],
    others: &dyn Fn(usize) -> Option<Vec<u8>>,
) -> (Vec<u8>, Vec<&'static str>) {
    let mut b = src.to_vec();
    let mut fired = Vec::new();
    for f in faults {
        let ok = match f {
            Fault::Flip { bit } => {
                if bit / 8 < b.len() {
                    b[bit / 8] ^= 1 << (bit % 8);
                    true
                } else {
                    false
                }
            }
            Fault::Set { off, val } => {
                if *off < b.len() && b[*off] != *val {
                    b[*off] = *val;
                    true
                } else {
                    false
                }
            }
            Fault::Trunc { len } => {
                if *len < b.len() {
                    b.truncate(*len);
                    true
                } else {
                    false
                }
            }
            Fault::Fill { off, len, val } => {
                if *off < b.len() && *len > 0 {
                    let end = (*off + *len).min(b.len());
                    let changed = b[*off..end].iter().any(|x| x != val);
                    for x in &mut b[*off..end] {
                        *x = *val;
                    }
                    changed
                } else {
                    false
                }
            }
            Fault::DupTail { from } => {
                if *from < b.len() && b.len() < (1 << 16) {
                    let tail = b[*from..].to_vec();
                    b.extend_from_slice(&tail);
                    true
                } else {
                    false
                }
            }
            Fault::Splice { other, keep, from } => match others(*other) {
                Some(o) if *keep <= b.len() && *from <= o.len() => {
                    b.truncate(*keep);
                    b.extend_from_slice(&o[*from..]);
                    true
                }
                _ => false,
            },
            Fault::Concat { other } => match others(*other) {
                Some(o) if b.len() + o.len() < (1 << 17) => {
                    b.extend_from_slice(&o);
                    true
                }
                _ => false,
            },
            Fault::Word {
                off,
                width,
                val,
                enc,
                hex,
            } => write_word(&mut b, *off, *width, *val, *enc, *hex),
        };
        if ok {
            fired.push(f.kind());
        }
    }
    (b, fired)
}

/// Overwrite a located field in place. Returns false (not enabled) when it does not fit or
/// nothing changes.
fn write_word(b: &mut [u8], off: usize, width: usize, val: u64, enc: WordEnc, hex: bool) -> bool {
    if !(1..=8).contains(&width) {
        return false;
    }
    let unit = if hex { 2 } else { 1 };
    let get = |b: &[u8], i: usize| -> Option<u8> {
        if hex {
            let hi = (*b.get(off + 2 * i)? as char).to_digit(16)?;
            let lo = (*b.get(off + 2 * i + 1)? as char).to_digit(16)?;
            Some((hi * 16 + lo) as u8)
        } else {
            b.get(off + i).copied()
        }
    };
    let be = val.to_be_bytes();
    let le = val.to_le_bytes();
    let mut image: Vec<u8> = Vec::with_capacity(width + 1);
    match enc {
        WordEnc::Be => image.extend_from_slice(&be[8 - width..]),
        WordEnc::Le => image.extend_from_slice(&le[..width]),
        WordEnc::CborHeader => {
            let Some(head) = get(b, 0) else { return false };
            let ai = match width {
                1 => 24,
                2 => 25,
                4 => 26,
                8 => 27,
                _ => return false,
            };
            image.push((head & 0xe0) | ai);
            image.extend_from_slice(&be[8 - width..]);
        }
        WordEnc::BincodeMarker => {
            let marker = match width {
                2 => 0xfb,
                4 => 0xfc,
                8 => 0xfd,
                _ => return false,
            };
            image.push(marker);
            image.extend_from_slice(&le[..width]);
        }
    }
    if off + unit * image.len() > b.len() {
        return false;
    }
    let mut changed = false;
    for (i, byte) in image.iter().enumerate() {
        if hex {
            let text = [
                b"0123456789abcdef"[(byte >> 4) as usize],
                b"0123456789abcdef"[(byte & 15) as usize],
            ];
            if b[off + 2 * i..off + 2 * i + 2] != text {
                b[off + 2 * i..off + 2 * i + 2].copy_from_slice(&text);
                changed = true;
            }
        } else if b[off + i] != *byte {
            b[off + i] = *byte;
            changed = true;
        }
    }
    changed
}

#[cfg(test)]
mod tests {
    use super::*;

    #[test]
    fn boundary_set_contains_the_wrap_points() {
        let v = boundary_values(8);
        assert!(v.len() < 1000);
        // 8 * n + 8 + 56 wraps
        for n in 0x1FFF_FFFF_FFFF_FFF8u64..=0x1FFF_FFFF_FFFF_FFFE {
            assert!(v.contains(&n), "{n:x}");
        }
        assert!(v.contains(&(u64::MAX / 328)));
        assert!(boundary_values(2).iter().all(|x| *x <= 0xffff));
    }

    #[test]
    fn word_in_hex() {
        let mut b = b"0000000000000003ff".to_vec();
        assert!(write_word(
            &mut b,
            0,
            8,
            0x1fff_ffff_ffff_fff8,
            WordEnc::Be,
            true
        ));
        assert_eq!(&b, b"1ffffffffffffff8ff");
    }
}
