//! Structural location of length / count / version bytes inside an honest CBOR-v1 encoding.
//!
//! The harness does not decode values with this walker; it only finds the byte offsets a
//! transport fault would have to hit to damage a *length field*: the version prefix, the header
//! bytes (and length-extension bytes) of every array / map / byte string / text string, and -
//! because the STM envelopes nest pre-serialised encodings as arrays of small integers - the
//! same positions inside every nested versioned encoding, plus the first 16 bytes of each
//! nested encoding (where the legacy parsers read their counts once the nested version byte is
//! damaged). Offsets are relative to the whole buffer.

/// `map[i]` = offset in the outer buffer of the byte that carries inner byte `i`.
fn walk(inner: &[u8], map: &[usize], hot: &mut Vec<usize>, depth: usize) {
    if inner.is_empty() || depth > 6 {
        return;
    }
    // version prefix
    hot.push(map[0]);
    for m in map.iter().take(17) {
        hot.push(*m);
    }
    if inner[0] != 1 {
        return;
    }
    let mut pos = 1usize;
    item(inner, map, &mut pos, hot, depth);
}

fn read_arg(b: &[u8], pos: &mut usize) -> Option<(u8, u64, usize)> {
    // returns (major, argument, header length)
    let ib = *b.get(*pos)?;
    let major = ib >> 5;
    let ai = ib & 0x1f;
    let (arg, hl) = match ai {
        0..=23 => (ai as u64, 1),
        24 => (*b.get(*pos + 1)? as u64, 2),
        25 => (
            u16::from_be_bytes(b.get(*pos + 1..*pos + 3)?.try_into().ok()?) as u64,
            3,
        ),
        26 => (
            u32::from_be_bytes(b.get(*pos + 1..*pos + 5)?.try_into().ok()?) as u64,
            5,
        ),
        27 => (
            u64::from_be_bytes(b.get(*pos + 1..*pos + 9)?.try_into().ok()?),
            9,
        ),
        _ => return None, // indefinite lengths are never emitted by ciborium for these types
    };
    Some((major, arg, hl))
}

/// Walk one item starting at `*pos`; returns `Some(byte value)` when the item is an unsigned
/// integer below 256 (so that arrays of such items can be recognised as nested byte strings).
fn item(
    b: &[u8],
    map: &[usize],
    pos: &mut usize,
    hot: &mut Vec<usize>,
    depth: usize,
) -> Option<Option<(u8, usize)>> {
    let start = *pos;
    let (major, arg, hl) = read_arg(b, pos)?;
    match major {
        0 => {
            *pos += hl;
            if arg < 256 {
                // offset (inner coordinates) of the byte that carries the value
                let value_at = if hl == 1 { start } else { start + 1 };
                Some(Some((arg as u8, value_at)))
            } else {
                Some(None)
            }
        }
        1 | 7 => {
            *pos += hl;
            Some(None)
        }
        2 | 3 => {
            for i in 0..hl {
                hot.push(map[start + i]);
            }
            *pos += hl;
            let len = usize::try_from(arg).ok()?;
            let end = pos.checked_add(len)?;
            if end > b.len() {
                return None;
            }
            if major == 2 && len >= 2 && b[*pos] == 1 {
                let sub_map: Vec<usize> = (*pos..end).map(|i| map[i]).collect();
                walk(&b[*pos..end], &sub_map, hot, depth + 1);
            }
            *pos = end;
            Some(None)
        }
        4 => {
            for i in 0..hl {
                hot.push(map[start + i]);
            }
            *pos += hl;
            let n = usize::try_from(arg).ok()?;
            let mut bytes: Vec<u8> = Vec::new();
            let mut sub_map: Vec<usize> = Vec::new();
            let mut all_small = true;
            for _ in 0..n {
                match item(b, map, pos, hot, depth)? {
                    Some((v, at)) if all_small => {
                        bytes.push(v);
                        sub_map.push(map[at]);
                    }
                    _ => all_small = false,
                }
            }
            if all_small && bytes.len() >= 2 && bytes[0] == 1 {
                // candidate nested versioned encoding: only if its body parses as CBOR
                let mut probe = 1usize;
                let mut scratch = Vec::new();
                let id: Vec<usize> = (0..bytes.len()).collect();
                if item(&bytes, &id, &mut probe, &mut scratch, depth + 1).is_some()
                    && probe == bytes.len()
                {
                    walk(&bytes, &sub_map, hot, depth + 1);
                }
            }
            Some(None)
        }
        5 => {
            for i in 0..hl {
                hot.push(map[start + i]);
            }
            *pos += hl;
            let n = usize::try_from(arg).ok()?;
            for _ in 0..n.checked_mul(2)? {
                item(b, map, pos, hot, depth)?;
            }
            Some(None)
        }
        6 => {
            *pos += hl;
            item(b, map, pos, hot, depth)
        }
        _ => None,
    }
}

/// Hot offsets of a version-prefixed CBOR encoding (sorted, unique).
pub fn hot_offsets(bytes: &[u8]) -> Vec<usize> {
    let map: Vec<usize> = (0..bytes.len()).collect();
    let mut hot = Vec::new();
    walk(bytes, &map, &mut hot, 0);
    hot.sort_unstable();
    hot.dedup();
    hot
}

#[cfg(test)]
mod tests {
    use super::*;

    #[test]
    fn finds_nested_version_byte() {
        // 01 | map(1) { "a": [1, 0xa0] }  -> nested = 01 a0 (version + empty map)
        let enc = vec![0x01, 0xa1, 0x61, b'a', 0x82, 0x01, 0x18, 0xa0];
        let hot = hot_offsets(&enc);
        assert!(hot.contains(&0)); // outer version
        assert!(hot.contains(&1)); // map header
        assert!(hot.contains(&4)); // array header
        assert!(hot.contains(&5)); // nested version byte
        assert!(hot.contains(&7)); // nested map header value byte
    }
}

/// Container headers (byte string, text string, array, map) that sit *contiguously* in the
/// buffer: `(offset of the header byte, header length)`. Headers inside nested encodings that
/// are carried as arrays of integers are not listed: an in-place word write cannot reach them.
fn headers(
    b: &[u8],
    base: usize,
    pos: &mut usize,
    out: &mut Vec<(usize, usize)>,
    depth: usize,
) -> Option<()> {
    if depth > 64 {
        return None;
    }
    let start = *pos;
    let (major, arg, hl) = read_arg(b, pos)?;
    *pos += hl;
    match major {
        0 | 1 | 7 => {}
        2 | 3 => {
            out.push((base + start, hl));
            let len = usize::try_from(arg).ok()?;
            let end = pos.checked_add(len)?;
            if end > b.len() {
                return None;
            }
            if major == 2 && len >= 2 && b[*pos] == 1 {
                let mut inner = 1usize;
                let mut nested = Vec::new();
                if headers(
                    &b[*pos..end],
                    base + *pos,
                    &mut inner,
                    &mut nested,
                    depth + 1,
                )
                .is_some()
                    && inner == len
                {
                    out.extend(nested);
                }
            }
            *pos = end;
        }
        4 => {
            out.push((base + start, hl));
            for _ in 0..usize::try_from(arg).ok()? {
                headers(b, base, pos, out, depth + 1)?;
            }
        }
        5 => {
            out.push((base + start, hl));
            for _ in 0..usize::try_from(arg).ok()?.checked_mul(2)? {
                headers(b, base, pos, out, depth + 1)?;
            }
        }
        6 => headers(b, base, pos, out, depth + 1)?,
        _ => return None,
    }
    Some(())
}

/// Located length fields of a version-prefixed CBOR encoding: the explicit header arguments
/// (1/2/4/8 bytes, big endian), every container header as a candidate for a header rewrite, and
/// the first words of the buffer, where the legacy parsers read their counts once the version
/// byte is gone (offsets 0 and 8; 1 and 9 behind an aggregate-signature type byte).
pub fn word_fields(bytes: &[u8]) -> Vec<crate::faults::WordField> {
    use crate::faults::{WordEnc, WordField};
    let mut out = Vec::new();
    let mut hs = Vec::new();
    if bytes.first() == Some(&1) {
        for off in [0usize, 1, 8, 9] {
            if off + 8 <= bytes.len() {
                out.push(WordField {
                    off,
                    width: 8,
                    enc: WordEnc::Be,
                    hex: false,
                });
            }
        }
        let mut pos = 1usize;
        let _ = headers(bytes, 0, &mut pos, &mut hs, 0);
    } else {
        // plain CBOR without version prefix (operational certificate): only if it parses exactly
        let mut pos = 0usize;
        if headers(bytes, 0, &mut pos, &mut hs, 0).is_none()
            || pos != bytes.len()
            || bytes.len() < 16
        {
            return out;
        }
    }
    // the thousands of string headers of a big document are thinned evenly to 48
    let keep: Vec<(usize, usize)> = if hs.len() <= 48 {
        hs
    } else {
        (0..48).map(|i| hs[i * hs.len() / 48]).collect()
    };
    for (off, hl) in keep {
        if hl > 1 {
            out.push(WordField {
                off: off + 1,
                width: hl - 1,
                enc: WordEnc::Be,
                hex: false,
            });
        }
        out.push(WordField {
            off,
            width: 8,
            enc: WordEnc::CborHeader,
            hex: false,
        });
    }
    out
}
