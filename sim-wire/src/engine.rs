//! E6 wire-sim: the run loop, the enumeration, the oracle, minimisation and replay.
use std::collections::BTreeMap;
use std::sync::Arc;

use serde_json::{Value, json};
use sim_core::batch::{Engine, Plan, RunCtx, RunReport, Tier, Violation};
use sim_core::{Fingerprint, Rng};

use crate::alloc::CEILING;
use crate::exec::{self, Job, Obs, Outcome};
use crate::faults::{self, Fault, boundary_values};
use crate::honest::{HonestCfg, HonestSet};

pub const PROPERTY: &str = "C05";

/// largest single allocation a decoder may request for an input of `len` bytes
fn request_bound(len: usize) -> usize {
    64 * len + (1 << 20)
}
/// peak live bytes a decoder may hold for an input of `len` bytes
fn peak_bound(len: usize) -> usize {
    256 * len + (8 << 20)
}

#[derive(Clone, Debug)]
struct CaseSpec {
    /// encoding whose honest bytes enter the channel
    src: usize,
    /// encoding whose decoder entry receives the result (== src unless misdirected)
    dst: usize,
    entry: usize,
    faults: Vec<Fault>,
}

#[derive(Clone, Debug)]
struct Judged {
    clause: &'static str,
    detail: String,
    location: String,
}

fn outcome_class(o: &Outcome) -> &'static str {
    match o {
        Outcome::Ok { equal: true } => "ok_same",
        Outcome::Ok { equal: false } => "ok_changed",
        Outcome::Err(_) => "err",
        Outcome::Panic { .. } => "panic",
        Outcome::Runaway { .. } => "runaway",
        Outcome::Died { .. } => "died",
        Outcome::Hung { .. } => "hung",
    }
}

/// The oracle. `fault_free`: the input is the untouched honest encoding delivered to a decoder
/// of its own form.
fn judge(fault_free: bool, input_len: usize, obs: &Obs) -> Option<Judged> {
    match &obs.outcome {
        Outcome::Panic { location, message } => {
            let clause = if message.starts_with("attempt to") && message.contains("overflow") {
                "arithmetic-overflow"
            } else if message.contains("capacity overflow") {
                "runaway-allocation"
            } else {
                "panic"
            };
            Some(Judged {
                clause,
                detail: format!("panic at {location}: {message}"),
                location: location.clone(),
            })
        }
        Outcome::Runaway { bytes } => Some(Judged {
            clause: "runaway-allocation",
            detail: format!(
                "single allocation request of {bytes} bytes for an input of {input_len} bytes (above the {} MiB ceiling: the process would abort in handle_alloc_error or be OOM-killed)",
                CEILING >> 20
            ),
            location: String::new(),
        }),
        Outcome::Died { how } => Some(Judged {
            clause: "process-death",
            detail: format!(
                "the process executing the decode of this {input_len}-byte input was {how}"
            ),
            location: String::new(),
        }),
        Outcome::Hung { seconds } => Some(Judged {
            clause: "unbounded-loop",
            detail: format!(
                "the decode of this {input_len}-byte input did not return within {seconds} s (killed)"
            ),
            location: String::new(),
        }),
        Outcome::Ok { .. } | Outcome::Err(_) => {
            if obs.stats.max_request > request_bound(input_len) {
                return Some(Judged {
                    clause: "allocation-out-of-proportion",
                    detail: format!(
                        "single allocation request of {} bytes for an input of {input_len} bytes (bound 64 x len + 1 MiB = {})",
                        obs.stats.max_request,
                        request_bound(input_len)
                    ),
                    location: String::new(),
                });
            }
            if obs.stats.peak_live > peak_bound(input_len) {
                return Some(Judged {
                    clause: "allocation-out-of-proportion",
                    detail: format!(
                        "peak of {} live bytes for an input of {input_len} bytes (bound 256 x len + 8 MiB)",
                        obs.stats.peak_live
                    ),
                    location: String::new(),
                });
            }
            if fault_free {
                match &obs.outcome {
                    Outcome::Err(e) => {
                        return Some(Judged {
                            clause: "roundtrip",
                            detail: format!("the honest encoding is rejected: {e}"),
                            location: String::new(),
                        });
                    }
                    Outcome::Ok { equal: false } => {
                        return Some(Judged {
                            clause: "roundtrip",
                            detail: "decoding the honest encoding returns a different value".into(),
                            location: String::new(),
                        });
                    }
                    _ => {}
                }
            }
            None
        }
    }
}

fn release_note(clause: &str) -> &'static str {
    match clause {
        "arithmetic-overflow" => {
            "found with overflow-checks = true (the sim profile, as in the project's own test profile). The repository's release profile leaves overflow checks off: there the addition wraps silently, the following slice `get` sees an inverted or short range and the decoder returns Err - no crash in a shipped build, but the property text forbids the overflow itself."
        }
        "runaway-allocation" | "allocation-out-of-proportion" => {
            "independent of the build profile: the requested size is computed from an input field before any bound check."
        }
        _ => "independent of overflow checks.",
    }
}

struct Exec<'a> {
    set: &'a Arc<HonestSet>,
}

impl<'a> Exec<'a> {
    fn input_of(&self, spec: &CaseSpec) -> (Vec<u8>, Vec<&'static str>) {
        let set = self.set;
        let others = |i: usize| set.encodings.get(i).map(|e| e.bytes.clone());
        faults::apply(&set.encodings[spec.src].bytes, &spec.faults, &others)
    }

    fn job(&self, spec: &CaseSpec, input: Vec<u8>) -> Job {
        let enc = &self.set.encodings[spec.dst];
        let entry = &enc.entries[spec.entry];
        Job {
            dec: entry.dec.clone(),
            input,
        }
    }

    fn decode_one(&self, spec: &CaseSpec, input: &[u8]) -> Obs {
        exec::run_jobs(vec![self.job(spec, input.to_vec())])
            .pop()
            .expect("one observation")
    }

    fn is_fault_free(&self, spec: &CaseSpec, input: &[u8]) -> bool {
        spec.src == spec.dst && input == self.set.encodings[spec.src].bytes.as_slice()
    }

    /// Shrink the fault list, then the input (shortest prefix with the same clause and site).
    fn minimise(&self, spec: &CaseSpec, j: &Judged) -> (CaseSpec, Vec<u8>) {
        let same = |obs: &Obs, len: usize, fault_free: bool| {
            judge(fault_free, len, obs)
                .map(|x| x.clause == j.clause && x.location == j.location)
                .unwrap_or(false)
        };
        let mut spec = spec.clone();
        if spec.faults.len() > 1 {
            let base = spec.clone();
            spec.faults = sim_core::ddmin::ddmin(
                spec.faults.clone(),
                |cand| {
                    let mut s = base.clone();
                    s.faults = cand.to_vec();
                    let (input, _) = self.input_of(&s);
                    let obs = self.decode_one(&s, &input);
                    same(&obs, input.len(), self.is_fault_free(&s, &input))
                },
                if j.clause == "unbounded-loop" { 6 } else { 40 },
            );
        }
        let (input, _) = self.input_of(&spec);
        if matches!(j.clause, "roundtrip" | "unbounded-loop" | "process-death") {
            // a prefix scan would pay one time-out / one dead child per candidate
            return (spec, input);
        }
        // shortest violating prefix, scanned in chunks (violations sit in the first bytes)
        let mut p = 0usize;
        while p < input.len() {
            let end = (p + 256).min(input.len());
            let jobs: Vec<Job> = (p..end)
                .map(|l| self.job(&spec, input[..l].to_vec()))
                .collect();
            let obs = exec::run_jobs(jobs);
            for (k, o) in obs.iter().enumerate() {
                if same(o, p + k, false) {
                    return (spec, input[..p + k].to_vec());
                }
            }
            p = end;
        }
        (spec, input)
    }
}

fn state_hash(
    ty: &str,
    form: &str,
    entry: &str,
    fired: &[&'static str],
    class: &str,
    misdirected: bool,
) -> u64 {
    let mut f = Fingerprint::new();
    f.add(ty).add(form).add(entry);
    let mut kinds: Vec<&str> = fired.to_vec();
    kinds.sort_unstable();
    for k in kinds {
        f.add(k);
    }
    if misdirected {
        f.add("misdirected");
    }
    f.add(class);
    f.value()
}

/// The complete single-fault enumeration for one honest encoding.
fn enumerate_primary(set: &HonestSet, e: usize) -> Vec<Vec<Fault>> {
    let enc = &set.encodings[e];
    let len = enc.bytes.len();
    let mut out: Vec<Vec<Fault>> = Vec::new();
    // every single-bit flip in the first 64 bytes and in every structurally located byte
    let mut flip_bytes: Vec<usize> = (0..len.min(64)).collect();
    flip_bytes.extend(enc.hot.iter().copied());
    flip_bytes.sort_unstable();
    flip_bytes.dedup();
    for b in &flip_bytes {
        for bit in 0..8 {
            out.push(vec![Fault::Flip { bit: b * 8 + bit }]);
        }
    }
    // stuck-at overwrites of every structurally located byte
    for b in &enc.hot {
        for val in [0x00u8, 0xff, 0x7f, 0x80] {
            out.push(vec![Fault::Set { off: *b, val }]);
        }
    }
    // every truncation point
    for l in 0..len {
        out.push(vec![Fault::Trunc { len: l }]);
    }
    // every 16-byte block lost (zeros) or erased (ones)
    let mut off = 0;
    while off < len {
        out.push(vec![Fault::Fill {
            off,
            len: 16,
            val: 0,
        }]);
        out.push(vec![Fault::Fill {
            off,
            len: 16,
            val: 0xff,
        }]);
        off += 16;
    }
    // every located length / count / size field overwritten by every boundary value of its width
    for w in &enc.words {
        for val in boundary_values(w.width) {
            out.push(vec![Fault::Word {
                off: w.off,
                width: w.width,
                val,
                enc: w.enc,
                hex: w.hex,
            }]);
        }
    }
    out
}

fn random_fault(rng: &mut Rng, set: &HonestSet, src: usize, allow_structural: bool) -> Fault {
    let enc = &set.encodings[src];
    let len = enc.bytes.len().max(1);
    let pick_off = |rng: &mut Rng| -> usize {
        if !enc.hot.is_empty() && rng.chance(0.4) {
            *rng.pick(&enc.hot)
        } else {
            rng.index(len)
        }
    };
    if !enc.words.is_empty() && rng.chance(0.3) {
        // word overwrite of a located field: boundary value, or (1 in 4) a stale word taken
        // from any honest encoding of the run
        let w = *rng.pick(&enc.words);
        let values = boundary_values(w.width);
        let val = if rng.chance(0.75) {
            *rng.pick(&values)
        } else {
            // stale content: the word is read from a random place of a random honest encoding
            let other = &set.encodings[rng.index(set.encodings.len())].bytes;
            let at = rng.index(other.len().max(1));
            let mut word = [0u8; 8];
            for (i, b) in other.iter().skip(at).take(8).enumerate() {
                word[i] = *b;
            }
            let bits = (w.width * 8).min(64) as u32;
            let any = u64::from_be_bytes(word);
            if bits == 64 { any } else { any >> (64 - bits) }
        };
        return Fault::Word {
            off: w.off,
            width: w.width,
            val,
            enc: w.enc,
            hex: w.hex,
        };
    }
    let w: &[u32] = if allow_structural {
        &[30, 15, 12, 12, 8, 14, 9]
    } else {
        &[40, 20, 15, 25, 0, 0, 0]
    };
    match rng.weighted(w) {
        0 => Fault::Flip {
            bit: pick_off(rng) * 8 + rng.index(8),
        },
        1 => Fault::Set {
            off: pick_off(rng),
            val: *rng.pick(&[0x00u8, 0xff, 0x7f, 0x80, 0x01, 0x20, 0x30, 0x66]),
        },
        2 => Fault::Trunc {
            len: rng.index(len),
        },
        3 => Fault::Fill {
            off: pick_off(rng),
            len: *rng.pick(&[8usize, 16, 32, 64, 512]),
            val: if rng.chance(0.5) { 0 } else { 0xff },
        },
        4 => Fault::DupTail {
            from: rng.index(len),
        },
        5 => {
            // splice with another honest encoding: same form preferred (misframed stream of
            // messages of one kind), any encoding otherwise
            let same_form: Vec<usize> = (0..set.encodings.len())
                .filter(|i| set.encodings[*i].form == enc.form && *i != src)
                .collect();
            let other = if !same_form.is_empty() && rng.chance(0.7) {
                *rng.pick(&same_form)
            } else {
                rng.index(set.encodings.len())
            };
            let olen = set.encodings[other].bytes.len();
            Fault::Splice {
                other,
                keep: rng.index(len + 1),
                from: rng.index(olen + 1),
            }
        }
        _ => Fault::Concat {
            other: rng.index(set.encodings.len()),
        },
    }
}

pub struct WireEngine;

struct RunOutput {
    report: RunReport,
}

fn faulty_ordinal(run: u64) -> u64 {
    // runs with run % 5 == 4 are fault-free; ordinal among the fault-injecting ones
    run - (run + 1) / 5
}

impl WireEngine {
    fn execute(&self, ctx: &RunCtx) -> RunOutput {
        let mut report = RunReport::new(ctx.run);
        let mut rng = Rng::for_run(ctx.seed, PROPERTY, ctx.run);
        let scale: usize = match ctx.tier {
            Tier::Quick => 1,
            Tier::Thorough => 4,
        };
        let fault_free_run = ctx.run % 5 == 4;
        let n_sets = if fault_free_run { 3 } else { 1 };
        let mut digest = Fingerprint::new();
        let mut states: Vec<u64> = Vec::new();
        // (clause, finding, location) -> (count, first case document, first detail)
        let mut groups: BTreeMap<(String, Option<String>, String), (u64, Value, String)> =
            BTreeMap::new();
        let mut sample_cases: Vec<Value> = Vec::new();
        let mut cfgs: Vec<HonestCfg> = Vec::new();
        let mut fault_fired = false;

        for set_index in 0..n_sets {
            let cfg = HonestCfg::generate(&mut rng.fork("cfg"));
            let set = Arc::new(HonestSet::build(&cfg));
            cfgs.push(cfg.clone());
            let ex = Exec { set: &set };
            let n = set.encodings.len();
            let mut specs: Vec<CaseSpec> = Vec::new();

            // (1) fault-free round trip of every encoding through every entry of its form
            for (e, enc) in set.encodings.iter().enumerate() {
                for en in 0..enc.entries.len() {
                    specs.push(CaseSpec {
                        src: e,
                        dst: e,
                        entry: en,
                        faults: vec![],
                    });
                }
            }
            if !fault_free_run {
                // (2) the complete enumeration for this run's primary encoding
                let primary = (faulty_ordinal(ctx.run) % n as u64) as usize;
                report.hit(&format!("primary:{}", set.encodings[primary].id()));
                for faults in enumerate_primary(&set, primary) {
                    for en in 0..set.encodings[primary].entries.len() {
                        specs.push(CaseSpec {
                            src: primary,
                            dst: primary,
                            entry: en,
                            faults: faults.clone(),
                        });
                    }
                }
                // (3) seeded single faults anywhere in any encoding
                let mut r = rng.fork("single");
                for _ in 0..150 * scale {
                    let src = r.index(n);
                    let entry = r.index(set.encodings[src].entries.len());
                    let f = random_fault(&mut r, &set, src, false);
                    specs.push(CaseSpec {
                        src,
                        dst: src,
                        entry,
                        faults: vec![f],
                    });
                }
                // (4) seeded multi-fault cases (2-4 faults; splices, duplication, concatenation)
                let mut r = rng.fork("multi");
                for _ in 0..200 * scale {
                    let src = r.index(n);
                    let entry = r.index(set.encodings[src].entries.len());
                    let k = r.range(2, 4) as usize;
                    let faults: Vec<Fault> = (0..k)
                        .map(|_| random_fault(&mut r, &set, src, true))
                        .collect();
                    specs.push(CaseSpec {
                        src,
                        dst: src,
                        entry,
                        faults,
                    });
                }
                // (5) misdirected delivery: an honest (or once-damaged) encoding reaches the
                // decoder of another type / form
                let mut r = rng.fork("misdirect");
                for _ in 0..60 * scale {
                    let src = r.index(n);
                    let mut dst = r.index(n);
                    if dst == src {
                        dst = (dst + 1) % n;
                    }
                    let entry = r.index(set.encodings[dst].entries.len());
                    let faults = if r.chance(0.5) {
                        vec![]
                    } else {
                        vec![random_fault(&mut r, &set, src, false)]
                    };
                    specs.push(CaseSpec {
                        src,
                        dst,
                        entry,
                        faults,
                    });
                }
            }

            // execute in chunks
            let mut executed = 0usize;
            for chunk in specs.chunks(1024) {
                let mut inputs: Vec<(Vec<u8>, Vec<&'static str>)> = Vec::with_capacity(chunk.len());
                let mut jobs = Vec::with_capacity(chunk.len());
                for spec in chunk {
                    let (input, fired) = ex.input_of(spec);
                    jobs.push(ex.job(spec, input.clone()));
                    inputs.push((input, fired));
                }
                let observations = exec::run_jobs(jobs);
                executed += observations.len();
                let hang_stop = observations.len() < chunk.len();
                for ((spec, (input, fired)), obs) in
                    chunk.iter().zip(inputs.iter()).zip(observations.iter())
                {
                    let src = &set.encodings[spec.src];
                    let dst = &set.encodings[spec.dst];
                    let entry = &dst.entries[spec.entry];
                    let fault_free = ex.is_fault_free(spec, input);
                    let misdirected = spec.src != spec.dst;
                    report.hit("cases");
                    report.count("sim_bytes_decoded", input.len() as u64);
                    report.hit(&format!("entry:{}", entry.name));
                    if fault_free {
                        report.hit("cases_fault_free");
                    }
                    for k in fired {
                        report.hit(&format!("fault_{k}"));
                        fault_fired = true;
                    }
                    if misdirected {
                        report.hit("fault_misdirected_delivery");
                        fault_fired = true;
                    }
                    if !fault_free
                        && !misdirected
                        && src.bytes.first() == Some(&1)
                        && input.first() != Some(&1)
                        && !input.is_empty()
                    {
                        report.hit("probe_version_byte_damaged");
                    }
                    let class = outcome_class(&obs.outcome);
                    report.hit(match class {
                        "ok_same" if fault_free => "decode_ok_roundtrip_equal",
                        "ok_same" => "decode_ok_fault_masked",
                        "ok_changed" => "decode_ok_value_changed",
                        "err" => "decode_err",
                        "panic" => "decode_panic",
                        "died" => "decode_process_death",
                        "hung" => "decode_hung",
                        _ => "decode_runaway_allocation",
                    });
                    let st = state_hash(dst.ty, dst.form, entry.name, fired, class, misdirected);
                    states.push(st);
                    digest.add_u64(st);
                    if sample_cases.len() < 6
                        && ctx.want_sample
                        && (!fault_free || sample_cases.is_empty())
                    {
                        sample_cases.push(json!({
                            "type": dst.ty, "form": dst.form, "entry": entry.name,
                            "source": src.id(), "faults": spec.faults, "input_len": input.len(), "outcome": class,
                        }));
                    }
                    let Some(j) = judge(fault_free, input.len(), obs) else {
                        continue;
                    };
                    digest.add(j.clause);
                    if !dst.in_statement {
                        // a decoder of local secrets: outside the statement, reported as a probe
                        report.hit(&format!("probe_outside_statement_{}", j.clause));
                        continue;
                    }
                    report.hit(&format!("violating_cases_{}", j.clause));
                    // no finding is open for this property: nothing is attributed, every violation fails the check
                    let finding: Option<String> = None;
                    let key = (j.clause.to_string(), finding.clone(), j.location.clone());
                    if let Some(g) = groups.get_mut(&key) {
                        g.0 += 1;
                        continue;
                    }
                    // first case of this group in the run: minimise and write it out
                    let (min_spec, min_input) = ex.minimise(spec, &j);
                    let min_obs = ex.decode_one(&min_spec, &min_input);
                    let min_j = judge(
                        ex.is_fault_free(&min_spec, &min_input),
                        min_input.len(),
                        &min_obs,
                    )
                    .unwrap_or(j.clone());
                    let doc = json!({
                        "set": set_index,
                        "type": dst.ty, "form": dst.form, "entry": entry.name,
                        "source": src.id(),
                        "honest_len": src.bytes.len(),
                        "faults": min_spec.faults,
                        "input_hex": hex::encode(&min_input),
                        "input_len": min_input.len(),
                        "original_faults": spec.faults,
                        "original_input_len": input.len(),
                        "clause": j.clause,
                        "finding": finding,
                        "observed": min_j.detail,
                        "largest_single_request": min_obs.stats.max_request,
                        "build_profile_note": release_note(j.clause),
                    });
                    groups.insert(key, (1, doc, min_j.detail));
                }
                if hang_stop {
                    // a decoder hung: the hung case is reported above; every further case could
                    // cost another time-out, so the rest of this value set is not executed
                    report.count("cases_skipped_after_hang", (specs.len() - executed) as u64);
                    break;
                }
            }
        }

        states.sort_unstable();
        states.dedup();
        let mut fp = Fingerprint::new();
        for s in &states {
            fp.add_u64(*s);
        }
        report.fingerprint = fp.value();
        report.states = states;
        report.nontrivial = report.counters.get("cases").copied().unwrap_or(0) > 0
            && (fault_free_run || fault_fired);
        report.hit(if fault_free_run {
            "runs_fault_free"
        } else {
            "runs_fault_injecting"
        });
        report.digest = digest.value();

        let mut case_docs = Vec::new();
        for ((clause, finding, _location), (count, doc, detail)) in &groups {
            report.violations.push(Violation {
                property: PROPERTY.into(),
                clause: clause.clone(),
                detail: format!(
                    "{count} case(s) in this run; first (minimised): {}/{} via {} input={}{} -> {detail}{}",
                    doc["type"].as_str().unwrap_or(""),
                    doc["form"].as_str().unwrap_or(""),
                    doc["entry"].as_str().unwrap_or(""),
                    &doc["input_hex"].as_str().unwrap_or("")[..doc["input_hex"].as_str().unwrap_or("").len().min(96)],
                    if doc["input_hex"].as_str().unwrap_or("").len() > 96 { "..." } else { "" },
                    "",
                ),
                finding: finding.clone(),
            });
            case_docs.push(doc.clone());
        }
        if !case_docs.is_empty() {
            report.replay = Some(json!({"cfgs": cfgs, "cases": case_docs}));
        }
        if ctx.want_sample {
            report.sample = Some(
                json!({"run": ctx.run, "cfg": cfgs[0], "fault_free_run": fault_free_run, "first_cases": sample_cases}),
            );
        }
        RunOutput { report }
    }
}

fn with_scratch<T>(f: impl FnOnce() -> T) -> T {
    // the repository's fixtures write KES / operational-certificate files under the system
    // temp dir: point it at a scratch directory (nothing under /tmp is used)
    let scratch = sim_core::scratch::Scratch::new("wire");
    // SAFETY: decode threads are idle between batches; the fixtures run on this thread
    unsafe { std::env::set_var("TMPDIR", scratch.path()) };
    let out = f();
    drop(scratch);
    out
}

impl Engine for WireEngine {
    fn name(&self) -> &'static str {
        "wire-sim"
    }

    fn plan(&self, property: &str, tier: Tier) -> Option<Plan> {
        if property != PROPERTY {
            return None;
        }
        Some(Plan {
            runs: match tier {
                Tier::Quick => 1100,
                Tier::Thorough => 60_000,
            },
            level: "fault_enumeration",
            rule: "SCOPED claim: inputs are honest encodings (produced by the real STM / mithril-common code from a seeded configuration) passed through a finite sequence of transport / storage faults; arbitrary byte strings, grammar-based generation and coverage-guided mutation are fuzzing and are NOT claimed. One run = one seeded honest value set (keys, registration, signatures, aggregate, certificates, proofs, messages; ~100 encodings: CBOR-v1 bytes, hand-packed legacy bytes, hex of both, JSON-hex, JSON, JSON-string documents, bincode, DMQ frame) + (1) the fault-free round trip of every encoding through every public entry point of its form, (2) for one primary encoding chosen round-robin by run index the COMPLETE single-fault enumeration (every bit flip in the first 64 bytes and in every structurally located version / length / count / header byte incl. nested envelopes, stuck-at overwrites 00/ff/7f/80 of those bytes, every truncation point, zero-fill and ones-fill of every 16-byte block, and WORD OVERWRITE: every structurally located length / count / size field - legacy u64 fields incl. nested ones, the first words of a CBOR encoding where the legacy parsers read their counts, DMQ frame lengths, bincode varints, contiguous CBOR container headers with 1/2/4/8-byte arguments or rewritten to an 8-byte argument, the same fields inside hex text and inside the hex proof of a JSON message; at most 32 fields per encoding - replaced in place by every value of a finite boundary set of its width: 0, 1, 2^k-1 / 2^k / 2^k+1 for k in 7,8,15,16,31,32,60..63, MAX-c for c<=8, floor(MAX/s)+d for |d|<=8, MAX-s+-c and floor((MAX-c)/s)+-2 for the element sizes s = 8..448 the decoders multiply or add with; 300-950 values per field) through every entry point of that encoding, (3) 150 seeded single faults anywhere, (4) 200 seeded 2-4-fault cases incl. tail duplication, splices and concatenation of two honest encodings and (30 % of the draws on encodings with located fields) word overwrites with a boundary value or a stale word read from another honest encoding, (5) 60 misdirected deliveries (an honest or once-damaged encoding handed to a decoder of another type/form); the seeded counts (3)-(5) are x4 in the thorough tier. Every 5th run is fault-free with three value sets. 'evaluations' counts runs, counter 'cases' counts decoder invocations. A run is non-trivial iff at least one decode entry ran and, in fault-injecting runs, at least one fault fired (changed the buffer); distinct = hash of the set of (type, form, entry, fault kinds fired, outcome class) tuples of the run; abstract states = those tuples.".into(),
            assumptions: vec![
                "fault model: bit flip, byte overwrite, word overwrite (a misdirected or stale word-sized write that lands on a located length / count / size field of the honest encoding; the buffer length never changes; values from a finite boundary set or taken from another honest encoding - still an honest encoding damaged at a located field, not an arbitrary byte string), truncation, constant fill of a block (0x00 lost sector, 0xff erased flash page), tail duplication, splice / concatenation of honest encodings, misdirected delivery, applied to the binary, hex and JSON text forms; at most 4 faults per case".into(),
                "text handed to &str entry points is obtained with String::from_utf8_lossy (a lossy reader); JSON documents are parsed from raw bytes (serde_json::from_slice) as the HTTP stack does".into(),
                "overflow checks and debug assertions are ON (sim profile): an arithmetic overflow that a default release build would wrap silently is reported as a violation because the statement forbids it; each replay file says which it is".into(),
                "allocation monitor: largest single request <= 64 x input length + 1 MiB and peak live bytes <= 256 x input length + 8 MiB per decode; a request above 256 MiB is never served (the requesting thread is parked and the case reported), so Vec::with_capacity and vec![0; n] are observed alike".into(),
                "decodes run in forked child processes: an abort / stack overflow / kill of the child is reported as process-death for the exact case; a decode that does not return within 30 s wall clock (5 s once a hang has been seen in the process) is killed and reported as unbounded-loop (the only wall-clock dependency; a case takes < 10 ms); inputs are < 128 KiB".into(),
                "built without the future_snark feature (the default of every node crate): SNARK proof / key decoders are not compiled and not covered".into(),
                "decoders only: verify() of a decoded-but-damaged proof or signature is not called".into(),
                "ProtocolInitializer (signer-local secret) decoders are exercised as probes only (counters probe_outside_statement_*), never as violations: the statement is about data supplied by another node".into(),
            ],
            real_components: vec![
                "mithril-stm: Initializer::new, KeyRegistration, Signer::sign, Clerk::aggregate_signatures_with_type; from_bytes / from_bytes_legacy / serde of SingleSignature, SingleSignatureWithRegisteredParty, AggregateSignature, ConcatenationProof, MerkleBatchPath, ClosedRegistrationEntry, MerkleTreeBatchCommitment, AggregateVerificationKeyForConcatenation, Parameters, BLS keys + PoP".into(),
                "mithril-common: ProtocolKey (from_bytes, from_bytes_hex, from_json_hex, TryFrom<&str> with both fallback orders, serde), TryFromBytes impls (binary.rs), OpCert / KES signature / ed25519 codecs, RegisterSignatureMessageDmq::try_from_bytes_vec, SignedEntityType bytes, CertificateMessage -> Certificate, RegisterSignerMessage / RegisterSignatureMessageHttp / CardanoTransactionsProofsMessage / V2 transaction and block proof messages and their TryFrom conversions, entities::Signer / SignerWithStake / SingleSignature serde; MithrilFixtureBuilder fixtures".into(),
                "mithril-merkle-tree: MKProof / MKMapProof bincode from_bytes and serde".into(),
            ],
            stub_components: vec![
                "none (the field-by-field conversions of mithril-aggregator's FromRegisterSignerAdapter / FromRegisterSingleSignatureAdapter are reproduced in the harness with the same ProtocolKey::try_from calls, to avoid linking the aggregator's global allocator)".into(),
            ],
            // decoders never run in the worker itself (forked children, see exec.rs): a dead
            // worker is a harness problem, never evidence against the property
            worker_death_is_violation: false,
            time_cap_s: match tier {
                Tier::Quick => 900,
                Tier::Thorough => 14_400,
            },
        })
    }

    fn run(&self, ctx: &RunCtx) -> RunReport {
        with_scratch(|| self.execute(ctx).report)
    }

    fn replay(&self, doc: &Value) -> RunReport {
        with_scratch(|| {
            let mut report = RunReport::new(0);
            let cfgs: Vec<HonestCfg> = doc
                .get("cfgs")
                .and_then(|c| serde_json::from_value(c.clone()).ok())
                .unwrap_or_else(|| vec![HonestCfg::default_small()]);
            let sets: Vec<Arc<HonestSet>> =
                cfgs.iter().map(|c| Arc::new(HonestSet::build(c))).collect();
            let empty = Vec::new();
            if doc.to_string().contains("\"unbounded-loop\"") {
                exec::expect_hang();
            }
            for case in doc.get("cases").and_then(Value::as_array).unwrap_or(&empty) {
                let set = &sets[(case["set"].as_u64().unwrap_or(0) as usize).min(sets.len() - 1)];
                let ex = Exec { set };
                let ty = case["type"].as_str().unwrap_or("");
                let form = case["form"].as_str().unwrap_or("");
                let entry_name = case["entry"].as_str().unwrap_or("");
                let Some(dst) = set
                    .encodings
                    .iter()
                    .position(|e| e.ty == ty && e.form == form)
                else {
                    eprintln!("replay: no encoding {ty}/{form}");
                    std::process::exit(2)
                };
                let Some(entry) = set.encodings[dst]
                    .entries
                    .iter()
                    .position(|e| e.name == entry_name)
                else {
                    eprintln!("replay: no entry {entry_name} for {ty}/{form}");
                    std::process::exit(2)
                };
                let Ok(input) = hex::decode(case["input_hex"].as_str().unwrap_or("")) else {
                    eprintln!("replay: bad input_hex");
                    std::process::exit(2)
                };
                let spec = CaseSpec {
                    src: dst,
                    dst,
                    entry,
                    faults: vec![],
                };
                let obs = ex.decode_one(&spec, &input);
                let fault_free = input == set.encodings[dst].bytes;
                println!(
                    "replay case {ty}/{form} via {entry_name}: input {} bytes -> {:?}, largest request {} bytes",
                    input.len(),
                    obs.outcome,
                    obs.stats.max_request
                );
                if let Some(j) = judge(fault_free, input.len(), &obs) {
                    let finding: Option<String> = None;
                    report.violations.push(Violation {
                        property: PROPERTY.into(),
                        clause: j.clause.into(),
                        detail: format!(
                            "{ty}/{form} via {entry_name}: {} ({})",
                            j.detail,
                            release_note(j.clause)
                        ),
                        finding,
                    });
                }
            }
            report
        })
    }
}
