//! Counting global allocator (monitor 2 of C05).
//!
//! While a decode is being monitored on the current thread (`begin` .. `end`) every request is
//! recorded: largest single request, live bytes, peak live bytes, number of requests.
//! A monitored request above `CEILING` is *not served and not answered with null* (null makes
//! `handle_alloc_error` abort the whole process, which is what a production node would suffer):
//! the request is recorded in a process-wide slot, the waiting supervisor is woken and the
//! requesting thread is parked for ever. The supervisor (exec.rs) reports the case as
//! `runaway-allocation` and continues the batch on a fresh thread. Nothing here reads a clock
//! or depends on thread timing: the parked state is reached or not as a pure function of the
//! decoder's input.
use std::alloc::{GlobalAlloc, Layout, System};
use std::cell::Cell;
use std::sync::{Condvar, Mutex};

/// Hard ceiling for one monitored request. Above it a real process is considered lost
/// (abort through `handle_alloc_error`, or the OOM killer once the memory is touched).
pub const CEILING: usize = 256 << 20;

thread_local! {
    static ON: Cell<bool> = const { Cell::new(false) };
    static MAX_REQ: Cell<usize> = const { Cell::new(0) };
    static LIVE: Cell<isize> = const { Cell::new(0) };
    static PEAK: Cell<isize> = const { Cell::new(0) };
    static COUNT: Cell<u64> = const { Cell::new(0) };
}

#[derive(Default)]
pub struct Supervision {
    /// the monitored thread finished its batch
    pub finished: bool,
    /// the monitored thread asked for this many bytes (> CEILING) and is parked for ever
    pub parked: Option<usize>,
}

pub static SUPERVISION: Mutex<Supervision> = Mutex::new(Supervision { finished: false, parked: None });
pub static SUPERVISION_CV: Condvar = Condvar::new();

pub struct Counting;

#[inline]
fn note(size: usize) -> bool {
    // returns false when the request must not be served
    let on = ON.try_with(|c| c.get()).unwrap_or(false);
    if !on {
        return true;
    }
    let _ = MAX_REQ.try_with(|c| {
        if size > c.get() {
            c.set(size)
        }
    });
    let _ = COUNT.try_with(|c| c.set(c.get() + 1));
    size <= CEILING
}

#[inline]
fn live(delta: isize) {
    let on = ON.try_with(|c| c.get()).unwrap_or(false);
    if !on {
        return;
    }
    let _ = LIVE.try_with(|c| {
        let v = c.get() + delta;
        c.set(v);
        let _ = PEAK.try_with(|p| {
            if v > p.get() {
                p.set(v)
            }
        });
    });
}

#[cold]
fn park_for_ever(size: usize) -> ! {
    // stop monitoring on this thread first: nothing below may be attributed to the decoder
    let _ = ON.try_with(|c| c.set(false));
    {
        let mut g = SUPERVISION.lock().unwrap_or_else(|e| e.into_inner());
        g.parked = Some(size);
        SUPERVISION_CV.notify_all();
    }
    loop {
        std::thread::sleep(std::time::Duration::from_secs(1 << 20));
    }
}

unsafe impl GlobalAlloc for Counting {
    unsafe fn alloc(&self, layout: Layout) -> *mut u8 {
        if !note(layout.size()) {
            park_for_ever(layout.size());
        }
        let p = unsafe { System.alloc(layout) };
        if !p.is_null() {
            live(layout.size() as isize);
        }
        p
    }
    unsafe fn alloc_zeroed(&self, layout: Layout) -> *mut u8 {
        if !note(layout.size()) {
            park_for_ever(layout.size());
        }
        let p = unsafe { System.alloc_zeroed(layout) };
        if !p.is_null() {
            live(layout.size() as isize);
        }
        p
    }
    unsafe fn dealloc(&self, ptr: *mut u8, layout: Layout) {
        live(-(layout.size() as isize));
        unsafe { System.dealloc(ptr, layout) }
    }
    unsafe fn realloc(&self, ptr: *mut u8, layout: Layout, new_size: usize) -> *mut u8 {
        if !note(new_size) {
            park_for_ever(new_size);
        }
        let p = unsafe { System.realloc(ptr, layout, new_size) };
        if !p.is_null() {
            live(new_size as isize - layout.size() as isize);
        }
        p
    }
}

#[derive(Clone, Copy, Debug, Default)]
pub struct AllocStats {
    pub max_request: usize,
    pub peak_live: usize,
    pub requests: u64,
}

/// Start monitoring the current thread.
pub fn begin() {
    MAX_REQ.with(|c| c.set(0));
    LIVE.with(|c| c.set(0));
    PEAK.with(|c| c.set(0));
    COUNT.with(|c| c.set(0));
    ON.with(|c| c.set(true));
}

/// Stop monitoring the current thread and return what was seen.
pub fn end() -> AllocStats {
    ON.with(|c| c.set(false));
    AllocStats {
        max_request: MAX_REQ.with(|c| c.get()),
        peak_live: PEAK.with(|c| c.get()).max(0) as usize,
        requests: COUNT.with(|c| c.get()),
    }
}

/// Used by the panic hook: whatever the hook allocates is not the decoder's.
pub fn pause() {
    let _ = ON.try_with(|c| c.set(false));
}
