//! Counting global allocator (monitor 2 of C05).
//!
//! While a decode is being monitored on the current thread (`begin` .. `end`) every request is
//! recorded: largest single request, live bytes, peak live bytes, number of requests.
//! A monitored request above `CEILING` is *not served and not answered with null* (null makes
//! `handle_alloc_error` abort the process, which is what a production node would suffer):
//! decodes run in a forked child (exec.rs); the allocator writes a `R <bytes>` record to the
//! supervising parent and `_exit`s the child. The parent reports the case as
//! `runaway-allocation` and forks again for the remaining cases. Nothing here reads a clock or
//! depends on timing: the record is written or not as a pure function of the decoder's input.
use std::alloc::{GlobalAlloc, Layout, System};
use std::cell::Cell;

/// Hard ceiling for one monitored request. Above it a real process is considered lost
/// (abort through `handle_alloc_error`, or the OOM killer once the memory is touched).
pub const CEILING: usize = 256 << 20;

thread_local! {
    static ON: Cell<bool> = const { Cell::new(false) };
    static MAX_REQ: Cell<usize> = const { Cell::new(0) };
    static LIVE: Cell<isize> = const { Cell::new(0) };
    static PEAK: Cell<isize> = const { Cell::new(0) };
    static COUNT: Cell<u64> = const { Cell::new(0) };
}

/// write end of the pipe to the supervising parent (set in the forked decode child)
pub static CHILD_FD: std::sync::atomic::AtomicI32 = std::sync::atomic::AtomicI32::new(-1);

/// `WIRE_SIM_SERVE_ALL=1` (replay only): hand every request to the system allocator, to show
/// what an unmonitored process does with the same input (abort in `handle_alloc_error`).
pub static SERVE_ALL: std::sync::atomic::AtomicBool = std::sync::atomic::AtomicBool::new(false);

pub struct Counting;

#[inline]
fn note(size: usize) -> bool {
    // returns false when the request must not be served
    let on = ON.try_with(|c| c.get()).unwrap_or(false);
    if !on {
        return true;
    }
    let _ = MAX_REQ.try_with(|c| {
        if size > c.get() {
            c.set(size)
        }
    });
    let _ = COUNT.try_with(|c| c.set(c.get() + 1));
    size <= CEILING || SERVE_ALL.load(std::sync::atomic::Ordering::Relaxed)
}

#[inline]
fn live(delta: isize) {
    let on = ON.try_with(|c| c.get()).unwrap_or(false);
    if !on {
        return;
    }
    let _ = LIVE.try_with(|c| {
        let v = c.get() + delta;
        c.set(v);
        let _ = PEAK.try_with(|p| {
            if v > p.get() {
                p.set(v)
            }
        });
    });
}

/// A monitored request above the ceiling: tell the parent and leave. Runs inside the
/// allocator, so it must not allocate: the record is formatted into a stack buffer.
#[cold]
fn park_for_ever(size: usize) -> ! {
    let _ = ON.try_with(|c| c.set(false));
    let mut buf = [0u8; 32];
    let mut n = buf.len();
    n -= 1;
    buf[n] = b'\n';
    let mut v = size;
    loop {
        n -= 1;
        buf[n] = b'0' + (v % 10) as u8;
        v /= 10;
        if v == 0 {
            break;
        }
    }
    n -= 1;
    buf[n] = b'\t';
    n -= 1;
    buf[n] = b'R';
    let fd = CHILD_FD.load(std::sync::atomic::Ordering::SeqCst);
    if fd >= 0 {
        let mut data = &buf[n..];
        while !data.is_empty() {
            let w = unsafe { libc::write(fd, data.as_ptr() as *const libc::c_void, data.len()) };
            if w <= 0 {
                break;
            }
            data = &data[w as usize..];
        }
        unsafe { libc::_exit(0) }
    }
    // not in a decode child (cannot happen: monitoring is only switched on there)
    unsafe { libc::abort() }
}

unsafe impl GlobalAlloc for Counting {
    unsafe fn alloc(&self, layout: Layout) -> *mut u8 {
        if !note(layout.size()) {
            park_for_ever(layout.size());
        }
        let p = unsafe { System.alloc(layout) };
        if !p.is_null() {
            live(layout.size() as isize);
        }
        p
    }
    unsafe fn alloc_zeroed(&self, layout: Layout) -> *mut u8 {
        if !note(layout.size()) {
            park_for_ever(layout.size());
        }
        let p = unsafe { System.alloc_zeroed(layout) };
        if !p.is_null() {
            live(layout.size() as isize);
        }
        p
    }
    unsafe fn dealloc(&self, ptr: *mut u8, layout: Layout) {
        live(-(layout.size() as isize));
        unsafe { System.dealloc(ptr, layout) }
    }
    unsafe fn realloc(&self, ptr: *mut u8, layout: Layout, new_size: usize) -> *mut u8 {
        if !note(new_size) {
            park_for_ever(new_size);
        }
        let p = unsafe { System.realloc(ptr, layout, new_size) };
        if !p.is_null() {
            live(new_size as isize - layout.size() as isize);
        }
        p
    }
}

#[derive(Clone, Copy, Debug, Default)]
pub struct AllocStats {
    pub max_request: usize,
    pub peak_live: usize,
    pub requests: u64,
}

/// Start monitoring the current thread.
pub fn begin() {
    MAX_REQ.with(|c| c.set(0));
    LIVE.with(|c| c.set(0));
    PEAK.with(|c| c.set(0));
    COUNT.with(|c| c.set(0));
    ON.with(|c| c.set(true));
}

/// Stop monitoring the current thread and return what was seen.
pub fn end() -> AllocStats {
    ON.with(|c| c.set(false));
    AllocStats {
        max_request: MAX_REQ.with(|c| c.get()),
        peak_live: PEAK.with(|c| c.get()).max(0) as usize,
        requests: COUNT.with(|c| c.get()),
    }
}

/// Used by the panic hook: whatever the hook allocates is not the decoder's.
pub fn pause() {
    let _ = ON.try_with(|c| c.set(false));
}
