//! Monitored execution of decode cases in forked child processes.
//!
//! A batch of cases is executed by a child forked from the worker (copy-on-write: the honest
//! value set and the decoder closures are simply there). Around each decode: `catch_unwind`
//! (monitor 1) and the counting allocator (monitor 2). The child streams one record per finished
//! case through a pipe, so whatever happens to it the parent knows the case in flight:
//!  * a request above the allocator ceiling: the allocator writes a record and `_exit`s the
//!    child (a real process would abort in `handle_alloc_error`) -> `Outcome::Runaway`;
//!  * the child dies (abort, stack overflow, SIGSEGV ...) -> `Outcome::Died`;
//!  * no record for `WATCHDOG_S` seconds (monitor 3) -> the child is killed -> `Outcome::Hung`.
//! In each case the parent forks again for the remaining cases. Nothing leaks into the worker.
//! The time-out is the only wall-clock value; it influences results only when a decoder really
//! does not return (a case takes < 10 ms; the limit is 30 s, 5 s once a hang has been seen in
//! the process or when re-playing a recorded hang).
use std::cell::{Cell, RefCell};
use std::panic::AssertUnwindSafe;
use std::sync::Arc;
use std::sync::atomic::{AtomicBool, Ordering};

use crate::alloc::{self, AllocStats};

pub const WATCHDOG_S: i32 = 30;
/// once a decoder has been seen hanging in this process, later cases get a short limit
const WATCHDOG_AFTER_HANG_S: i32 = 5;

/// What a decoder closure returns: `Ok(equal_to_the_honest_value)` or the error text.
pub type Dec = Result<bool, String>;
pub type DecFn = Arc<dyn Fn(&[u8]) -> Dec + Send + Sync>;

#[derive(Clone, Debug)]
pub enum Outcome {
    Ok {
        equal: bool,
    },
    Err(String),
    Panic {
        location: String,
        message: String,
    },
    /// one request above the allocator ceiling (bytes)
    Runaway {
        bytes: usize,
    },
    /// the process executing the decode died (how)
    Died {
        how: String,
    },
    /// the decode did not return within the watchdog limit (seconds)
    Hung {
        seconds: i32,
    },
}

#[derive(Clone, Debug)]
pub struct Obs {
    pub outcome: Outcome,
    pub stats: AllocStats,
}

pub struct Job {
    pub dec: DecFn,
    pub input: Vec<u8>,
}

thread_local! {
    static LAST_PANIC: RefCell<Option<(String, String)>> = const { RefCell::new(None) };
    static IN_DECODE: Cell<bool> = const { Cell::new(false) };
}

static HANG_SEEN: AtomicBool = AtomicBool::new(false);

/// Re-playing a recorded hang: use the short limit from the start.
pub fn expect_hang() {
    HANG_SEEN.store(true, Ordering::SeqCst);
}

/// Install the panic hook: inside a monitored decode it records location + message and prints
/// nothing; anywhere else it is a panic of the harness itself and is printed.
pub fn install() {
    std::panic::set_hook(Box::new(|info| {
        alloc::pause();
        let location = info
            .location()
            .map(|l| format!("{}:{}:{}", l.file(), l.line(), l.column()))
            .unwrap_or_else(|| "<unknown>".into());
        let message = if let Some(s) = info.payload().downcast_ref::<&str>() {
            s.to_string()
        } else if let Some(s) = info.payload().downcast_ref::<String>() {
            s.clone()
        } else {
            "<non-string panic payload>".into()
        };
        if !IN_DECODE.try_with(|c| c.get()).unwrap_or(false) {
            eprintln!("HARNESS PANIC at {location}: {message}");
        }
        let _ = LAST_PANIC.try_with(|c| *c.borrow_mut() = Some((location, message)));
    }));
}

fn run_one(job: &Job) -> Obs {
    LAST_PANIC.with(|c| *c.borrow_mut() = None);
    let dec = job.dec.clone();
    let input: &[u8] = &job.input;
    IN_DECODE.with(|c| c.set(true));
    alloc::begin();
    let r = std::panic::catch_unwind(AssertUnwindSafe(|| dec(input)));
    let stats = alloc::end();
    IN_DECODE.with(|c| c.set(false));
    let outcome = match r {
        Ok(Ok(equal)) => Outcome::Ok { equal },
        Ok(Err(e)) => Outcome::Err(e),
        Err(_) => {
            let (location, message) = LAST_PANIC
                .with(|c| c.borrow_mut().take())
                .unwrap_or_else(|| ("<unknown>".into(), "<unknown>".into()));
            Outcome::Panic { location, message }
        }
    };
    Obs { outcome, stats }
}

fn clean(s: &str) -> String {
    s.replace(['\t', '\n', '\r'], " ")
}

fn encode(obs: &Obs) -> String {
    let s = &obs.stats;
    let head = format!("{}\t{}\t{}", s.max_request, s.peak_live, s.requests);
    match &obs.outcome {
        Outcome::Ok { equal } => format!("K\t{head}\t{}\n", *equal as u8),
        Outcome::Err(e) => format!("E\t{head}\t{}\n", clean(e)),
        Outcome::Panic { location, message } => {
            format!("P\t{head}\t{}\t{}\n", clean(location), clean(message))
        }
        // never produced by the child's normal path
        Outcome::Runaway { bytes } => format!("R\t{bytes}\n"),
        Outcome::Died { .. } | Outcome::Hung { .. } => String::new(),
    }
}

fn decode_record(line: &str) -> Option<Obs> {
    let f: Vec<&str> = line.split('\t').collect();
    if f.first() == Some(&"R") {
        let bytes: usize = f.get(1)?.parse().ok()?;
        return Some(Obs {
            outcome: Outcome::Runaway { bytes },
            stats: AllocStats {
                max_request: bytes,
                peak_live: 0,
                requests: 0,
            },
        });
    }
    let stats = AllocStats {
        max_request: f.get(1)?.parse().ok()?,
        peak_live: f.get(2)?.parse().ok()?,
        requests: f.get(3)?.parse().ok()?,
    };
    let outcome = match *f.first()? {
        "K" => Outcome::Ok {
            equal: *f.get(4)? == "1",
        },
        "E" => Outcome::Err(f.get(4)?.to_string()),
        "P" => Outcome::Panic {
            location: f.get(4)?.to_string(),
            message: f.get(5)?.to_string(),
        },
        _ => return None,
    };
    Some(Obs { outcome, stats })
}

fn write_all(fd: i32, mut data: &[u8]) {
    while !data.is_empty() {
        let n = unsafe { libc::write(fd, data.as_ptr() as *const libc::c_void, data.len()) };
        if n < 0 {
            if std::io::Error::last_os_error().kind() == std::io::ErrorKind::Interrupted {
                continue;
            }
            unsafe { libc::_exit(3) };
        }
        data = &data[n as usize..];
    }
}

fn describe_status(status: i32) -> String {
    if libc::WIFSIGNALED(status) {
        let sig = libc::WTERMSIG(status);
        let name = match sig {
            libc::SIGABRT => {
                "SIGABRT (abort: failed allocation, stack overflow, double panic or explicit abort)"
            }
            libc::SIGSEGV => "SIGSEGV (stack overflow or invalid memory access)",
            libc::SIGBUS => "SIGBUS",
            libc::SIGILL => "SIGILL",
            libc::SIGFPE => "SIGFPE",
            libc::SIGKILL => "SIGKILL (killed, e.g. by the OOM killer)",
            _ => "signal",
        };
        format!("killed by signal {sig} {name}")
    } else if libc::WIFEXITED(status) {
        format!("exited with status {}", libc::WEXITSTATUS(status))
    } else {
        format!("wait status {status}")
    }
}

fn harness_fail(msg: &str) -> ! {
    eprintln!("HARNESS-ERROR: {msg}: {}", std::io::Error::last_os_error());
    std::process::exit(2)
}

/// Execute all jobs, in order, under the monitors. The result list is a pure function of the
/// jobs (see the module comment for the one exception). It is shorter than the job list only
/// when a case hung: that case is then the last element.
pub fn run_jobs(jobs: Vec<Job>) -> Vec<Obs> {
    let mut results: Vec<Obs> = Vec::with_capacity(jobs.len());
    while results.len() < jobs.len() {
        let start = results.len();
        let mut fds = [0i32; 2];
        if unsafe { libc::pipe(fds.as_mut_ptr()) } != 0 {
            harness_fail("pipe");
        }
        let pid = unsafe { libc::fork() };
        if pid < 0 {
            harness_fail("fork");
        }
        if pid == 0 {
            // ---- child: decode, stream records, never return
            unsafe { libc::close(fds[0]) };
            alloc::CHILD_FD.store(fds[1], Ordering::SeqCst);
            for job in jobs.iter().skip(start) {
                let obs = run_one(job);
                write_all(fds[1], encode(&obs).as_bytes());
            }
            unsafe { libc::_exit(0) };
        }
        // ---- parent: collect records
        unsafe { libc::close(fds[1]) };
        let mut pending: Vec<u8> = Vec::new();
        let mut buf = [0u8; 65536];
        let mut hung = None;
        'read: loop {
            let limit = if HANG_SEEN.load(Ordering::SeqCst) {
                WATCHDOG_AFTER_HANG_S
            } else {
                WATCHDOG_S
            };
            let mut pfd = libc::pollfd {
                fd: fds[0],
                events: libc::POLLIN,
                revents: 0,
            };
            let rc = unsafe { libc::poll(&mut pfd, 1, limit * 1000) };
            if rc < 0 {
                if std::io::Error::last_os_error().kind() == std::io::ErrorKind::Interrupted {
                    continue;
                }
                harness_fail("poll");
            }
            if rc == 0 {
                hung = Some(limit);
                break 'read;
            }
            let n = unsafe { libc::read(fds[0], buf.as_mut_ptr() as *mut libc::c_void, buf.len()) };
            if n < 0 {
                if std::io::Error::last_os_error().kind() == std::io::ErrorKind::Interrupted {
                    continue;
                }
                harness_fail("read");
            }
            if n == 0 {
                break 'read;
            }
            pending.extend_from_slice(&buf[..n as usize]);
            while let Some(nl) = pending.iter().position(|b| *b == b'\n') {
                let line: Vec<u8> = pending.drain(..=nl).collect();
                let text = String::from_utf8_lossy(&line[..line.len() - 1]);
                match decode_record(&text) {
                    Some(obs) => results.push(obs),
                    None => {
                        eprintln!("HARNESS-ERROR: unreadable record from the decode child: {text}");
                        std::process::exit(2)
                    }
                }
            }
        }
        unsafe { libc::close(fds[0]) };
        if hung.is_some() {
            unsafe { libc::kill(pid, libc::SIGKILL) };
        }
        let mut status = 0i32;
        loop {
            let rc = unsafe { libc::waitpid(pid, &mut status, 0) };
            if rc < 0 && std::io::Error::last_os_error().kind() == std::io::ErrorKind::Interrupted {
                continue;
            }
            break;
        }
        if let Some(seconds) = hung {
            HANG_SEEN.store(true, Ordering::SeqCst);
            results.push(Obs {
                outcome: Outcome::Hung { seconds },
                stats: AllocStats::default(),
            });
            // every further case may cost another time-out: the caller gets a short result
            // list (the hung case is its last element) and decides what to do with the rest
            break;
        }
        let clean_exit = libc::WIFEXITED(status) && libc::WEXITSTATUS(status) == 0;
        let finished_all = results.len() >= jobs.len();
        let ended_on_runaway = matches!(
            results.last().map(|o| &o.outcome),
            Some(Outcome::Runaway { .. })
        ) && results.len() > start;
        if clean_exit && (finished_all || ended_on_runaway) {
            continue;
        }
        if !finished_all {
            // the case in flight killed the child
            results.push(Obs {
                outcome: Outcome::Died {
                    how: describe_status(status),
                },
                stats: AllocStats::default(),
            });
        }
    }
    results.truncate(jobs.len());
    results
}
