//! Monitored execution of decode cases.
//!
//! Cases run on a dedicated thread. Around each decode: `catch_unwind` (monitor 1), the
//! counting allocator (monitor 2). If the decoder asks for more than the allocator ceiling the
//! thread is parked for ever by the allocator; the supervisor records the case as a runaway
//! allocation and continues the remaining cases on a fresh thread. A process-wide watchdog
//! (monitor 3) aborts the process when no case completes for `WATCHDOG_S` seconds, after
//! printing the case in flight; with `worker_death_is_violation` the batch runner turns that
//! into a `process-death` violation. It never fires on a healthy tree (a case takes < 10 ms).
use std::cell::RefCell;
use std::panic::AssertUnwindSafe;
use std::sync::atomic::{AtomicU64, Ordering};
use std::sync::{Arc, Mutex};

use crate::alloc::{self, AllocStats, SUPERVISION, SUPERVISION_CV};

pub const WATCHDOG_S: u64 = 120;

/// What a decoder closure returns: `Ok(equal_to_the_honest_value)` or the error text.
pub type Dec = Result<bool, String>;
pub type DecFn = Arc<dyn Fn(&[u8]) -> Dec + Send + Sync>;

#[derive(Clone, Debug)]
pub enum Outcome {
    Ok { equal: bool },
    Err(String),
    Panic { location: String, message: String },
    /// one request above the allocator ceiling (bytes)
    Runaway { bytes: usize },
}

#[derive(Clone, Debug)]
pub struct Obs {
    pub outcome: Outcome,
    pub stats: AllocStats,
}

pub struct Job {
    pub dec: DecFn,
    pub input: Vec<u8>,
    /// short description printed by the watchdog if the case never returns
    pub label: String,
}

thread_local! {
    static LAST_PANIC: RefCell<Option<(String, String)>> = const { RefCell::new(None) };
}

static PROGRESS_STAMP: AtomicU64 = AtomicU64::new(0);
static IN_FLIGHT: Mutex<Option<String>> = Mutex::new(None);
static BUSY: AtomicU64 = AtomicU64::new(0);

fn now_s() -> u64 {
    std::time::SystemTime::now()
        .duration_since(std::time::UNIX_EPOCH)
        .map(|d| d.as_secs())
        .unwrap_or(0)
}

/// Install the panic hook (records location + message per thread, prints nothing) and start
/// the watchdog thread. Call once at process start.
pub fn install() {
    std::panic::set_hook(Box::new(|info| {
        alloc::pause();
        let location = info
            .location()
            .map(|l| format!("{}:{}:{}", l.file(), l.line(), l.column()))
            .unwrap_or_else(|| "<unknown>".into());
        let message = if let Some(s) = info.payload().downcast_ref::<&str>() {
            s.to_string()
        } else if let Some(s) = info.payload().downcast_ref::<String>() {
            s.clone()
        } else {
            "<non-string panic payload>".into()
        };
        if std::thread::current().name() != Some("decode") {
            // a panic of the harness itself: never swallow it
            eprintln!("HARNESS PANIC at {location}: {message}");
        }
        let _ = LAST_PANIC.try_with(|c| *c.borrow_mut() = Some((location, message)));
    }));
    PROGRESS_STAMP.store(now_s(), Ordering::SeqCst);
    let _ = std::thread::Builder::new().name("watchdog".into()).spawn(|| {
        loop {
            std::thread::sleep(std::time::Duration::from_secs(2));
            if BUSY.load(Ordering::SeqCst) == 0 {
                continue;
            }
            let last = PROGRESS_STAMP.load(Ordering::SeqCst);
            if now_s().saturating_sub(last) > WATCHDOG_S {
                let what = IN_FLIGHT.lock().map(|g| g.clone()).unwrap_or(None);
                eprintln!(
                    "WATCHDOG: no decode case completed for {WATCHDOG_S}s; case in flight: {}",
                    what.unwrap_or_else(|| "<none>".into())
                );
                std::process::abort();
            }
        }
    });
}

fn run_one(job: &Job) -> Obs {
    if let Ok(mut g) = IN_FLIGHT.lock() {
        *g = Some(job.label.clone());
    }
    LAST_PANIC.with(|c| *c.borrow_mut() = None);
    let dec = job.dec.clone();
    let input: &[u8] = &job.input;
    alloc::begin();
    let r = std::panic::catch_unwind(AssertUnwindSafe(|| dec(input)));
    let stats = alloc::end();
    PROGRESS_STAMP.store(now_s(), Ordering::Relaxed);
    let outcome = match r {
        Ok(Ok(equal)) => Outcome::Ok { equal },
        Ok(Err(e)) => Outcome::Err(e),
        Err(_) => {
            let (location, message) = LAST_PANIC
                .with(|c| c.borrow_mut().take())
                .unwrap_or_else(|| ("<unknown>".into(), "<unknown>".into()));
            Outcome::Panic { location, message }
        }
    };
    Obs { outcome, stats }
}

/// Execute all jobs, in order, under the monitors. Deterministic: the result list is a pure
/// function of the jobs.
pub fn run_jobs(jobs: Vec<Job>) -> Vec<Obs> {
    let jobs = Arc::new(jobs);
    let results: Arc<Mutex<Vec<Obs>>> = Arc::new(Mutex::new(Vec::with_capacity(jobs.len())));
    BUSY.fetch_add(1, Ordering::SeqCst);
    PROGRESS_STAMP.store(now_s(), Ordering::SeqCst);
    loop {
        let start = results.lock().unwrap().len();
        if start >= jobs.len() {
            break;
        }
        {
            let mut g = SUPERVISION.lock().unwrap_or_else(|e| e.into_inner());
            g.finished = false;
            g.parked = None;
        }
        let j = jobs.clone();
        let r = results.clone();
        std::thread::Builder::new()
            .name("decode".into())
            .stack_size(8 << 20)
            .spawn(move || {
                for job in j.iter().skip(start) {
                    let obs = run_one(job);
                    r.lock().unwrap().push(obs);
                }
                let mut g = SUPERVISION.lock().unwrap_or_else(|e| e.into_inner());
                g.finished = true;
                SUPERVISION_CV.notify_all();
            })
            .expect("spawn decode thread");
        // wait for: finished, or parked by the allocator
        let parked = {
            let mut g = SUPERVISION.lock().unwrap_or_else(|e| e.into_inner());
            while !g.finished && g.parked.is_none() {
                g = SUPERVISION_CV.wait(g).unwrap_or_else(|e| e.into_inner());
            }
            g.parked
        };
        if let Some(bytes) = parked {
            // the thread is lost inside the allocator; whatever it had recorded is in `results`
            let mut g = results.lock().unwrap();
            g.push(Obs {
                outcome: Outcome::Runaway { bytes },
                stats: AllocStats { max_request: bytes, peak_live: 0, requests: 0 },
            });
            PROGRESS_STAMP.store(now_s(), Ordering::SeqCst);
        }
    }
    BUSY.fetch_sub(1, Ordering::SeqCst);
    let out = results.lock().unwrap().clone();
    out
}
