//! Counterfactual attribution of violations to recorded findings (known-findings protocol).
//!
//! For each finding the harness knows the *trigger*: a specific untrusted length / count field
//! read by a specific legacy parser. `neutralise` follows the same routing the decoders apply
//! (version byte, aggregate type byte, CBOR envelopes, hex / JSON-string / certificate wrappers),
//! finds every such field whose value would trigger the defect, rewrites it to the largest value
//! a bounded parser would accept (the remaining input length) and re-wraps the input. A violating
//! case is attributed to a finding only if (a) the observed panic location / allocation clause is
//! the finding's site, (b) the trigger was found on the route, and (c) the *same* entry point
//! run on the neutralised input no longer violates. Anything else stays unattributed.
use serde::{Deserialize, Serialize};

pub const F_PREALLOC: &str = "C05-concat-proof-legacy-prealloc";
pub const F_CONCAT_OVERFLOW: &str = "C05-concat-proof-legacy-overflow";
pub const F_SIGREG_OVERFLOW: &str = "C05-sig-reg-party-legacy-overflow";

#[derive(Clone, Copy, Debug, PartialEq, Eq)]
pub enum Kind {
    /// `AggregateSignature::from_bytes`
    Agg,
    /// `SingleSignatureWithRegisteredParty::from_bytes`
    SigReg,
    Other,
}

/// How the bytes handed to an entry point reach the STM binary decoders.
#[derive(Clone, Copy, Debug, PartialEq, Eq)]
pub enum Route {
    None,
    Bytes(Kind),
    /// hex text of the bytes
    Hex(Kind),
    /// `ProtocolKey::try_from(&str)`: JSON-hex first, bytes-hex as fallback
    Str(Kind),
    /// a JSON document that is one string handled as `Str`
    StrDoc(Kind),
    /// `CertificateMessage` JSON: field `multi_signature` handled as `Str(Agg)`
    CertDoc,
}

#[derive(Serialize, Deserialize)]
struct AggEnvelope {
    signature_type: u8,
    proof_bytes: Vec<u8>,
}

#[derive(Serialize, Deserialize)]
struct ConcatEnvelope {
    signature_bytes: Vec<Vec<u8>>,
    batch_proof_bytes: Vec<u8>,
}

fn be_u64(b: &[u8], at: usize) -> Option<u64> {
    Some(u64::from_be_bytes(
        b.get(at..at.checked_add(8)?)?.try_into().ok()?,
    ))
}

fn put_u64(b: &mut [u8], at: usize, v: u64) {
    b[at..at + 8].copy_from_slice(&v.to_be_bytes());
}

fn cbor<T: Serialize>(v: &T) -> Option<Vec<u8>> {
    let mut out = vec![1u8];
    ciborium::ser::into_writer(v, &mut out).ok()?;
    Some(out)
}

/// `SingleSignatureWithRegisteredParty::from_bytes_legacy`: `8 + size_reg_party` and
/// `sig_offset + 8 + size_sig` on untrusted sizes.
fn sigreg_legacy(s: &mut [u8], hit: &mut Vec<&'static str>) {
    let len = s.len() as u64;
    let Some(size_reg) = be_u64(s, 0) else { return };
    let mut size_reg_eff = size_reg;
    if 8u64.checked_add(size_reg).is_none() {
        size_reg_eff = len;
        put_u64(s, 0, size_reg_eff);
        hit.push(F_SIGREG_OVERFLOW);
    }
    let Some(sig_offset) = 8u64.checked_add(size_reg_eff) else {
        return;
    };
    let Ok(sig_offset_us) = usize::try_from(sig_offset) else {
        return;
    };
    let Some(size_sig) = be_u64(s, sig_offset_us) else {
        return;
    };
    if sig_offset
        .checked_add(8)
        .and_then(|x| x.checked_add(size_sig))
        .is_none()
    {
        put_u64(s, sig_offset_us, len);
        hit.push(F_SIGREG_OVERFLOW);
    }
}

fn sigreg_any(s: &mut Vec<u8>, hit: &mut Vec<&'static str>) {
    if s.first() != Some(&1) {
        sigreg_legacy(s, hit);
    }
}

/// `ConcatenationProof::from_bytes_legacy`: `Vec::with_capacity(total_sigs)` and
/// `bytes_index + 8 + sig_reg_size` on untrusted values.
fn concat_legacy(v: &mut [u8], hit: &mut Vec<&'static str>) {
    let len = v.len();
    let Some(total) = be_u64(v, 0) else { return };
    // every signature needs at least its 8-byte size prefix
    let bound = (len.saturating_sub(8) / 8) as u64;
    let mut total_eff = total;
    if total > bound {
        total_eff = bound;
        put_u64(v, 0, total_eff);
        hit.push(F_PREALLOC);
    }
    let mut index = 8usize;
    for _ in 0..total_eff {
        let Some(size) = be_u64(v, index) else { return };
        let mut size_eff = size;
        if (index as u64)
            .checked_add(8)
            .and_then(|x| x.checked_add(size))
            .is_none()
        {
            size_eff = len as u64;
            put_u64(v, index, size_eff);
            hit.push(F_CONCAT_OVERFLOW);
        }
        let Ok(size_us) = usize::try_from(size_eff) else {
            return;
        };
        let Some(end) = index.checked_add(8).and_then(|x| x.checked_add(size_us)) else {
            return;
        };
        if end > len {
            return;
        }
        if v[index + 8..end].first() != Some(&1) {
            sigreg_legacy(&mut v[index + 8..end], hit);
        }
        index = end;
    }
}

fn concat_any(p: &mut Vec<u8>, hit: &mut Vec<&'static str>) {
    if p.first() == Some(&1) {
        let Ok(mut env) = ciborium::de::from_reader::<ConcatEnvelope, _>(&p[1..]) else {
            return;
        };
        let before = hit.len();
        for s in env.signature_bytes.iter_mut() {
            sigreg_any(s, hit);
        }
        if hit.len() > before
            && let Some(again) = cbor(&env)
        {
            *p = again;
        }
    } else {
        concat_legacy(p, hit);
    }
}

fn agg_any(b: &mut Vec<u8>, hit: &mut Vec<&'static str>) {
    match b.first() {
        Some(&1) => {
            // CBOR envelope; when it does not parse the decoder falls back to the legacy
            // reading where type byte 1 is not a concatenation proof: nothing to neutralise
            let Ok(mut env) = ciborium::de::from_reader::<AggEnvelope, _>(&b[1..]) else {
                return;
            };
            if env.signature_type != 0 {
                return;
            }
            let before = hit.len();
            concat_any(&mut env.proof_bytes, hit);
            if hit.len() > before
                && let Some(again) = cbor(&env)
            {
                *b = again;
            }
        }
        Some(&0) => {
            let mut rest = b[1..].to_vec();
            concat_any(&mut rest, hit);
            b.truncate(1);
            b.extend_from_slice(&rest);
        }
        _ => {}
    }
}

fn bytes_any(kind: Kind, b: &mut Vec<u8>, hit: &mut Vec<&'static str>) {
    match kind {
        Kind::Agg => agg_any(b, hit),
        Kind::SigReg => sigreg_any(b, hit),
        Kind::Other => {}
    }
}

fn hex_any(kind: Kind, text: &str, hit: &mut Vec<&'static str>) -> Option<String> {
    let mut bytes = hex::decode(text).ok()?;
    let before = hit.len();
    bytes_any(kind, &mut bytes, hit);
    (hit.len() > before).then(|| hex::encode(bytes))
}

/// Returns the neutralised input and the findings whose trigger was present on the route,
/// or `None` when no trigger was found.
pub fn neutralise(route: Route, input: &[u8]) -> Option<(Vec<u8>, Vec<&'static str>)> {
    let mut hit = Vec::new();
    let out = match route {
        Route::None => return None,
        Route::Bytes(kind) => {
            let mut b = input.to_vec();
            bytes_any(kind, &mut b, &mut hit);
            b
        }
        Route::Hex(kind) | Route::Str(kind) => {
            let text = String::from_utf8_lossy(input);
            hex_any(kind, &text, &mut hit)?.into_bytes()
        }
        Route::StrDoc(kind) => {
            // serde hands the string to the key codec *before* serde_json checks for trailing
            // data, so only the first JSON value counts; what follows it is kept as is
            let mut stream = serde_json::Deserializer::from_slice(input).into_iter::<String>();
            let text: String = stream.next()?.ok()?;
            let rest = &input[stream.byte_offset().min(input.len())..];
            let again = hex_any(kind, &text, &mut hit)?;
            let mut doc = serde_json::to_vec(&again).ok()?;
            doc.extend_from_slice(rest);
            doc
        }
        Route::CertDoc => {
            let mut doc: serde_json::Value = serde_json::from_slice(input).ok()?;
            let text = doc.get("multi_signature")?.as_str()?.to_string();
            let again = hex_any(Kind::Agg, &text, &mut hit)?;
            doc["multi_signature"] = serde_json::Value::String(again);
            serde_json::to_vec(&doc).ok()?
        }
    };
    if hit.is_empty() {
        return None;
    }
    hit.sort_unstable();
    hit.dedup();
    Some((out, hit))
}

/// Which finding a (clause, panic location) pair would belong to, by site.
pub fn finding_by_site(clause: &str, location: &str) -> Option<&'static str> {
    match clause {
        "runaway-allocation" | "allocation-out-of-proportion" => Some(F_PREALLOC),
        "arithmetic-overflow" if location.contains("proof_system/concatenation/proof.rs") => {
            Some(F_CONCAT_OVERFLOW)
        }
        "arithmetic-overflow"
            if location.contains("single_signature/signature_registered_party.rs") =>
        {
            Some(F_SIGREG_OVERFLOW)
        }
        _ => None,
    }
}

pub fn describe(finding: &str) -> &'static str {
    match finding {
        F_PREALLOC => {
            "ConcatenationProof::from_bytes_legacy (mithril-stm/src/proof_system/concatenation/proof.rs) calls Vec::with_capacity(total_sigs) with total_sigs taken from the first eight input bytes before any signature is read: a damaged count makes the decoder request count x size_of::<SingleSignatureWithRegisteredParty>() bytes (capacity-overflow panic, allocation failure abort, or a multi-GiB reservation) from an input of a few bytes. Repair: bound the pre-allocation by the remaining input (e.g. total_sigs.min(bytes.len() / 8)) or reject counts larger than that."
        }
        F_CONCAT_OVERFLOW => {
            "ConcatenationProof::from_bytes_legacy computes bytes_index + 8 + sig_reg_size with sig_reg_size read from the input: values near u64::MAX overflow (panic with overflow checks; silent wrap followed by a failed bounds check in a default release build). Repair: checked_add and return SerializationError."
        }
        F_SIGREG_OVERFLOW => {
            "SingleSignatureWithRegisteredParty::from_bytes_legacy (mithril-stm/src/protocol/single_signature/signature_registered_party.rs) computes 8 + size_reg_party and sig_offset + 8 + size_sig on sizes cast from untrusted u64 values: values near u64::MAX overflow (panic with overflow checks; silent wrap followed by a failed bounds check in a default release build). Repair: checked_add and return SerializationError."
        }
        _ => "",
    }
}
