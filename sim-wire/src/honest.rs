//! Honest values of every wire type, produced by the repository's real code, and every
//! encoding of them the code can emit (plus hand-packed *legacy* encodings following the layouts
//! documented in the `from_bytes_legacy` functions), each paired with the public decode entry
//! points that accept that form.
use std::sync::Arc;

use chrono::{DateTime, TimeZone, Utc};
use serde::de::DeserializeOwned;
use serde::{Deserialize, Serialize};
use serde_json::Value;

use mithril_common::crypto_helper::{
    GenesisEd25519VerificationKey, KesEvolutions, MKMapProof, MKProof, MKTreeStoreInMemory, OpCert,
    ProtocolAggregateVerificationKey, ProtocolClerk, ProtocolInitializer, ProtocolKey,
    ProtocolKeyCodec, ProtocolMkProof, ProtocolSingleSignature, TryFromBytes, TryToBytes,
};
use mithril_common::entities::{
    BlockNumber, BlockRange, CardanoBlock, CardanoDbBeacon, CardanoTransaction,
    CardanoTransactionsSetProof, Certificate, CertificateMetadata, CertificateSignature, Epoch,
    MkSetProof, ProtocolMessage, ProtocolMessagePartKey, ProtocolParameters, SignedEntityType,
    Signer, SignerWithStake, SingleSignature as EntitySingleSignature, SlotNumber,
};
use mithril_common::messages::{
    CardanoBlocksProofsMessage, CardanoTransactionsProofsMessage,
    CardanoTransactionsProofsV2Message, CardanoTransactionsSetProofMessagePart, CertificateMessage,
    MkSetProofMessagePart, RegisterSignatureMessageDmq, RegisterSignatureMessageHttp,
    RegisterSignerMessage,
};
use mithril_common::test::builder::{
    MithrilFixture, MithrilFixtureBuilder, StakeDistributionGenerationMethod,
};
use mithril_common::test::crypto_helper::MKProofTestExtension;
use mithril_common::test::double::{Dummy, fake_keys};
use mithril_common::test::entities_extensions::{
    CardanoTransactionsSetProofTestExtension, MkSetProofTestExtension,
};
use mithril_stm::{
    AggregateSignature, AggregateSignatureType, AggregateVerificationKeyForConcatenation,
    AncillaryProofInput, Initializer, KeyRegistration, MithrilMembershipDigest, Parameters,
    RegistrationEntry, SingleSignature, SingleSignatureWithRegisteredParty,
    VerificationKeyForConcatenation, VerificationKeyProofOfPossessionForConcatenation,
};
use sim_core::Rng;

use crate::cbor;
use crate::exec::{Dec, DecFn};
use crate::faults::{WordEnc, WordField};

type D = MithrilMembershipDigest;

/// Everything that determines the honest value set of a run (all concrete; the replay file
/// carries it, `HonestSet::build` is a pure function of it).
#[derive(Clone, Debug, Serialize, Deserialize, PartialEq)]
pub struct HonestCfg {
    pub seed: u64,
    pub signers: usize,
    pub k: u64,
    pub m: u64,
    pub phi_f: f64,
    pub epoch: u64,
    pub tx_leaves: usize,
    pub block_leaves: usize,
    pub certified_signers: usize,
}

impl HonestCfg {
    pub fn generate(rng: &mut Rng) -> HonestCfg {
        let k = rng.range(1, 4);
        HonestCfg {
            seed: rng.next_u64(),
            signers: rng.range(2, 5) as usize,
            k,
            m: rng.range(k * 3 + 2, k * 3 + 20),
            phi_f: [0.65, 0.8, 0.9, 0.95][rng.index(4)],
            epoch: {
                let bits = rng.range(2, 40);
                rng.range(2, 1 << bits)
            },
            tx_leaves: rng.range(1, 9) as usize,
            block_leaves: rng.range(1, 6) as usize,
            certified_signers: rng.range(2, 4) as usize,
        }
    }
    pub fn default_small() -> HonestCfg {
        HonestCfg {
            seed: 1,
            signers: 2,
            k: 1,
            m: 6,
            phi_f: 0.9,
            epoch: 5,
            tx_leaves: 2,
            block_leaves: 2,
            certified_signers: 2,
        }
    }
}

pub struct Entry {
    /// public decode entry point (stable name, used in fingerprints / replay files)
    pub name: &'static str,
    pub dec: DecFn,
}

pub struct Encoding {
    pub ty: &'static str,
    pub form: &'static str,
    pub bytes: Vec<u8>,
    /// offsets of structurally located version / length / count bytes
    pub hot: Vec<usize>,
    /// structurally located length / count / size fields (word-overwrite targets)
    pub words: Vec<WordField>,
    pub entries: Vec<Entry>,
    /// false: a decoder of locally stored secrets, outside the property statement; run as a
    /// probe only (counters, never a violation)
    pub in_statement: bool,
}

impl Encoding {
    pub fn id(&self) -> String {
        format!("{}/{}", self.ty, self.form)
    }
}

pub struct HonestSet {
    #[allow(dead_code)]
    pub cfg: HonestCfg,
    pub encodings: Vec<Encoding>,
}

// ---------------------------------------------------------------------------------------------
// equality of a decoded value with the honest one

pub trait Same {
    fn same(&self, other: &Self) -> bool;
}

macro_rules! same_by_eq {
    ($($t:ty),+ $(,)?) => { $( impl Same for $t { fn same(&self, o: &Self) -> bool { self == o } } )+ };
}

/// no `PartialEq`: equal iff both the binary and the JSON re-encodings are equal
macro_rules! same_by_reencoding {
    ($($t:ty),+ $(,)?) => { $( impl Same for $t {
        fn same(&self, o: &Self) -> bool {
            let a = (self.to_bytes_vec().ok(), serde_json::to_vec(self).ok());
            let b = (o.to_bytes_vec().ok(), serde_json::to_vec(o).ok());
            a.0.is_some() && a.1.is_some() && a == b
        }
    } )+ };
}

same_by_eq!(
    SingleSignature,
    SingleSignatureWithRegisteredParty,
    AggregateVerificationKeyForConcatenation<D>,
    VerificationKeyForConcatenation,
    VerificationKeyProofOfPossessionForConcatenation,
    Parameters,
    Initializer,
    OpCert,
    ed25519_dalek::Signature,
    ed25519_dalek::VerifyingKey,
    MKProof,
    MKMapProof<BlockRange>,
    SignedEntityType,
    RegisterSignatureMessageDmq,
);
same_by_reencoding!(AggregateSignature<D>, kes_summed_ed25519::kes::Sum6KesSig);

impl<T: Same + Serialize + DeserializeOwned> Same for ProtocolKey<T> {
    fn same(&self, o: &Self) -> bool {
        let a: &T = self;
        let b: &T = o;
        a.same(b)
    }
}

fn short(e: impl std::fmt::Display) -> String {
    let mut s = format!("{e:#}");
    if s.len() > 160 {
        let mut cut = 160;
        while !s.is_char_boundary(cut) {
            cut -= 1;
        }
        s.truncate(cut);
    }
    s
}

fn dec_bytes<T, E, F>(honest: &T, f: F) -> DecFn
where
    T: Same + Clone + Send + Sync + 'static,
    E: std::fmt::Display,
    F: Fn(&[u8]) -> Result<T, E> + Send + Sync + 'static,
{
    let honest = honest.clone();
    Arc::new(move |b: &[u8]| -> Dec {
        match f(b) {
            Ok(v) => Ok(v.same(&honest)),
            Err(e) => Err(short(e)),
        }
    })
}

/// Entry points taking `&str`: the text arrives as bytes from the channel and is turned into a
/// string the way a lossy reader does (`from_utf8_lossy`); an outer JSON parser would have
/// rejected invalid UTF-8 earlier, a file reader would not.
fn dec_str<T, E, F>(honest: &T, f: F) -> DecFn
where
    T: Same + Clone + Send + Sync + 'static,
    E: std::fmt::Display,
    F: Fn(&str) -> Result<T, E> + Send + Sync + 'static,
{
    let honest = honest.clone();
    Arc::new(move |b: &[u8]| -> Dec {
        let s = String::from_utf8_lossy(b);
        match f(&s) {
            Ok(v) => Ok(v.same(&honest)),
            Err(e) => Err(short(e)),
        }
    })
}

/// decoders whose result is judged by a custom comparison
fn dec_with<F>(f: F) -> DecFn
where
    F: Fn(&[u8]) -> Dec + Send + Sync + 'static,
{
    Arc::new(f)
}

// ---------------------------------------------------------------------------------------------
// hot offsets for derived forms

fn hot_of_bytes(bytes: &[u8]) -> Vec<usize> {
    if bytes.first() == Some(&1) {
        cbor::hot_offsets(bytes)
    } else {
        (0..bytes.len().min(16)).collect()
    }
}

fn hot_hex(hot_bin: &[usize]) -> Vec<usize> {
    let mut v: Vec<usize> = hot_bin.iter().flat_map(|h| [2 * h, 2 * h + 1]).collect();
    v.sort_unstable();
    v.dedup();
    v
}

/// offsets of the first `n` and last 2 characters of every occurrence of `needle` in `doc`
fn hot_in_doc(doc: &[u8], needles: &[&str], n: usize) -> Vec<usize> {
    let mut hot = Vec::new();
    for needle in needles {
        if needle.len() < 4 {
            continue;
        }
        let nb = needle.as_bytes();
        let mut i = 0;
        while i + nb.len() <= doc.len() {
            if &doc[i..i + nb.len()] == nb {
                hot.extend(i..i + n.min(nb.len()));
                hot.push(i + nb.len() - 2);
                hot.push(i + nb.len() - 1);
                i += nb.len();
            } else {
                i += 1;
            }
        }
    }
    hot.sort_unstable();
    hot.dedup();
    hot
}

fn be_words(offsets: &[usize]) -> Vec<WordField> {
    offsets
        .iter()
        .map(|off| WordField {
            off: *off,
            width: 8,
            enc: WordEnc::Be,
            hex: false,
        })
        .collect()
}

fn words_of_bytes(bytes: &[u8]) -> Vec<WordField> {
    cbor::word_fields(bytes)
}

fn words_hex(words: &[WordField], at: usize) -> Vec<WordField> {
    words.iter().map(|w| w.in_hex(at)).collect()
}

/// Located varints of the bincode (standard configuration) encoding of `MKProof` /
/// `MKMapProof<BlockRange>`: every length, position and size. Layout (serde derive order):
/// node = len bytes; MKProof = node, len x (position, node), size, len x node;
/// MKMapProof = MKProof, len x (start, end, MKMapProof). Returns nothing unless the walk
/// consumes the buffer exactly.
fn bincode_words(bytes: &[u8], map_proof: bool) -> Vec<WordField> {
    fn varint(b: &[u8], pos: &mut usize, out: &mut Vec<WordField>) -> Option<u64> {
        let at = *pos;
        let first = *b.get(at)?;
        let (val, width) = match first {
            0..=250 => (first as u64, 0usize),
            0xfb => (
                u16::from_le_bytes(b.get(at + 1..at + 3)?.try_into().ok()?) as u64,
                2,
            ),
            0xfc => (
                u32::from_le_bytes(b.get(at + 1..at + 5)?.try_into().ok()?) as u64,
                4,
            ),
            0xfd => (
                u64::from_le_bytes(b.get(at + 1..at + 9)?.try_into().ok()?),
                8,
            ),
            _ => return None,
        };
        if width == 0 {
            out.push(WordField {
                off: at,
                width: 1,
                enc: WordEnc::Le,
                hex: false,
            });
        } else {
            out.push(WordField {
                off: at + 1,
                width,
                enc: WordEnc::Le,
                hex: false,
            });
        }
        out.push(WordField {
            off: at,
            width: 8,
            enc: WordEnc::BincodeMarker,
            hex: false,
        });
        *pos = at + 1 + width;
        Some(val)
    }
    fn node(b: &[u8], pos: &mut usize, out: &mut Vec<WordField>) -> Option<()> {
        let len = usize::try_from(varint(b, pos, out)?).ok()?;
        *pos = pos.checked_add(len)?;
        (*pos <= b.len()).then_some(())
    }
    fn proof(b: &[u8], pos: &mut usize, out: &mut Vec<WordField>) -> Option<()> {
        node(b, pos, out)?;
        for _ in 0..varint(b, pos, out)? {
            varint(b, pos, out)?;
            node(b, pos, out)?;
        }
        varint(b, pos, out)?;
        for _ in 0..varint(b, pos, out)? {
            node(b, pos, out)?;
        }
        Some(())
    }
    fn map(b: &[u8], pos: &mut usize, out: &mut Vec<WordField>, depth: usize) -> Option<()> {
        if depth > 16 {
            return None;
        }
        proof(b, pos, out)?;
        for _ in 0..varint(b, pos, out)? {
            varint(b, pos, out)?;
            varint(b, pos, out)?;
            map(b, pos, out, depth + 1)?;
        }
        Some(())
    }
    let mut out = Vec::new();
    let mut pos = 0usize;
    let ok = if map_proof {
        map(bytes, &mut pos, &mut out, 0)
    } else {
        proof(bytes, &mut pos, &mut out)
    };
    assert!(
        ok.is_some() && pos == bytes.len(),
        "the bincode walker does not match the honest encoding (layout changed?)"
    );
    out
}

/// offsets of the structural characters of a JSON text (at most 256, evenly thinned)
fn json_structural(doc: &[u8]) -> Vec<usize> {
    let all: Vec<usize> = doc
        .iter()
        .enumerate()
        .filter(|(_, c)| b"[]{}\":".contains(c))
        .map(|(i, _)| i)
        .collect();
    if all.len() <= 256 {
        return all;
    }
    (0..256).map(|i| all[i * all.len() / 256]).collect()
}

// ---------------------------------------------------------------------------------------------
// hand-packed legacy encodings (layouts documented at the `from_bytes_legacy` functions)

#[derive(Default, Clone)]
pub struct Packed {
    pub bytes: Vec<u8>,
    /// offsets of every byte of every length / count / index field
    pub fields: Vec<usize>,
    /// offsets of the 8-byte big-endian length / count / size fields (word-overwrite targets)
    pub words: Vec<usize>,
}

impl Packed {
    fn u64_field(&mut self, v: u64) {
        let at = self.bytes.len();
        self.fields.extend(at..at + 8);
        self.bytes.extend_from_slice(&v.to_be_bytes());
    }
    /// a length / count / size field
    fn u64_len(&mut self, v: u64) {
        self.words.push(self.bytes.len());
        self.u64_field(v);
    }
    fn raw(&mut self, b: &[u8]) {
        self.bytes.extend_from_slice(b);
    }
    fn nested(&mut self, p: &Packed) {
        let at = self.bytes.len();
        self.words.extend(p.words.iter().map(|f| f + at));
        self.fields.extend(p.fields.iter().map(|f| f + at));
        self.bytes.extend_from_slice(&p.bytes);
    }
    fn sized(&mut self, p: &Packed) {
        self.u64_len(p.bytes.len() as u64);
        self.nested(p);
    }
}

fn json_bytes(v: &Value) -> Vec<u8> {
    v.as_array()
        .expect("byte array in JSON form")
        .iter()
        .map(|x| x.as_u64().expect("byte") as u8)
        .collect()
}

fn json_u64s(v: &Value) -> Vec<u64> {
    v.as_array()
        .expect("u64 array")
        .iter()
        .map(|x| x.as_u64().expect("u64"))
        .collect()
}

/// `nr_indexes | indexes.. | sigma(48) | signer_index`
fn legacy_single_signature(sig_json: &Value) -> Packed {
    let mut p = Packed::default();
    let indexes = json_u64s(&sig_json["indexes"]);
    p.u64_len(indexes.len() as u64);
    for i in &indexes {
        p.u64_field(*i);
    }
    p.raw(&json_bytes(&sig_json["sigma"]));
    p.u64_field(sig_json["signer_index"].as_u64().expect("signer_index"));
    p
}

/// `vk(96) | stake`
fn legacy_registration_entry(reg_json: &Value) -> Packed {
    let mut p = Packed::default();
    p.raw(&json_bytes(&reg_json[0]));
    p.u64_field(reg_json[1].as_u64().expect("stake"));
    p
}

/// `len(reg) | reg | len(sig) | sig`
fn legacy_sig_reg(sig_reg_json: &Value) -> Packed {
    let mut p = Packed::default();
    p.sized(&legacy_registration_entry(&sig_reg_json[1]));
    p.sized(&legacy_single_signature(&sig_reg_json[0]));
    p
}

/// `len_v | len_i | values(32 each) | indices`
fn legacy_batch_path(bp_json: &Value) -> Packed {
    let mut p = Packed::default();
    let values: Vec<Vec<u8>> = bp_json["values"]
        .as_array()
        .expect("values")
        .iter()
        .map(json_bytes)
        .collect();
    let indices = json_u64s(&bp_json["indices"]);
    p.u64_len(values.len() as u64);
    p.u64_len(indices.len() as u64);
    for v in &values {
        p.raw(v);
    }
    for i in &indices {
        p.u64_field(*i);
    }
    p
}

/// `total_sigs | (size | sig_reg).. | batch_path`
fn legacy_concatenation_proof(proof_json: &Value) -> Packed {
    let mut p = Packed::default();
    let sigs = proof_json["signatures"].as_array().expect("signatures");
    p.u64_len(sigs.len() as u64);
    for s in sigs {
        p.sized(&legacy_sig_reg(s));
    }
    p.nested(&legacy_batch_path(&proof_json["batch_proof"]));
    p
}

/// `type byte 0 | concatenation proof`
fn legacy_aggregate_signature(agg_json: &Value) -> Packed {
    let mut p = Packed::default();
    p.fields.push(0);
    p.raw(&[0u8]);
    p.nested(&legacy_concatenation_proof(agg_json));
    p
}

/// `nr_leaves | root | total_stake`
fn legacy_avk(avk_json: &Value) -> Packed {
    let mut p = Packed::default();
    p.u64_len(
        avk_json["mt_commitment"]["nr_leaves"]
            .as_u64()
            .expect("nr_leaves"),
    );
    p.raw(&json_bytes(&avk_json["mt_commitment"]["root"]));
    p.u64_field(avk_json["total_stake"].as_u64().expect("total_stake"));
    p
}

/// `m | k | phi_f (f64 bits)`
fn legacy_parameters(params: &Parameters) -> Packed {
    let mut p = Packed::default();
    p.u64_field(params.m);
    p.u64_field(params.k);
    p.u64_field(params.phi_f.to_bits());
    p
}

// ---------------------------------------------------------------------------------------------

pub struct Builder {
    pub encs: Vec<Encoding>,
}

impl Builder {
    fn push(
        &mut self,
        ty: &'static str,
        form: &'static str,
        bytes: Vec<u8>,
        hot: Vec<usize>,
        entries: Vec<Entry>,
    ) {
        self.push_scoped(ty, form, bytes, hot, entries, true)
    }

    fn push_scoped(
        &mut self,
        ty: &'static str,
        form: &'static str,
        bytes: Vec<u8>,
        mut hot: Vec<usize>,
        entries: Vec<Entry>,
        in_statement: bool,
    ) {
        if form == "json" {
            hot.extend(json_structural(&bytes));
        }
        hot.retain(|h| *h < bytes.len());
        hot.sort_unstable();
        hot.dedup();
        assert!(
            bytes.len() < (1 << 16),
            "{ty}/{form}: honest encoding of {} bytes exceeds the 64 KiB bound",
            bytes.len()
        );
        self.encs.push(Encoding {
            ty,
            form,
            bytes,
            hot,
            words: Vec::new(),
            entries,
            in_statement,
        });
    }

    /// Attach the located length fields to the encoding pushed last (at most 32, thinned
    /// evenly, the first 8 always kept).
    fn words(&mut self, mut words: Vec<WordField>) {
        let enc = self.encs.last_mut().expect("an encoding was pushed");
        let unit = |w: &WordField| if w.hex { 2 } else { 1 };
        words.retain(|w| w.off + unit(w) * w.width <= enc.bytes.len());
        if words.len() > 32 {
            let head: Vec<WordField> = words[..8].to_vec();
            let tail = &words[8..];
            let mut thin: Vec<WordField> = (0..24).map(|i| tail[i * tail.len() / 24]).collect();
            words = head;
            words.append(&mut thin);
        }
        enc.words = words;
    }

    /// All forms of a type that has the binary (`TryToBytes`/`TryFromBytes`) and JSON codecs and
    /// is wrapped in `ProtocolKey` somewhere. `codec`: the type implements `ProtocolKeyCodec`
    /// (`TryFrom<&str>` and serde `Deserialize` of the wrapper exist).
    fn protocol_key_forms<T>(
        &mut self,
        ty: &'static str,
        v: &T,
        legacy: Option<Packed>,
        in_statement: bool,
    ) where
        T: Same
            + Clone
            + Send
            + Sync
            + Serialize
            + DeserializeOwned
            + TryToBytes
            + TryFromBytes
            + 'static,
    {
        let bytes = v.to_bytes_vec().expect("honest value encodes to bytes");
        let hot = hot_of_bytes(&bytes);
        let bin_entries = |v: &T| {
            vec![
                Entry {
                    name: "TryFromBytes::try_from_bytes",
                    dec: dec_bytes(v, |b| T::try_from_bytes(b)),
                },
                Entry {
                    name: "ProtocolKey::from_bytes",
                    dec: dec_bytes(&ProtocolKey::new(v.clone()), |b| {
                        ProtocolKey::<T>::from_bytes(b)
                    }),
                },
            ]
        };
        let hex_entries = |v: &T| {
            vec![
                Entry {
                    name: "TryFromBytes::try_from_bytes_hex",
                    dec: dec_str(v, |s| T::try_from_bytes_hex(s)),
                },
                Entry {
                    name: "ProtocolKey::from_bytes_hex",
                    dec: dec_str(&ProtocolKey::new(v.clone()), |s| {
                        ProtocolKey::<T>::from_bytes_hex(s)
                    }),
                },
            ]
        };
        self.push_scoped(
            ty,
            "bytes",
            bytes.clone(),
            hot.clone(),
            bin_entries(v),
            in_statement,
        );
        let words = words_of_bytes(&bytes);
        self.words(words.clone());
        self.push_scoped(
            ty,
            "bytes-hex",
            hex::encode(&bytes).into_bytes(),
            hot_hex(&hot),
            hex_entries(v),
            in_statement,
        );
        self.words(words_hex(&words, 0));
        if let Some(p) = legacy {
            self.push_scoped(
                ty,
                "legacy",
                p.bytes.clone(),
                p.fields.clone(),
                bin_entries(v),
                in_statement,
            );
            self.words(be_words(&p.words));
            self.push_scoped(
                ty,
                "legacy-hex",
                hex::encode(&p.bytes).into_bytes(),
                hot_hex(&p.fields),
                hex_entries(v),
                in_statement,
            );
            self.words(words_hex(&be_words(&p.words), 0));
        }
        let json_hex =
            ProtocolKey::<T>::key_to_json_hex(v).expect("honest value encodes to JSON hex");
        self.push_scoped(
            ty,
            "json-hex",
            json_hex.clone().into_bytes(),
            (0..64).collect(),
            vec![Entry {
                name: "ProtocolKey::from_json_hex",
                dec: dec_str(&ProtocolKey::new(v.clone()), |s| {
                    ProtocolKey::<T>::from_json_hex(s)
                }),
            }],
            in_statement,
        );
        let json = serde_json::to_vec(v).expect("honest value encodes to JSON");
        self.push_scoped(
            ty,
            "json",
            json,
            vec![],
            vec![Entry {
                name: "serde_json::from_slice",
                dec: dec_bytes(v, |b| serde_json::from_slice::<T>(b)),
            }],
            in_statement,
        );
    }

    /// The `ProtocolKeyCodec` entry points (string with fallback order, serde of the wrapper)
    /// for every text form of the type.
    fn protocol_key_codec_forms<T>(&mut self, ty: &'static str, v: &T, legacy: Option<&Packed>)
    where
        T: Same
            + Clone
            + Send
            + Sync
            + Serialize
            + DeserializeOwned
            + TryToBytes
            + TryFromBytes
            + ProtocolKeyCodec<T>
            + 'static,
    {
        let key = ProtocolKey::new(v.clone());
        let mut texts: Vec<(&'static str, String, Vec<usize>, Vec<WordField>)> = vec![
            (
                "codec:json-hex",
                key.to_json_hex().expect("json hex"),
                (0..64).collect(),
                vec![],
            ),
            (
                "codec:bytes-hex",
                key.to_bytes_hex().expect("bytes hex"),
                hot_hex(&hot_of_bytes(&v.to_bytes_vec().expect("bytes"))),
                words_of_bytes(&v.to_bytes_vec().expect("bytes")),
            ),
        ];
        if let Some(p) = legacy {
            texts.push((
                "codec:legacy-hex",
                hex::encode(&p.bytes),
                hot_hex(&p.fields),
                be_words(&p.words),
            ));
        }
        for (form, text, hot, words) in texts {
            self.push(
                ty,
                form,
                text.clone().into_bytes(),
                hot.clone(),
                vec![Entry {
                    name: "ProtocolKey::try_from(&str)",
                    dec: dec_str(&key, |s| ProtocolKey::<T>::try_from(s)),
                }],
            );
            self.words(words_hex(&words, 0));
            // the same string as a JSON document (what serde sees inside a message)
            let doc = serde_json::to_vec(&text).expect("json string");
            let form_doc: &'static str = match form {
                "codec:json-hex" => "codec:json-hex-as-json-string",
                "codec:bytes-hex" => "codec:bytes-hex-as-json-string",
                _ => "codec:legacy-hex-as-json-string",
            };
            self.push(
                ty,
                form_doc,
                doc,
                hot.iter().map(|h| h + 1).collect(),
                vec![Entry {
                    name: "serde_json::from_slice::<ProtocolKey>",
                    dec: dec_bytes(&key, |b| serde_json::from_slice::<ProtocolKey<T>>(b)),
                }],
            );
            self.words(words_hex(&words, 1));
        }
    }

    /// golden strings of earlier releases kept in the repository's fixtures: honest encodings
    /// whose value is not known to the harness (fault-free decode must succeed)
    fn golden_strings<T>(&mut self, ty: &'static str, form: &'static str, strings: &[&str])
    where
        T: Serialize
            + DeserializeOwned
            + TryToBytes
            + TryFromBytes
            + ProtocolKeyCodec<T>
            + Send
            + Sync
            + 'static,
    {
        if let Some(s) = strings.first() {
            self.push(
                ty,
                form,
                s.as_bytes().to_vec(),
                (0..64).collect(),
                vec![Entry {
                    name: "ProtocolKey::try_from(&str)",
                    dec: dec_with(|b| {
                        let s = String::from_utf8_lossy(b);
                        ProtocolKey::<T>::try_from(&*s).map(|_| true).map_err(short)
                    }),
                }],
            );
        }
    }
}

fn fixed_time(seed: u64, offset_s: i64) -> DateTime<Utc> {
    // a fixed, seed-derived instant: wall-clock time must not enter honest encodings
    let base = 1_600_000_000i64 + (seed % 100_000_000) as i64;
    Utc.timestamp_opt(base + offset_s, ((seed >> 32) % 1_000_000_000) as u32)
        .single()
        .expect("valid time")
}

/// The mithril-common fixture: certified signers (operational certificate + KES signature;
/// the KES keys of the default party seed are pre-computed in the repository), seeded stakes.
fn certified_fixture(cfg: &HonestCfg) -> MithrilFixture {
    let mut seed = [0u8; 32];
    seed[..8].copy_from_slice(&cfg.seed.to_le_bytes());
    MithrilFixtureBuilder::default()
        .with_protocol_parameters(ProtocolParameters {
            k: cfg.k,
            m: cfg.m,
            phi_f: cfg.phi_f,
        })
        .with_signers(cfg.certified_signers)
        .with_stake_distribution(StakeDistributionGenerationMethod::RandomDistribution {
            seed,
            min_stake: 1 + cfg.seed % 1000,
        })
        .build()
}

/// STM values straight from the mithril-stm public API: seeded key generation, registration,
/// signing, aggregation.
struct StmValues {
    params: Parameters,
    sigs: Vec<SingleSignature>,
    agg: AggregateSignature<D>,
    vk_pop: VerificationKeyProofOfPossessionForConcatenation,
    avk: AggregateVerificationKeyForConcatenation<D>,
}

fn stm_values(cfg: &HonestCfg) -> StmValues {
    use rand_core::SeedableRng;
    let mut seed = [0u8; 32];
    seed[..8].copy_from_slice(&cfg.seed.to_le_bytes());
    seed[8] = 0x57;
    let mut chacha = rand_chacha::ChaCha20Rng::from_seed(seed);
    let mut rng = Rng::new(cfg.seed ^ 0x51f1);
    let params = Parameters {
        k: cfg.k,
        m: cfg.m,
        phi_f: cfg.phi_f,
    };
    let initializers: Vec<Initializer> = (0..cfg.signers)
        .map(|_| Initializer::new(params, rng.range(1, 1_000_000), &mut chacha))
        .collect();
    let mut registration = KeyRegistration::initialize();
    for init in &initializers {
        let entry = RegistrationEntry::new(
            init.get_verification_key_proof_of_possession_for_concatenation(),
            init.stake,
        )
        .expect("honest registration entry");
        registration
            .register_by_entry(&entry)
            .expect("honest registration");
    }
    let closed = registration
        .close_registration(&params)
        .expect("close registration");
    let vk_pop = initializers[0].get_verification_key_proof_of_possession_for_concatenation();
    let signers: Vec<mithril_stm::Signer<D>> = initializers
        .into_iter()
        .map(|i| i.try_create_signer::<D>(&closed).expect("honest signer"))
        .collect();
    let clerk = mithril_stm::Clerk::<D>::new_clerk_from_closed_key_registration(&params, &closed);
    for attempt in 0..256u64 {
        let msg = format!("message-{:x}-{attempt}", cfg.seed);
        let sigs: Vec<SingleSignature> = signers
            .iter()
            .filter_map(|s| s.sign(msg.as_bytes()))
            .collect();
        if sigs.is_empty() {
            continue;
        }
        if let Ok((agg, _)) = clerk.aggregate_signatures_with_type(
            &sigs,
            msg.as_bytes(),
            AggregateSignatureType::Concatenation,
            AncillaryProofInput::dummy(),
        ) {
            let avk = clerk
                .compute_aggregate_verification_key()
                .to_concatenation_aggregate_verification_key()
                .clone();
            return StmValues {
                params,
                sigs,
                agg,
                vk_pop,
                avk,
            };
        }
    }
    panic!("honest STM aggregation did not succeed for any of 256 messages (cfg {cfg:?})");
}

fn protocol_message(cfg: &HonestCfg, attempt: u64) -> ProtocolMessage {
    let mut m = ProtocolMessage::new();
    m.set_message_part(
        ProtocolMessagePartKey::SnapshotDigest,
        format!("digest-{:x}-{attempt}", cfg.seed),
    );
    m.set_message_part(
        ProtocolMessagePartKey::NextAggregateVerificationKey,
        format!("next-avk-{:x}", cfg.seed >> 7),
    );
    m.set_message_part(ProtocolMessagePartKey::CurrentEpoch, cfg.epoch.to_string());
    m
}

impl HonestSet {
    /// Build the honest value set. `tmp` must be a directory the fixtures may write key
    /// material into (the process' `TMPDIR` already points there).
    pub fn build(cfg: &HonestCfg) -> HonestSet {
        let mut b = Builder { encs: Vec::new() };
        let StmValues {
            params,
            sigs: stm_sigs,
            agg,
            vk_pop,
            avk: avk_c,
        } = stm_values(cfg);

        // ---- mithril-common level: certified fixture; retry the message until k indices are won
        let fixture = certified_fixture(cfg);
        let signers = fixture.signers_fixture();
        let clerk = ProtocolClerk::new_clerk_from_signer(&signers[0].protocol_signer);
        let mut found = None;
        for attempt in 0..256 {
            let message = protocol_message(cfg, attempt);
            let signed_message = message.compute_hash();
            let sigs: Vec<SingleSignature> = signers
                .iter()
                .filter_map(|s| s.protocol_signer.sign(signed_message.as_bytes()))
                .collect();
            if sigs.is_empty() {
                continue;
            }
            if let Ok((agg, _)) = clerk.aggregate_signatures_with_type(
                &sigs,
                signed_message.as_bytes(),
                AggregateSignatureType::Concatenation,
                AncillaryProofInput::dummy(),
            ) {
                found = Some((message, agg));
                break;
            }
        }
        let (message, certificate_agg) =
            found.expect("honest aggregation succeeds for one of 256 messages");
        let entity_sigs: Vec<EntitySingleSignature> = fixture.sign_all(&message);
        let agg_json = serde_json::to_value(&agg).expect("aggregate signature to JSON");

        // SingleSignature
        let sig = stm_sigs[0].clone();
        let sig_json = serde_json::to_value(&sig).expect("signature to JSON");
        let sig_legacy = legacy_single_signature(&sig_json);
        b.protocol_key_forms("SingleSignature", &sig, Some(sig_legacy.clone()), true);
        b.protocol_key_codec_forms("SingleSignature", &sig, Some(&sig_legacy));
        b.golden_strings::<SingleSignature>(
            "SingleSignature",
            "golden-string",
            &fake_keys::single_signature(),
        );

        // SingleSignatureWithRegisteredParty (taken out of the aggregate through the repo's own serde)
        let sig_reg_json = agg_json["signatures"][0].clone();
        let sig_reg: SingleSignatureWithRegisteredParty =
            serde_json::from_value(sig_reg_json.clone())
                .expect("signature with registered party from JSON");
        b.protocol_key_forms(
            "SingleSignatureWithRegisteredParty",
            &sig_reg,
            Some(legacy_sig_reg(&sig_reg_json)),
            true,
        );

        // AggregateSignature (ConcatenationProof, MerkleBatchPath, registration entries inside)
        let agg_legacy = legacy_aggregate_signature(&agg_json);
        b.protocol_key_forms("AggregateSignature", &agg, Some(agg_legacy.clone()), true);
        b.protocol_key_codec_forms("AggregateSignature", &agg, Some(&agg_legacy));
        b.golden_strings::<AggregateSignature<D>>(
            "AggregateSignature",
            "golden-string",
            &fake_keys::multi_signature(),
        );

        // verification keys
        b.protocol_key_forms("VerificationKeyProofOfPossession", &vk_pop, None, true);
        b.protocol_key_codec_forms("VerificationKeyProofOfPossession", &vk_pop, None);
        b.golden_strings::<VerificationKeyProofOfPossessionForConcatenation>(
            "VerificationKeyProofOfPossession",
            "golden-string",
            &fake_keys::signer_verification_key(),
        );
        let vk: VerificationKeyForConcatenation = vk_pop.vk;
        b.protocol_key_forms("VerificationKey", &vk, None, true);

        // aggregate verification key
        let avk: ProtocolAggregateVerificationKey = fixture.compute_aggregate_verification_key();
        let avk_json = serde_json::to_value(&avk_c).expect("avk to JSON");
        let avk_legacy = legacy_avk(&avk_json);
        b.protocol_key_forms(
            "AggregateVerificationKey",
            &avk_c,
            Some(avk_legacy.clone()),
            true,
        );
        b.protocol_key_codec_forms("AggregateVerificationKey", &avk_c, Some(&avk_legacy));
        b.golden_strings::<AggregateVerificationKeyForConcatenation<D>>(
            "AggregateVerificationKey",
            "golden-string",
            &fake_keys::aggregate_verification_key_for_concatenation(),
        );

        // protocol parameters
        b.protocol_key_forms(
            "Parameters",
            &params,
            Some(legacy_parameters(&params)),
            true,
        );

        // ---- certified signers: operational certificate, KES signature, registration message
        let csigner: SignerWithStake =
            fixture.signers_with_stake()[cfg.certified_signers - 1].clone();
        let opcert: OpCert = csigner
            .operational_certificate
            .clone()
            .expect("certified signer has an opcert")
            .into_inner();
        b.protocol_key_forms("OpCert", &opcert, None, true);
        b.protocol_key_codec_forms("OpCert", &opcert, None);
        b.golden_strings::<OpCert>(
            "OpCert",
            "golden-string",
            &fake_keys::operational_certificate(),
        );
        let kes_sig = csigner
            .verification_key_signature_for_concatenation
            .clone()
            .expect("certified signer has a KES signature")
            .into_inner();
        b.protocol_key_forms("KesSignature", &kes_sig, None, true);
        b.protocol_key_codec_forms("KesSignature", &kes_sig, None);
        b.golden_strings::<kes_summed_ed25519::kes::Sum6KesSig>(
            "KesSignature",
            "golden-string",
            &fake_keys::signer_verification_key_signature(),
        );

        // entities::Signer / SignerWithStake as JSON (ProtocolKey serde inside)
        let signer_entity: Signer = csigner.clone().into();
        b.json_entity("Signer", &signer_entity, &[]);
        b.json_entity("SignerWithStake", &csigner, &[]);

        // RegisterSignerMessage (what a signer posts) + the conversions the aggregator applies
        let register_signer = RegisterSignerMessage {
            epoch: Epoch(cfg.epoch),
            party_id: csigner.party_id.clone(),
            verification_key_for_concatenation: csigner
                .verification_key_for_concatenation
                .to_json_hex()
                .expect("vk json hex"),
            verification_key_signature_for_concatenation: csigner
                .verification_key_signature_for_concatenation
                .as_ref()
                .map(|s| s.to_json_hex().expect("kes sig json hex")),
            operational_certificate: csigner
                .operational_certificate
                .as_ref()
                .map(|o| o.to_json_hex().expect("opcert")),
            kes_evolutions: Some(KesEvolutions(cfg.seed % 60)),
        };
        b.register_signer_message(&register_signer);

        // ---- single signature entity / registration messages
        let esig = entity_sigs[0].clone();
        b.json_entity_by_reencoding("entities::SingleSignature", &esig);
        let signed_entity_type =
            SignedEntityType::CardanoDatabase(CardanoDbBeacon::new(cfg.epoch, cfg.seed % 10_000));
        let register_signature = RegisterSignatureMessageHttp {
            signed_entity_type: signed_entity_type.clone().into(),
            party_id: esig.party_id.clone(),
            signature: esig.signature.to_json_hex().expect("signature json hex"),
            won_indexes: esig.won_indexes.clone(),
            signed_message: message.compute_hash(),
        };
        b.register_signature_message(&register_signature);
        let dmq = RegisterSignatureMessageDmq {
            signed_entity_type: signed_entity_type.clone().into(),
            signature: esig.signature.clone(),
        };
        b.dmq_message(&dmq);
        b.signed_entity_type(&signed_entity_type);

        // ---- certificates: genesis and multi-signed, with fixed timestamps
        let metadata = CertificateMetadata::new(
            "devnet",
            "0.1.0",
            fixture.protocol_parameters(),
            fixed_time(cfg.seed, 0),
            fixed_time(cfg.seed.rotate_left(17), 100),
            fixture.stake_distribution_parties(),
        );
        let certificate = Certificate::try_new(
            format!("{:064x}", cfg.seed),
            Epoch(cfg.epoch),
            metadata.clone(),
            message.clone(),
            avk.clone(),
            CertificateSignature::MultiSignature(
                signed_entity_type.clone(),
                certificate_agg.clone().into(),
            ),
            None,
            None,
        )
        .expect("certificate");
        b.certificate("CertificateMessage", &certificate);
        let mut genesis = fixture.create_genesis_certificate("devnet", Epoch(cfg.epoch));
        genesis.metadata.initiated_at = fixed_time(cfg.seed, 7);
        genesis.metadata.sealed_at = fixed_time(cfg.seed, 8);
        genesis.hash = genesis.try_compute_hash().expect("genesis hash");
        if let CertificateSignature::GenesisSignature(sig) = &genesis.signature {
            let s: ed25519_dalek::Signature = (**sig).clone();
            b.protocol_key_forms("GenesisSignature", &s, None, true);
            b.protocol_key_codec_forms("GenesisSignature", &s, None);
            b.golden_strings::<ed25519_dalek::Signature>(
                "GenesisSignature",
                "golden-string",
                &fake_keys::genesis_signature(),
            );
        }
        let gvk_text = fake_keys::genesis_verification_key()[0];
        let gvk: GenesisEd25519VerificationKey = gvk_text
            .try_into()
            .expect("genesis verification key fixture");
        let gvk_inner: ed25519_dalek::VerifyingKey = *gvk;
        b.protocol_key_forms("GenesisVerificationKey", &gvk_inner, None, true);
        b.protocol_key_codec_forms("GenesisVerificationKey", &gvk_inner, None);
        b.certificate("CertificateMessage(genesis)", &genesis);

        // ---- Merkle proofs
        let mut rng = Rng::new(cfg.seed ^ 0x77aa);
        let leaves: Vec<String> = (0..cfg.tx_leaves + 1)
            .map(|i| format!("leaf-{:x}-{i}", rng.next_u64()))
            .collect();
        let mk_proof = MKProof::from_leaves(&leaves).expect("MKProof");
        b.mk_proof(&mk_proof);
        b.protocol_key_codec_forms("MKProof", &mk_proof, None);

        let bits = rng.range(4, 30);
        let mut block = rng.range(0, 1 << bits);
        let tx_leaves: Vec<(BlockNumber, String)> = (0..cfg.tx_leaves)
            .map(|i| {
                block += rng.range(0, 40);
                (BlockNumber(block), format!("tx-{:x}-{i}", rng.next_u64()))
            })
            .collect();
        let set_proof = CardanoTransactionsSetProof::from_leaves::<MKTreeStoreInMemory>(&tx_leaves)
            .expect("set proof");
        let set_proof_part: CardanoTransactionsSetProofMessagePart = set_proof
            .clone()
            .try_into()
            .expect("set proof message part");
        // the entity keeps its proof private: take it back out of the message part the real code emitted
        let map_proof: MKMapProof<BlockRange> =
            ProtocolMkProof::from_json_hex(&set_proof_part.proof)
                .expect("honest proof decodes")
                .into_inner();
        b.mk_map_proof(&map_proof);
        let proofs_v1 = CardanoTransactionsProofsMessage::new(
            &certificate.hash,
            vec![set_proof_part.clone()],
            vec![format!("tx-missing-{:x}", cfg.seed)],
            BlockNumber(block + 10),
        );
        b.proofs_v1(&proofs_v1);

        let bits = rng.range(4, 30);
        let mut block = rng.range(0, 1 << bits);
        let txs: Vec<CardanoTransaction> = (0..cfg.tx_leaves)
            .map(|i| {
                block += rng.range(0, 40);
                CardanoTransaction::new(
                    format!("tx_hash-{:x}-{i}", rng.next_u64()),
                    BlockNumber(block),
                    SlotNumber(block * 20 + 3),
                    format!("block_hash-{block}"),
                )
            })
            .collect();
        let tx_proof = MkSetProof::<CardanoTransaction>::from_leaves::<MKTreeStoreInMemory>(&txs)
            .expect("tx proof v2");
        let proofs_v2 = CardanoTransactionsProofsV2Message::new(
            &certificate.hash,
            Some(tx_proof.try_into().expect("tx proof part")),
            vec![format!("tx-missing-{:x}", cfg.seed)],
            BlockNumber(block + 10),
            mithril_common::entities::BlockNumberOffset(15),
        );
        b.proofs_v2_transactions(&proofs_v2);

        let bits = rng.range(4, 30);
        let mut block = rng.range(0, 1 << bits);
        let blocks: Vec<CardanoBlock> = (0..cfg.block_leaves)
            .map(|_| {
                block += rng.range(1, 40);
                CardanoBlock::new(
                    format!("block_hash-{:x}", rng.next_u64()),
                    BlockNumber(block),
                    SlotNumber(block * 20),
                )
            })
            .collect();
        let block_proof = MkSetProof::<CardanoBlock>::from_leaves::<MKTreeStoreInMemory>(&blocks)
            .expect("block proof");
        let proofs_blocks = CardanoBlocksProofsMessage::new(
            &certificate.hash,
            Some(block_proof.try_into().expect("block proof part")),
            vec![format!("block-missing-{:x}", cfg.seed)],
            BlockNumber(block + 10),
            mithril_common::entities::BlockNumberOffset(15),
        );
        b.proofs_v2_blocks(&proofs_blocks);

        // ---- outside the statement (local secrets): probes only
        let initializer: ProtocolInitializer = signers[0].protocol_initializer.clone();
        b.initializer(&initializer);

        HonestSet {
            cfg: cfg.clone(),
            encodings: b.encs,
        }
    }
}

// ---------------------------------------------------------------------------------------------
// message-level encodings

fn to_value<T: Serialize>(v: &T) -> Value {
    serde_json::to_value(v).expect("to JSON value")
}

impl Builder {
    /// a serde type whose JSON re-encoding identifies the value
    fn json_entity<T>(&mut self, ty: &'static str, v: &T, needles: &[&str])
    where
        T: Serialize + DeserializeOwned + PartialEq + Clone + Send + Sync + 'static,
    {
        let doc = serde_json::to_vec(v).expect("entity to JSON");
        let honest = v.clone();
        let strings = string_values(&to_value(v));
        let mut needle_refs: Vec<&str> = strings.iter().map(|s| s.as_str()).collect();
        needle_refs.extend_from_slice(needles);
        let hot = hot_in_doc(&doc, &needle_refs, 32);
        self.push(
            ty,
            "json",
            doc,
            hot,
            vec![Entry {
                name: "serde_json::from_slice",
                dec: dec_with(move |b| {
                    serde_json::from_slice::<T>(b)
                        .map(|d| d == honest)
                        .map_err(short)
                }),
            }],
        );
    }

    fn json_entity_by_reencoding<T>(&mut self, ty: &'static str, v: &T)
    where
        T: Serialize + DeserializeOwned + Clone + Send + Sync + 'static,
    {
        let doc = serde_json::to_vec(v).expect("entity to JSON");
        let honest = to_value(v);
        let strings = string_values(&honest);
        let needle_refs: Vec<&str> = strings.iter().map(|s| s.as_str()).collect();
        let hot = hot_in_doc(&doc, &needle_refs, 32);
        self.push(
            ty,
            "json",
            doc,
            hot,
            vec![Entry {
                name: "serde_json::from_slice",
                dec: dec_with(move |b| {
                    serde_json::from_slice::<T>(b)
                        .map(|d| to_value(&d) == honest)
                        .map_err(short)
                }),
            }],
        );
    }

    fn register_signer_message(&mut self, m: &RegisterSignerMessage) {
        let doc = serde_json::to_vec(m).expect("message to JSON");
        let strings = string_values(&to_value(m));
        let needle_refs: Vec<&str> = strings.iter().map(|s| s.as_str()).collect();
        let hot = hot_in_doc(&doc, &needle_refs, 32);
        let honest = m.clone();
        let honest2 = m.clone();
        self.push(
            "RegisterSignerMessage",
            "json",
            doc,
            hot,
            vec![
                Entry {
                    name: "serde_json::from_slice",
                    dec: dec_with(move |b| {
                        serde_json::from_slice::<RegisterSignerMessage>(b)
                            .map(|d| d == honest)
                            .map_err(short)
                    }),
                },
                Entry {
                    // what mithril-aggregator's FromRegisterSignerAdapter does with the message
                    name: "serde_json::from_slice + ProtocolKey::try_from(String) per key field",
                    dec: dec_with(move |b| {
                        let d =
                            serde_json::from_slice::<RegisterSignerMessage>(b).map_err(short)?;
                        let signer = signer_from_message(d.clone()).map_err(short)?;
                        let back = message_from_signer(d.epoch, &signer).map_err(short)?;
                        Ok(d == honest2 && back == honest2)
                    }),
                },
            ],
        );
    }

    fn register_signature_message(&mut self, m: &RegisterSignatureMessageHttp) {
        let doc = serde_json::to_vec(m).expect("message to JSON");
        let hot = hot_in_doc(&doc, &[m.signature.as_str(), m.signed_message.as_str()], 32);
        let honest = m.clone();
        self.push(
            "RegisterSignatureMessageHttp",
            "json",
            doc,
            hot,
            vec![Entry {
                // FromRegisterSingleSignatureAdapter: signature string -> ProtocolSingleSignature
                name: "serde_json::from_slice + ProtocolSingleSignature::try_from(String)",
                dec: dec_with(move |b| {
                    let d =
                        serde_json::from_slice::<RegisterSignatureMessageHttp>(b).map_err(short)?;
                    let sig: ProtocolSingleSignature =
                        d.signature.clone().try_into().map_err(short)?;
                    let same_sig = sig.to_json_hex().map_err(short)? == honest.signature;
                    Ok(d == honest && same_sig)
                }),
            }],
        );
    }

    fn dmq_message(&mut self, m: &RegisterSignatureMessageDmq) {
        let bytes = m.to_bytes_vec().expect("dmq message bytes");
        // u16 length | signed entity type | u32 length | signature
        let set_len = u16::from_be_bytes([bytes[0], bytes[1]]) as usize;
        let mut hot: Vec<usize> = vec![0, 1];
        hot.extend(2..2 + set_len.min(24));
        hot.extend(2 + set_len..2 + set_len + 4);
        let sig_at = 2 + set_len + 4;
        let mut words = vec![
            WordField {
                off: 0,
                width: 2,
                enc: WordEnc::Be,
                hex: false,
            },
            WordField {
                off: 2 + set_len,
                width: 4,
                enc: WordEnc::Be,
                hex: false,
            },
        ];
        words.extend(
            words_of_bytes(&bytes[sig_at..])
                .iter()
                .map(|w| w.shifted(sig_at)),
        );
        hot.extend(
            hot_of_bytes(&bytes[sig_at..])
                .into_iter()
                .map(|h| h + sig_at),
        );
        self.push(
            "RegisterSignatureMessageDmq",
            "frame",
            bytes.clone(),
            hot.clone(),
            vec![Entry {
                name: "RegisterSignatureMessageDmq::try_from_bytes_vec",
                dec: dec_bytes(m, |b| RegisterSignatureMessageDmq::try_from_bytes_vec(b)),
            }],
        );
        self.words(words.clone());
        self.push(
            "RegisterSignatureMessageDmq",
            "frame-hex",
            hex::encode(&bytes).into_bytes(),
            hot_hex(&hot),
            vec![Entry {
                name: "TryFromBytes::try_from_bytes_hex",
                dec: dec_str(m, |s| RegisterSignatureMessageDmq::try_from_bytes_hex(s)),
            }],
        );
        self.words(words_hex(&words, 0));
    }

    fn signed_entity_type(&mut self, t: &SignedEntityType) {
        let bytes = t.to_bytes_vec().expect("signed entity type bytes");
        self.push(
            "SignedEntityType",
            "bytes",
            bytes.clone(),
            (0..bytes.len().min(32)).collect(),
            vec![Entry {
                name: "TryFromBytes::try_from_bytes",
                dec: dec_bytes(t, |b| SignedEntityType::try_from_bytes(b)),
            }],
        );
    }

    fn certificate(&mut self, ty: &'static str, c: &Certificate) {
        let message: CertificateMessage = c.clone().try_into().expect("certificate to message");
        let doc = serde_json::to_vec(&message).expect("certificate message to JSON");
        let mut needles: Vec<&str> = vec![
            message.aggregate_verification_key.as_str(),
            message.multi_signature.as_str(),
            message.genesis_signature.as_str(),
        ];
        let strings = string_values(&to_value(&message));
        needles.extend(strings.iter().map(|s| s.as_str()));
        let hot = hot_in_doc(&doc, &needles, 32);
        let honest = message.clone();
        let honest2 = message.clone();
        self.push(
            ty,
            "json",
            doc,
            hot,
            vec![
                Entry {
                    name: "serde_json::from_slice",
                    dec: dec_with(move |b| {
                        serde_json::from_slice::<CertificateMessage>(b)
                            .map(|d| d == honest)
                            .map_err(short)
                    }),
                },
                Entry {
                    name: "serde_json::from_slice + Certificate::try_from(CertificateMessage)",
                    dec: dec_with(move |b| {
                        let d = serde_json::from_slice::<CertificateMessage>(b).map_err(short)?;
                        let cert = Certificate::try_from(d.clone()).map_err(short)?;
                        let back: CertificateMessage = cert.try_into().map_err(short)?;
                        Ok(d == honest2 && back == honest2)
                    }),
                },
            ],
        );
    }

    fn mk_proof(&mut self, p: &MKProof) {
        let bytes = p.to_bytes().expect("MKProof bincode");
        let words = bincode_words(&bytes, false);
        let hot: Vec<usize> = (0..bytes.len().min(48)).collect();
        self.push(
            "MKProof",
            "bincode",
            bytes.clone(),
            hot.clone(),
            vec![
                Entry {
                    name: "MKProof::from_bytes",
                    dec: dec_bytes(p, |b| MKProof::from_bytes(b)),
                },
                Entry {
                    name: "ProtocolKey::from_bytes",
                    dec: dec_bytes(&ProtocolKey::new(p.clone()), |b| {
                        ProtocolKey::<MKProof>::from_bytes(b)
                    }),
                },
            ],
        );
        self.words(words.clone());
        self.push(
            "MKProof",
            "bincode-hex",
            hex::encode(&bytes).into_bytes(),
            hot_hex(&hot),
            vec![Entry {
                name: "ProtocolKey::from_bytes_hex",
                dec: dec_str(&ProtocolKey::new(p.clone()), |s| {
                    ProtocolKey::<MKProof>::from_bytes_hex(s)
                }),
            }],
        );
        self.words(words_hex(&words, 0));
        let json_hex = ProtocolKey::<MKProof>::key_to_json_hex(p).expect("json hex");
        self.push(
            "MKProof",
            "json-hex",
            json_hex.into_bytes(),
            (0..64).collect(),
            vec![Entry {
                name: "ProtocolKey::from_json_hex",
                dec: dec_str(&ProtocolKey::new(p.clone()), |s| {
                    ProtocolKey::<MKProof>::from_json_hex(s)
                }),
            }],
        );
        self.push(
            "MKProof",
            "json",
            serde_json::to_vec(p).expect("json"),
            vec![],
            vec![Entry {
                name: "serde_json::from_slice",
                dec: dec_bytes(p, |b| serde_json::from_slice::<MKProof>(b)),
            }],
        );
    }

    fn mk_map_proof(&mut self, p: &MKMapProof<BlockRange>) {
        let bytes = p.to_bytes().expect("MKMapProof bincode");
        let words = bincode_words(&bytes, true);
        let hot: Vec<usize> = (0..bytes.len().min(48)).collect();
        self.push(
            "MKMapProof",
            "bincode",
            bytes.clone(),
            hot.clone(),
            vec![
                Entry {
                    name: "MKMapProof::from_bytes",
                    dec: dec_bytes(p, |b| MKMapProof::<BlockRange>::from_bytes(b)),
                },
                Entry {
                    name: "ProtocolMkProof::from_bytes",
                    dec: dec_bytes(&ProtocolKey::new(p.clone()), |b| {
                        ProtocolMkProof::from_bytes(b)
                    }),
                },
            ],
        );
        self.words(words.clone());
        self.push(
            "MKMapProof",
            "bincode-hex",
            hex::encode(&bytes).into_bytes(),
            hot_hex(&hot),
            vec![Entry {
                name: "ProtocolMkProof::from_bytes_hex",
                dec: dec_str(&ProtocolKey::new(p.clone()), |s| {
                    ProtocolMkProof::from_bytes_hex(s)
                }),
            }],
        );
        self.words(words_hex(&words, 0));
        let json_hex = ProtocolMkProof::new(p.clone())
            .to_json_hex()
            .expect("json hex");
        self.push(
            "MKMapProof",
            "json-hex",
            json_hex.into_bytes(),
            (0..64).collect(),
            vec![Entry {
                name: "ProtocolMkProof::from_json_hex",
                dec: dec_str(&ProtocolKey::new(p.clone()), |s| {
                    ProtocolMkProof::from_json_hex(s)
                }),
            }],
        );
        self.push(
            "MKMapProof",
            "json",
            serde_json::to_vec(p).expect("json"),
            vec![],
            vec![Entry {
                name: "serde_json::from_slice",
                dec: dec_bytes(p, |b| serde_json::from_slice::<MKMapProof<BlockRange>>(b)),
            }],
        );
    }

    fn proofs_v1(&mut self, m: &CardanoTransactionsProofsMessage) {
        let doc = serde_json::to_vec(m).expect("proofs message to JSON");
        let needles: Vec<&str> = m
            .certified_transactions
            .iter()
            .map(|p| p.proof.as_str())
            .collect();
        let hot = hot_in_doc(&doc, &needles, 48);
        let honest = m.clone();
        self.push(
            "CardanoTransactionsProofsMessage",
            "json",
            doc,
            hot,
            vec![Entry {
                // the decoding half of CardanoTransactionsProofsMessage::verify
                name: "serde_json::from_slice + CardanoTransactionsSetProof::try_from(part)",
                dec: dec_with(move |b| {
                    let d = serde_json::from_slice::<CardanoTransactionsProofsMessage>(b)
                        .map_err(short)?;
                    let mut back = Vec::new();
                    for part in &d.certified_transactions {
                        let proof: CardanoTransactionsSetProof =
                            part.clone().try_into().map_err(short)?;
                        let again: CardanoTransactionsSetProofMessagePart =
                            proof.try_into().map_err(short)?;
                        back.push(again);
                    }
                    Ok(d == honest && back == honest.certified_transactions)
                }),
            }],
        );
    }

    fn proofs_v2_transactions(&mut self, m: &CardanoTransactionsProofsV2Message) {
        let doc = serde_json::to_vec(m).expect("proofs v2 message to JSON");
        let needles: Vec<&str> = m
            .certified_transactions
            .iter()
            .map(|p| p.proof.as_str())
            .collect();
        let hot = hot_in_doc(&doc, &needles, 48);
        let words = words_of_hex_proof_in_doc(&doc, needles.first().copied());
        let honest = m.clone();
        self.push(
            "CardanoTransactionsProofsV2Message",
            "json",
            doc,
            hot,
            vec![Entry {
                name: "serde_json::from_slice + MkSetProof::try_from(part)",
                dec: dec_with(move |b| {
                    let d = serde_json::from_slice::<CardanoTransactionsProofsV2Message>(b)
                        .map_err(short)?;
                    let mut back = None;
                    if let Some(part) = &d.certified_transactions {
                        let proof: MkSetProof<CardanoTransaction> =
                            part.clone().try_into().map_err(short)?;
                        let again: MkSetProofMessagePart<
                            mithril_common::messages::CardanoTransactionMessagePart,
                        > = proof.try_into().map_err(short)?;
                        back = Some(again);
                    }
                    Ok(d == honest && back == honest.certified_transactions)
                }),
            }],
        );
        self.words(words);
    }

    fn proofs_v2_blocks(&mut self, m: &CardanoBlocksProofsMessage) {
        let doc = serde_json::to_vec(m).expect("block proofs message to JSON");
        let needles: Vec<&str> = m
            .certified_blocks
            .iter()
            .map(|p| p.proof.as_str())
            .collect();
        let hot = hot_in_doc(&doc, &needles, 48);
        let words = words_of_hex_proof_in_doc(&doc, needles.first().copied());
        let honest = m.clone();
        self.push(
            "CardanoBlocksProofsMessage",
            "json",
            doc,
            hot,
            vec![Entry {
                name: "serde_json::from_slice + MkSetProof::try_from(part)",
                dec: dec_with(move |b| {
                    let d =
                        serde_json::from_slice::<CardanoBlocksProofsMessage>(b).map_err(short)?;
                    let mut back = None;
                    if let Some(part) = &d.certified_blocks {
                        let proof: MkSetProof<CardanoBlock> =
                            part.clone().try_into().map_err(short)?;
                        let again: MkSetProofMessagePart<
                            mithril_common::messages::CardanoBlockMessagePart,
                        > = proof.try_into().map_err(short)?;
                        back = Some(again);
                    }
                    Ok(d == honest && back == honest.certified_blocks)
                }),
            }],
        );
        self.words(words);
    }

    fn initializer(&mut self, init: &ProtocolInitializer) {
        let bytes = init.to_bytes().expect("initializer bytes");
        let honest = bytes.clone();
        let mut hot: Vec<usize> = (0..8).collect();
        hot.extend(hot_of_bytes(&bytes[8..]).into_iter().map(|h| h + 8));
        let mut words = be_words(&[0]);
        words.extend(words_of_bytes(&bytes[8..]).iter().map(|w| w.shifted(8)));
        self.push_scoped(
            "ProtocolInitializer(local secret)",
            "bytes",
            bytes,
            hot,
            vec![Entry {
                name: "StmInitializerWrapper::from_bytes",
                dec: dec_with(move |b| {
                    ProtocolInitializer::from_bytes(b)
                        .and_then(|d| d.to_bytes())
                        .map(|again| again == honest)
                        .map_err(short)
                }),
            }],
            false,
        );
        self.words(words);
        let doc = serde_json::to_vec(init).expect("initializer json");
        let honest = serde_json::to_value(init).expect("initializer json value");
        self.push_scoped(
            "ProtocolInitializer(local secret)",
            "json",
            doc,
            vec![],
            vec![Entry {
                name: "serde_json::from_slice",
                dec: dec_with(move |b| {
                    serde_json::from_slice::<ProtocolInitializer>(b)
                        .map(|d| to_value(&d) == honest)
                        .map_err(short)
                }),
            }],
            false,
        );
    }
}

/// word fields of the bincode proof carried as a hex string inside a JSON document
fn words_of_hex_proof_in_doc(doc: &[u8], proof_hex: Option<&str>) -> Vec<WordField> {
    let Some(text) = proof_hex else { return vec![] };
    let Ok(bytes) = hex::decode(text) else {
        return vec![];
    };
    let needle = text.as_bytes();
    let Some(at) = doc.windows(needle.len()).position(|w| w == needle) else {
        return vec![];
    };
    words_hex(&bincode_words(&bytes, true), at)
}

fn string_values(v: &Value) -> Vec<String> {
    let mut out = Vec::new();
    fn rec(v: &Value, out: &mut Vec<String>) {
        match v {
            Value::String(s) if s.len() >= 32 => out.push(s.clone()),
            Value::Array(a) => a.iter().for_each(|x| rec(x, out)),
            Value::Object(o) => o.values().for_each(|x| rec(x, out)),
            _ => {}
        }
    }
    rec(v, &mut out);
    out.sort();
    out.dedup();
    out
}

/// Same field-by-field conversion as mithril-aggregator's `FromRegisterSignerAdapter`.
fn signer_from_message(m: RegisterSignerMessage) -> anyhow::Result<Signer> {
    Ok(Signer {
        party_id: m.party_id,
        verification_key_for_concatenation: m.verification_key_for_concatenation.try_into()?,
        verification_key_signature_for_concatenation: m
            .verification_key_signature_for_concatenation
            .map(|s| s.try_into())
            .transpose()?,
        operational_certificate: m
            .operational_certificate
            .map(|s| s.try_into())
            .transpose()?,
        kes_evolutions: m.kes_evolutions,
    })
}

/// Same as mithril-signer's `ToRegisterSignerMessageAdapter`.
fn message_from_signer(epoch: Epoch, s: &Signer) -> anyhow::Result<RegisterSignerMessage> {
    Ok(RegisterSignerMessage {
        epoch,
        party_id: s.party_id.clone(),
        verification_key_for_concatenation: s.verification_key_for_concatenation.to_json_hex()?,
        verification_key_signature_for_concatenation: s
            .verification_key_signature_for_concatenation
            .as_ref()
            .map(|k| k.to_json_hex())
            .transpose()?,
        operational_certificate: s
            .operational_certificate
            .as_ref()
            .map(|k| k.to_json_hex())
            .transpose()?,
        kes_evolutions: s.kes_evolutions,
    })
}
