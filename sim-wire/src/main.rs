//! E6 wire-sim (property C05, scoped): honest encodings of every wire type, produced by the
//! repository's real code, are passed through a corrupting channel (transport / storage fault
//! model) into every public decode entry point, under a panic monitor, a counting allocator
//! and a no-progress watchdog. See REPORT.md.
mod alloc;
mod cbor;
mod engine;
mod exec;
mod faults;
mod honest;

#[global_allocator]
static GLOBAL: alloc::Counting = alloc::Counting;

fn main() {
    // error values are created by the thousand: never capture backtraces for them
    // SAFETY: single-threaded at this point
    unsafe {
        std::env::set_var("RUST_BACKTRACE", "0");
        std::env::set_var("RUST_LIB_BACKTRACE", "0");
    }
    exec::install();
    let args: Vec<String> = std::env::args().collect();
    if args.get(1).map(String::as_str) == Some("replay")
        && std::env::var_os("WIRE_SIM_SERVE_ALL").is_some()
    {
        alloc::SERVE_ALL.store(true, std::sync::atomic::Ordering::SeqCst);
    }
    if std::env::args().nth(1).as_deref() == Some("list") {
        // list the honest encodings and entry points of the default configuration
        let scratch = sim_core::scratch::Scratch::new("wire");
        unsafe { std::env::set_var("TMPDIR", scratch.path()) };
        let set = honest::HonestSet::build(&honest::HonestCfg::default_small());
        for e in &set.encodings {
            println!(
                "{:45} {:32} len={:6} hot={:4} words={:3} statement={}",
                e.ty,
                e.form,
                e.bytes.len(),
                e.hot.len(),
                e.words.len(),
                e.in_statement
            );
            for en in &e.entries {
                println!("      {}", en.name);
            }
        }
        return;
    }
    sim_core::batch::main(&engine::WireEngine)
}
