#!/usr/bin/env python3-vt
"""Validate MANIFEST.json and every evidence file against the given schemas."""
import json, sys, glob, jsonschema
ok = True
def check(path, schema):
    global ok
    try:
        jsonschema.validate(json.load(open(path)), json.load(open(schema)))
        print("ok  ", path)
    except Exception as e:
        ok = False
        print("FAIL", path, str(e).splitlines()[0])
check("/verif/MANIFEST.json", "/root/.vp/MANIFEST.schema.json")
for f in sorted(glob.glob("/verif/evidence/*.json")):
    check(f, "/root/.vp/EVIDENCE.schema.json")
sys.exit(0 if ok else 1)
