//! Event alphabet of a C12 history (operations on one node's disk, computations, storage
//! faults on the JSON cache file, sensitivity probes, a second node) and the seeded generator.
//! Every step is fully concrete: all random arguments are drawn at generation time, so a trace
//! replays without the PRNG. A step that is no longer enabled (its file is gone, its offset is
//! past the end) is skipped, which keeps shrunken traces executable.
use serde::{Deserialize, Serialize};
use sim_core::Rng;

use crate::exec::World;
use crate::reference::{NameClass, classify_name};

#[derive(Clone, Copy, Debug, PartialEq, Eq, Serialize, Deserialize)]
pub enum CacheKind {
    None,
    Mem,
    Json,
}

impl CacheKind {
    pub fn label(&self) -> &'static str {
        match self {
            CacheKind::None => "nocache",
            CacheKind::Mem => "mem",
            CacheKind::Json => "json",
        }
    }
}

#[derive(Clone, Copy, Debug, PartialEq, Eq, Serialize, Deserialize)]
pub enum Api {
    /// `ImmutableDigester::compute_merkle_tree` + `compute_root`
    Tree,
    /// `CardanoDatabaseSignableBuilder::compute_protocol_message`
    Signable,
    /// `ImmutableDigester::compute_digests_for_range(lo..=beacon)` (per-file digests; also the
    /// way a cache gets warmed by a run that is shorter or longer than a later one)
    Range { lo: u64 },
}

impl Api {
    pub fn label(&self) -> &'static str {
        match self {
            Api::Tree => "tree",
            Api::Signable => "signable",
            Api::Range { .. } => "range",
        }
    }
}

#[derive(Clone, Debug, PartialEq, Eq, Serialize, Deserialize)]
pub enum Damage {
    Truncate { at: u64 },
    BitFlip { at: u64, bit: u8 },
    /// a `<cache>.tmp` left behind by a writer that died between create and rename
    LeaveTmp { len: u32, seed: u64, partial_json: bool },
    Empty,
    Delete,
    Garbage { len: u32, seed: u64 },
    /// syntactically valid JSON of another shape (or an empty / junk map)
    WrongShape { variant: u8 },
}

impl Damage {
    pub fn label(&self) -> &'static str {
        match self {
            Damage::Truncate { .. } => "truncate",
            Damage::BitFlip { .. } => "bitflip",
            Damage::LeaveTmp { .. } => "tmp_left",
            Damage::Empty => "empty",
            Damage::Delete => "delete",
            Damage::Garbage { .. } => "garbage",
            Damage::WrongShape { .. } => "wrong_shape",
        }
    }
}

/// Perturbation of files of the node's db dir (paths relative to the db dir).
#[derive(Clone, Debug, PartialEq, Eq, Serialize, Deserialize)]
pub enum Perturb {
    Flip { file: String, at: u64, bit: u8 },
    Delete { file: String },
    Swap { a: String, b: String },
    Append0 { file: String },
    DropLast { file: String },
}

impl Perturb {
    pub fn label(&self) -> &'static str {
        match self {
            Perturb::Flip { .. } => "flip",
            Perturb::Delete { .. } => "delete",
            Perturb::Swap { .. } => "swap",
            Perturb::Append0 { .. } => "append0",
            Perturb::DropLast { .. } => "droplast",
        }
    }
    pub fn paths(&self) -> Vec<&str> {
        match self {
            Perturb::Flip { file, .. }
            | Perturb::Delete { file }
            | Perturb::Append0 { file }
            | Perturb::DropLast { file } => vec![file.as_str()],
            Perturb::Swap { a, b } => vec![a.as_str(), b.as_str()],
        }
    }
}

#[derive(Clone, Debug, PartialEq, Eq, Serialize, Deserialize)]
pub enum Step {
    /// create the trio `number` (files created in `order`, a permutation of chunk/primary/secondary)
    AppendTrio { number: u64, sizes: [u32; 3], seed: u64, order: [u8; 3] },
    /// the node keeps writing to a file of its in-progress (highest) trio
    Grow { path: String, add: u32, seed: u64 },
    /// extra file or directory somewhere in the db dir
    Extra { path: String, is_dir: bool, size: u32, seed: u64 },
    /// remove an extra (non-trio) file
    Remove { path: String },
    Compute { beacon: u64, cache: CacheKind, api: Api },
    /// process restart: new digester objects, memory cache lost, JSON cache file kept
    Restart,
    ResetCache { cache: CacheKind },
    DamageJson(Damage),
    /// sensitivity probe: cache-less root at `beacon` before and after `perturb`; the
    /// perturbation is reverted afterwards unless `keep`
    Probe { beacon: u64, perturb: Perturb, keep: bool },
    /// a second node with the same files, created in another order (seeded shuffle, or exact
    /// reverse of the sorted order), optionally with its own fresh JSON cache (computed twice)
    SecondNode { beacon: u64, order_seed: u64, reverse: bool, json: bool },
}

#[derive(Clone, Debug, Serialize, Deserialize)]
pub struct Config {
    /// directories created when the node is set up, in this order
    pub top_dirs: Vec<String>,
    /// where the node writes its trios, relative to the directory handed to the digester
    /// (`immutable`, or e.g. `db/immutable` when that directory is a parent of the real db)
    #[serde(default = "default_trio_dir")]
    pub trio_dir: String,
    /// --- generation-only knobs (recorded for the sample; ignored by replay) ---
    #[serde(default)]
    pub start: u64,
    #[serde(default)]
    pub steps: u32,
    #[serde(default)]
    pub initial_trios: u32,
    #[serde(default)]
    pub weights: Vec<u32>,
    #[serde(default)]
    pub damage_kinds: Vec<u8>,
    #[serde(default)]
    pub extra_kinds: Vec<u8>,
    #[serde(default)]
    pub caches: Vec<CacheKind>,
    #[serde(default)]
    pub size_profile: u8,
    #[serde(default)]
    pub permanent: bool,
}

fn default_trio_dir() -> String {
    "immutable".to_string()
}

pub const EXT: [&str; 3] = ["chunk", "primary", "secondary"];

pub fn trio_paths(trio_dir: &str, number: u64) -> [String; 3] {
    [
        format!("{trio_dir}/{number:05}.chunk"),
        format!("{trio_dir}/{number:05}.primary"),
        format!("{trio_dir}/{number:05}.secondary"),
    ]
}

/// Whether `path` is a canonically named trio file (`<trio_dir>/NNNNN.<ext>`, zero padded to 5).
pub fn is_canonical_trio_file(trio_dir: &str, path: &str) -> bool {
    let Some(name) = path.strip_prefix(trio_dir).and_then(|r| r.strip_prefix('/')) else { return false };
    match classify_name(name) {
        NameClass::Immutable(n) => {
            let (_, ext) = crate::reference::split_name(name);
            name == format!("{n:05}.{}", ext.unwrap_or(""))
        }
        _ => false,
    }
}

pub fn content(seed: u64, len: u32) -> Vec<u8> {
    Rng::new(seed).bytes(len as usize)
}

// step kinds, index into Config::weights
const K_APPEND: usize = 0;
const K_GROW: usize = 1;
const K_EXTRA: usize = 2;
const K_REMOVE: usize = 3;
const K_COMPUTE: usize = 4;
const K_RESTART: usize = 5;
const K_RESET: usize = 6;
const K_DAMAGE: usize = 7;
const K_PROBE: usize = 8;
const K_SECOND: usize = 9;
const BASE_WEIGHTS: [u32; 10] = [18, 5, 10, 2, 30, 6, 2, 9, 12, 6];

// extra kinds
pub const X_OTHER_EXT: u8 = 0;
pub const X_SUBDIR: u8 = 1;
pub const X_LOOKALIKE_NUMERIC: u8 = 2;
pub const X_SIX_DIGIT: u8 = 3;
pub const X_ELSEWHERE: u8 = 4;
pub const X_NESTED_IMMUTABLE: u8 = 5;
pub const X_UNPARSEABLE: u8 = 6;

pub fn gen_config(rng: &mut Rng) -> Config {
    let start = match rng.weighted(&[50, 10, 15, 25]) {
        0 => 1,
        1 => 0,
        2 => rng.range(99_994, 99_999),
        _ => rng.range(2, 400),
    };
    let steps = rng.range(5, 25) as u32;
    let initial_trios = rng.range(0, 6).min(steps as u64 - 2) as u32;
    // swarm: every step kind gets a multiplier; appends and computes never vanish
    let mut weights: Vec<u32> = BASE_WEIGHTS
        .iter()
        .map(|w| w * [0u32, 1, 2, 2, 4][rng.index(5)])
        .collect();
    weights[K_APPEND] = weights[K_APPEND].max(BASE_WEIGHTS[K_APPEND]);
    weights[K_COMPUTE] = weights[K_COMPUTE].max(BASE_WEIGHTS[K_COMPUTE] * 2);
    // ~20 % of the runs are free of storage faults
    let mut damage_kinds: Vec<u8> = Vec::new();
    if rng.chance(0.8) {
        for k in 0..7u8 {
            if rng.chance(0.5) {
                damage_kinds.push(k);
            }
        }
        if damage_kinds.is_empty() {
            damage_kinds.push(rng.below(7) as u8);
        }
        weights[K_DAMAGE] = weights[K_DAMAGE].max(BASE_WEIGHTS[K_DAMAGE]);
    } else {
        weights[K_DAMAGE] = 0;
    }
    let mut extra_kinds: Vec<u8> = Vec::new();
    for k in [X_OTHER_EXT, X_SUBDIR, X_LOOKALIKE_NUMERIC, X_SIX_DIGIT, X_ELSEWHERE] {
        if rng.chance(0.6) {
            extra_kinds.push(k);
        }
    }
    let nested = rng.chance(0.08);
    if nested {
        extra_kinds.push(X_NESTED_IMMUTABLE);
    }
    if rng.chance(0.06) {
        extra_kinds.push(X_UNPARSEABLE);
    }
    if extra_kinds.is_empty() {
        weights[K_EXTRA] = 0;
        weights[K_REMOVE] = 0;
    }
    let mut caches = vec![CacheKind::None, CacheKind::Mem, CacheKind::Json];
    if rng.chance(0.3) {
        // concentrate on one cache
        caches = vec![*rng.pick(&[CacheKind::Mem, CacheKind::Json, CacheKind::Json])];
    }
    if !damage_kinds.is_empty() && !caches.contains(&CacheKind::Json) {
        caches.push(CacheKind::Json);
    }
    // where the trios live: normally `<db>/immutable`; in histories that play with several
    // directories named `immutable` the digester is sometimes handed a parent of the real db
    let prefix = if nested && rng.chance(0.5) { *rng.pick(&["db/", "node/db/", "m/"]) } else { "" };
    let trio_dir = format!("{prefix}immutable");
    let mut top: Vec<String> = vec![trio_dir.clone(), format!("{prefix}ledger"), format!("{prefix}volatile")];
    rng.shuffle(&mut top);
    if rng.chance(if nested { 0.5 } else { 0.25 }) {
        // the immutable directory appears only with the first trio
        top.retain(|d| *d != trio_dir);
    }
    if rng.chance(0.15) {
        top.retain(|d| *d == trio_dir);
    }
    Config {
        top_dirs: top,
        trio_dir,
        start,
        steps,
        initial_trios,
        weights,
        damage_kinds,
        extra_kinds,
        caches,
        size_profile: rng.below(3) as u8,
        permanent: rng.chance(0.25),
    }
}

fn gen_size(profile: u8, rng: &mut Rng) -> u32 {
    match rng.weighted(&[12, 8, 80]) {
        0 => 0,
        1 => 1,
        _ => match profile {
            0 => rng.range(2, 64) as u32,
            1 => rng.log_uniform(2.0, 20_000.0) as u32,
            _ => {
                if rng.chance(0.3) {
                    *rng.pick(&[8191u32, 8192, 8193, 16_384, 65_536, 65_537])
                } else {
                    rng.log_uniform(2.0, 20_000.0) as u32
                }
            }
        },
    }
}

fn gen_append(number: u64, cfg: &Config, rng: &mut Rng) -> Step {
    let mut order = [0u8, 1, 2];
    if rng.chance(0.5) {
        rng.shuffle(&mut order);
    }
    Step::AppendTrio {
        number,
        sizes: [gen_size(cfg.size_profile, rng), gen_size(cfg.size_profile, rng), gen_size(cfg.size_profile, rng)],
        seed: rng.next_u64(),
        order,
    }
}

/// Highest trio number appended so far (None before the first append).
fn highest_trio(w: &World) -> Option<u64> {
    w.appended.iter().next_back().copied()
}

fn gen_beacon(w: &World, cfg: &Config, rng: &mut Rng) -> u64 {
    let Some(hi) = highest_trio(w) else {
        return *rng.pick(&[cfg.start, 0, 1, cfg.start + 1]);
    };
    let lo = w.appended.iter().next().copied().unwrap_or(hi);
    match rng.weighted(&[40, 30, 15, 10, 5]) {
        0 => hi.saturating_sub(1).max(lo),
        1 => rng.range(lo, hi),
        2 => hi,
        3 => hi + rng.range(1, 3),
        _ => *rng.pick(&[0, lo.saturating_sub(1), 1 << 40, u64::MAX, hi + 100_000]),
    }
}

fn gen_extra_path(w: &World, cfg: &Config, rng: &mut Rng) -> (String, bool) {
    let kind = *rng.pick(&cfg.extra_kinds);
    let hi = highest_trio(w).unwrap_or(cfg.start);
    // a number around the existing trios (sometimes one that does not exist yet)
    let num = if rng.chance(0.8) && hi >= cfg.start { rng.range(cfg.start, hi + 1) } else { hi + rng.range(1, 4) };
    let ext = *rng.pick(&EXT);
    let imm = w.trio_dir.as_str();
    match kind {
        X_OTHER_EXT => {
            let name = match rng.below(12) {
                0 => format!("{num:05}.{ext}.bak"),
                1 => format!("{num:05}.{ext}~"),
                2 => format!("{num:05}.{}", ext.to_uppercase()),
                3 => format!("{num:05}.{ext}s"),
                4 => format!("{num:05}.tmp"),
                5 => format!("{num:05}.{ext}.old"),
                6 => format!(".{ext}"),
                7 => ext.to_string(),
                8 => format!("{num:05}."),
                9 => format!("{num:05}"),
                10 => "README".to_string(),
                _ => format!("{num:05}{ext}"),
            };
            (format!("{imm}/{name}"), false)
        }
        X_SUBDIR => match rng.below(4) {
            0 => (format!("{imm}/sub/{num:05}.{ext}"), false),
            1 => (format!("{imm}/{num:07}.{ext}"), true),
            2 => (format!("{imm}/{num:07}.{ext}/{num:05}.{ext}"), false),
            _ => (format!("{imm}/old/immutable/{num:05}.{ext}"), false),
        },
        X_LOOKALIKE_NUMERIC => {
            let name = match rng.below(4) {
                0 => format!("{num}.{ext}"),
                1 => format!("{num:06}.{ext}"),
                2 => format!("+{num}.{ext}"),
                _ => format!("{num:08}.{ext}"),
            };
            (format!("{imm}/{name}"), false)
        }
        X_SIX_DIGIT => {
            let n = match rng.below(3) {
                0 => 100_000 + rng.below(20),
                1 => 999_999,
                _ => rng.range(100_000, 5_000_000),
            };
            (format!("{imm}/{n}.{ext}"), false)
        }
        X_ELSEWHERE => {
            let p = match rng.below(9) {
                0 => format!("ledger/{}", rng.range(1000, 99_999_999)),
                1 => format!("ledger/{num:05}.{ext}"),
                2 => format!("volatile/blocks-{}.dat", rng.below(50)),
                3 => format!("volatile/{num:05}.{ext}"),
                4 => "protocolMagicId".to_string(),
                5 => "lock".to_string(),
                6 => format!("{num:05}.{ext}"),
                7 => format!("ledger/{}/tables/{num:05}.{ext}", rng.range(1000, 9999)),
                _ => "clean".to_string(),
            };
            (p, false)
        }
        X_NESTED_IMMUTABLE => {
            // other directories named `immutable`: deeper than, as deep as (both sides of the
            // path order) or shallower than the node's own one
            let parent = *rng.pick(&[
                "ledger", "volatile", "aaa", "zzz", "ledger/snap", "db", "node", "node/db", "a", "z", "a/b/c", "",
            ]);
            let dir = if parent.is_empty() { "immutable".to_string() } else { format!("{parent}/immutable") };
            if rng.chance(0.2) {
                (dir, true)
            } else {
                // often the very numbers the node itself has, so that a wrong pick yields a root
                (format!("{dir}/{num:05}.{ext}"), false)
            }
        }
        _ => {
            let name = match rng.below(8) {
                0 => format!("abc.{ext}"),
                1 => format!("{num:05}.bak.{ext}"),
                2 => format!(" {num:05}.{ext}"),
                3 => format!("-1.{ext}"),
                4 => format!("99999999999999999999999.{ext}"),
                5 => format!("0x10.{ext}"),
                6 => format!("..{ext}"),
                _ => format!("{num:05}_.{ext}"),
            };
            (format!("{imm}/{name}"), false)
        }
    }
}

fn gen_damage(w: &World, cfg: &Config, rng: &mut Rng) -> Damage {
    let len = w.json_len().unwrap_or(0);
    match *rng.pick(&cfg.damage_kinds) {
        0 => Damage::Truncate { at: if len > 0 { rng.below(len) } else { 0 } },
        1 => Damage::BitFlip { at: if len > 0 { rng.below(len) } else { 0 }, bit: rng.below(8) as u8 },
        2 => Damage::LeaveTmp { len: rng.range(0, 300) as u32, seed: rng.next_u64(), partial_json: rng.chance(0.5) },
        3 => Damage::Empty,
        4 => Damage::Delete,
        5 => Damage::Garbage { len: rng.range(1, 200) as u32, seed: rng.next_u64() },
        _ => Damage::WrongShape { variant: rng.below(6) as u8 },
    }
}

fn gen_probe(w: &World, cfg: &Config, rng: &mut Rng) -> Option<Step> {
    let hi = highest_trio(w)?;
    let lo = w.disk.immutables().first().map(|c| c.number).unwrap_or(hi);
    let beacon = match rng.weighted(&[45, 40, 15]) {
        0 => hi.saturating_sub(1).max(lo),
        1 => rng.range(lo.min(hi), hi),
        _ => hi,
    };
    let mut covered: Vec<&String> = Vec::new();
    let mut beyond: Vec<&String> = Vec::new();
    let mut other: Vec<&String> = Vec::new();
    for p in w.disk.files.keys() {
        match w.disk.immutable_number_of(p) {
            Some(n) if n <= beacon => covered.push(p),
            Some(_) => beyond.push(p),
            None => other.push(p),
        }
    }
    let class = rng.weighted(&[60, 25, 15]);
    let pool: &Vec<&String> = match class {
        0 if !covered.is_empty() => &covered,
        1 if !beyond.is_empty() => &beyond,
        2 if !other.is_empty() => &other,
        _ if !covered.is_empty() => &covered,
        _ => return None,
    };
    let file = (*rng.pick(pool)).clone();
    let len = w.disk.files[&file].len() as u64;
    let perturb = match rng.weighted(&[45, 20, 15, 10, 10]) {
        0 if len > 0 => Perturb::Flip { file, at: rng.below(len), bit: rng.below(8) as u8 },
        1 => Perturb::Delete { file },
        2 => {
            let others: Vec<&&String> =
                pool.iter().filter(|p| w.disk.hashes[**p] != w.disk.hashes[&file]).collect();
            if others.is_empty() {
                Perturb::Append0 { file }
            } else {
                Perturb::Swap { a: file, b: (**rng.pick(&others)).clone() }
            }
        }
        4 if len > 0 => Perturb::DropLast { file },
        _ => Perturb::Append0 { file },
    };
    Some(Step::Probe { beacon, perturb, keep: cfg.permanent && rng.chance(0.3) })
}

/// Next step of a generated history, drawn from the current state of the world (model only).
pub fn gen_step(w: &World, cfg: &Config, index: u32, rng: &mut Rng) -> Step {
    let next_number = highest_trio(w).map(|h| h + 1).unwrap_or(cfg.start);
    if index == 0 && cfg.extra_kinds.contains(&X_NESTED_IMMUTABLE) && rng.chance(0.5) {
        // another directory named `immutable` that exists before the node's own one
        let mut only = cfg.clone();
        only.extra_kinds = vec![X_NESTED_IMMUTABLE];
        let (path, is_dir) = gen_extra_path(w, &only, rng);
        if w.disk.can_create(&path) {
            return Step::Extra { path, is_dir, size: gen_size(cfg.size_profile, rng), seed: rng.next_u64() };
        }
    }
    if index < cfg.initial_trios {
        return gen_append(next_number, cfg, rng);
    }
    // a damaged cache file is only interesting once a computation runs on it
    if w.has_pending_damage() && rng.chance(0.6) {
        let api = if rng.chance(0.6) { Api::Tree } else { Api::Signable };
        return Step::Compute { beacon: gen_beacon(w, cfg, rng), cache: CacheKind::Json, api };
    }
    for _ in 0..20 {
        let step = match rng.weighted(&cfg.weights) {
            K_APPEND => Some(gen_append(next_number, cfg, rng)),
            K_GROW => highest_trio(w).map(|hi| {
                let paths = trio_paths(&w.trio_dir, hi);
                Step::Grow {
                    path: paths[rng.index(3)].clone(),
                    add: rng.range(1, 5000) as u32,
                    seed: rng.next_u64(),
                }
            }),
            K_EXTRA => {
                let (path, is_dir) = gen_extra_path(w, cfg, rng);
                if w.disk.can_create(&path) {
                    Some(Step::Extra { path, is_dir, size: gen_size(cfg.size_profile, rng), seed: rng.next_u64() })
                } else {
                    None
                }
            }
            K_REMOVE => {
                let extras: Vec<&String> =
                    w.disk.files.keys().filter(|p| !is_canonical_trio_file(&w.trio_dir, p)).collect();
                if extras.is_empty() { None } else { Some(Step::Remove { path: (*rng.pick(&extras)).clone() }) }
            }
            K_COMPUTE => {
                let beacon = gen_beacon(w, cfg, rng);
                let cache = *rng.pick(&cfg.caches);
                let api = match rng.weighted(&[55, 30, 15]) {
                    0 => Api::Tree,
                    1 => Api::Signable,
                    _ => Api::Range { lo: if rng.chance(0.5) { 0 } else { rng.range(0, beacon.min(1 << 20)) } },
                };
                Some(Step::Compute { beacon, cache, api })
            }
            K_RESTART => Some(Step::Restart),
            K_RESET => Some(Step::ResetCache { cache: *rng.pick(&[CacheKind::Mem, CacheKind::Json]) }),
            K_DAMAGE => {
                if cfg.damage_kinds.is_empty() {
                    None
                } else if w.json_len().is_none() && rng.chance(0.85) {
                    // nothing to damage yet: let a computation write the cache file first
                    Some(Step::Compute { beacon: gen_beacon(w, cfg, rng), cache: CacheKind::Json, api: Api::Tree })
                } else {
                    Some(Step::DamageJson(gen_damage(w, cfg, rng)))
                }
            }
            K_PROBE => gen_probe(w, cfg, rng),
            K_SECOND => Some(Step::SecondNode {
                beacon: gen_beacon(w, cfg, rng),
                order_seed: rng.next_u64(),
                reverse: rng.chance(0.35),
                json: rng.chance(0.4),
            }),
            _ => unreachable!(),
        };
        if let Some(s) = step {
            return s;
        }
    }
    gen_append(next_number, cfg, rng)
}
