//! Executes a history against the REAL digester on a real scratch directory and judges every
//! computation (oracles of C12).
use std::collections::{BTreeMap, BTreeSet};
use std::panic::AssertUnwindSafe;
use std::path::{Path, PathBuf};
use std::sync::{Arc, OnceLock};

use mithril_cardano_node_internal_database::digesters::cache::{
    ImmutableFileDigestCacheProvider, JsonImmutableFileDigestCacheProviderBuilder,
    MemoryImmutableFileDigestCacheProvider,
};
use mithril_cardano_node_internal_database::digesters::{CardanoImmutableDigester, ImmutableDigester};
use mithril_cardano_node_internal_database::signable_builder::CardanoDatabaseSignableBuilder;
use mithril_common::entities::{CardanoDbBeacon, ProtocolMessagePartKey};
use mithril_common::signable_builder::SignableBuilder;
use sim_core::scratch::Scratch;
use sim_core::{Fingerprint, Rng, fnv64_str};

use crate::model::{Api, CacheKind, Config, Damage, EXT, Perturb, Step, content, trio_paths};
use crate::reference::{Covered, Disk, Expect, sha256_hex};

const EPOCH: u64 = 7;
const JSON_NAME: &str = "immutables_digests.json";

fn runtime() -> &'static tokio::runtime::Runtime {
    static RT: OnceLock<tokio::runtime::Runtime> = OnceLock::new();
    RT.get_or_init(|| {
        tokio::runtime::Builder::new_current_thread()
            .max_blocking_threads(2)
            .build()
            .expect("tokio runtime")
    })
}

fn logger() -> slog::Logger {
    slog::Logger::root(slog::Discard, slog::o!())
}

/// Result of one real computation.
#[derive(Clone, Debug, PartialEq, Eq)]
pub enum Real {
    Root(String),
    Digests(Vec<(String, String)>),
    Err(String),
    Panic(String),
}

impl Real {
    fn class(&self) -> &'static str {
        match self {
            Real::Root(_) | Real::Digests(_) => "ok",
            Real::Err(_) => "err",
            Real::Panic(_) => "panic",
        }
    }
    fn short(&self) -> String {
        match self {
            Real::Root(r) => format!("root {r}"),
            Real::Digests(d) => format!("{} digests", d.len()),
            Real::Err(e) => format!("error `{e}`"),
            Real::Panic(e) => format!("panic `{e}`"),
        }
    }
}

#[derive(Default, Debug)]
pub struct Outcome {
    pub violations: Vec<(String, String)>,
    pub counters: BTreeMap<String, u64>,
    pub labels: Vec<String>,
    pub states: Vec<u64>,
    pub checked_roots: u64,
    pub faults_in_action: u64,
    pub digest: u64,
}

impl Outcome {
    fn hit(&mut self, key: &str) {
        *self.counters.entry(key.to_string()).or_default() += 1;
    }
}

/// What the harness can observe of the JSON cache file (own parser, not the provider).
enum JsonObs {
    Absent,
    Unreadable,
    Map(BTreeMap<String, String>),
}

struct CacheState {
    /// the statement's precondition for cache-independence: every cached digest that will be
    /// served belongs to the *unchanged* file
    precondition: bool,
    class: &'static str,
}

pub struct World {
    scratch: Scratch,
    db: PathBuf,
    cache_dir: PathBuf,
    pub disk: Disk,
    pub trio_dir: String,
    /// trio numbers appended so far (generator bookkeeping only)
    pub appended: BTreeSet<u64>,
    mem: Arc<MemoryImmutableFileDigestCacheProvider>,
    d_none: Arc<CardanoImmutableDigester>,
    d_mem: Arc<CardanoImmutableDigester>,
    d_json: Arc<CardanoImmutableDigester>,
    /// model of the memory cache: file name -> digest stored at the first cached computation
    mem_seen: BTreeMap<String, String>,
    /// damage kind applied to the JSON cache and not yet exercised by a JSON-cached computation
    pending_damage: Option<&'static str>,
    canon_memo: BTreeMap<u64, Real>,
    aux: u64,
    pub out: Outcome,
    log: Fingerprint,
}

fn build_json_digester(cache_dir: &Path) -> Arc<CardanoImmutableDigester> {
    let provider = runtime()
        .block_on(
            JsonImmutableFileDigestCacheProviderBuilder::new(cache_dir, JSON_NAME)
                .ensure_dir_exist()
                .build(),
        )
        .expect("json cache provider builder");
    Arc::new(CardanoImmutableDigester::new(
        Some(Arc::new(provider) as Arc<dyn ImmutableFileDigestCacheProvider>),
        logger(),
    ))
}

impl World {
    pub fn new(cfg: &Config) -> World {
        let scratch = Scratch::new("c12");
        let db = scratch.path().join("n1").join("db");
        let cache_dir = scratch.path().join("n1").join("cache");
        std::fs::create_dir_all(&db).expect("db dir");
        let mem = Arc::new(MemoryImmutableFileDigestCacheProvider::default());
        let mut w = World {
            d_none: Arc::new(CardanoImmutableDigester::new(None, logger())),
            d_mem: Arc::new(CardanoImmutableDigester::new(
                Some(mem.clone() as Arc<dyn ImmutableFileDigestCacheProvider>),
                logger(),
            )),
            d_json: build_json_digester(&cache_dir),
            mem,
            scratch,
            db,
            cache_dir,
            disk: Disk::default(),
            trio_dir: cfg.trio_dir.clone(),
            appended: BTreeSet::new(),
            mem_seen: BTreeMap::new(),
            pending_damage: None,
            canon_memo: BTreeMap::new(),
            aux: 0,
            out: Outcome::default(),
            log: Fingerprint::new(),
        };
        for d in &cfg.top_dirs {
            w.mkdir(d);
        }
        w
    }

    // ---------------------------------------------------------------- disk plumbing

    fn mkdir(&mut self, rel: &str) {
        std::fs::create_dir_all(self.db.join(rel)).expect("mkdir");
        self.disk.add_dir(rel);
    }

    fn write(&mut self, rel: &str, bytes: Vec<u8>) {
        let p = self.db.join(rel);
        if let Some(parent) = p.parent() {
            std::fs::create_dir_all(parent).expect("parent dir");
        }
        std::fs::write(&p, &bytes).expect("write file");
        self.disk.put(rel, bytes);
    }

    fn delete(&mut self, rel: &str) -> Option<Vec<u8>> {
        let old = self.disk.remove(rel)?;
        std::fs::remove_file(self.db.join(rel)).expect("remove file");
        Some(old)
    }

    fn json_path(&self) -> PathBuf {
        self.cache_dir.join(JSON_NAME)
    }

    fn tmp_path(&self) -> PathBuf {
        self.json_path().with_extension("tmp")
    }

    pub fn has_pending_damage(&self) -> bool {
        self.pending_damage.is_some()
    }

    pub fn json_len(&self) -> Option<u64> {
        std::fs::metadata(self.json_path()).ok().map(|m| m.len())
    }

    fn observe_json(&self) -> JsonObs {
        match std::fs::read(self.json_path()) {
            Err(_) => JsonObs::Absent,
            Ok(bytes) => match std::str::from_utf8(&bytes)
                .ok()
                .and_then(|s| serde_json::from_str::<BTreeMap<String, String>>(s).ok())
            {
                Some(m) => JsonObs::Map(m),
                None => JsonObs::Unreadable,
            },
        }
    }

    fn sanitize(&self, s: String) -> String {
        let root = sim_core::scratch::scratch_root();
        let mut out = s.replace(&self.scratch.path().display().to_string(), "<S>");
        out = out.replace(&root.display().to_string(), "<R>");
        out.replace('\n', " ")
    }

    // ---------------------------------------------------------------- real computations

    fn real(&mut self, digester: &Arc<CardanoImmutableDigester>, db: &Path, beacon: u64, api: Api) -> Real {
        self.out.hit("sim_real_digester_calls");
        let d = digester.clone();
        let res = std::panic::catch_unwind(AssertUnwindSafe(|| -> Result<Real, String> {
            let b = CardanoDbBeacon::new(EPOCH, beacon);
            match api {
                Api::Tree => {
                    let tree = runtime()
                        .block_on(d.compute_merkle_tree(db, &b))
                        .map_err(|e| format!("{e:?}"))?;
                    let root = tree.compute_root().map_err(|e| format!("{e:?}"))?;
                    Ok(Real::Root(root.to_hex()))
                }
                Api::Signable => {
                    let builder = CardanoDatabaseSignableBuilder::new(
                        d.clone() as Arc<dyn ImmutableDigester>,
                        db,
                        logger(),
                    );
                    let msg = runtime()
                        .block_on(builder.compute_protocol_message(b))
                        .map_err(|e| format!("{e:?}"))?;
                    match msg.get_message_part(&ProtocolMessagePartKey::CardanoDatabaseMerkleRoot) {
                        Some(r) => Ok(Real::Root(r.clone())),
                        None => Err("protocol message without cardano_database_merkle_root".into()),
                    }
                }
                Api::Range { lo } => {
                    let computed = runtime()
                        .block_on(d.compute_digests_for_range(db, &(lo..=beacon)))
                        .map_err(|e| format!("{e:?}"))?;
                    Ok(Real::Digests(
                        computed.entries.into_iter().map(|(f, digest)| (f.filename, digest)).collect(),
                    ))
                }
            }
        }));
        let real = match res {
            Ok(Ok(r)) => r,
            Ok(Err(e)) => Real::Err(self.sanitize(e)),
            Err(p) => {
                let text = p
                    .downcast_ref::<String>()
                    .cloned()
                    .or_else(|| p.downcast_ref::<&str>().map(|s| s.to_string()))
                    .unwrap_or_else(|| "non-string panic".into());
                Real::Panic(self.sanitize(text))
            }
        };
        // normalised event log: results, never error texts
        match &real {
            Real::Root(r) => self.log.add(r),
            Real::Digests(d) => self.log.add_u64(d.len() as u64),
            Real::Err(_) => self.log.add("err"),
            Real::Panic(_) => self.log.add("panic"),
        };
        real
    }

    /// Cold, cache-less computation by the real digester on a canonical copy: a fresh
    /// directory holding exactly the covered files, created in sorted order.
    fn canonical(&mut self, covered: &[Covered], beacon: u64) -> Real {
        let mut key = Fingerprint::new();
        key.add_u64(beacon);
        for c in covered {
            key.add(&c.name).add(&c.digest);
        }
        if let Some(r) = self.canon_memo.get(&key.value()) {
            return r.clone();
        }
        self.aux += 1;
        let root = self.scratch.path().join(format!("canon-{}", self.aux));
        let imm = root.join("db").join("immutable");
        std::fs::create_dir_all(&imm).expect("canonical dir");
        for c in covered {
            let bytes = &self.disk.files[&self.disk.immutable_path(&c.name)];
            std::fs::write(imm.join(&c.name), bytes).expect("canonical file");
        }
        let d = Arc::new(CardanoImmutableDigester::new(None, logger()));
        let r = self.real(&d, &root.join("db"), beacon, Api::Tree);
        let _ = std::fs::remove_dir_all(&root);
        self.out.hit("sim_canonical_copies");
        self.canon_memo.insert(key.value(), r.clone());
        r
    }

    fn violate(&mut self, clause: &str, detail: String) {
        if self.out.violations.is_empty() {
            self.out.violations.push((clause.to_string(), detail));
        }
    }

    pub fn violated(&self) -> bool {
        !self.out.violations.is_empty()
    }

    fn cache_state(&self, kind: CacheKind, covered: &[Covered], beacon_hi: u64) -> CacheState {
        let entries: BTreeMap<String, String> = match kind {
            CacheKind::None => return CacheState { precondition: true, class: "none" },
            CacheKind::Mem => self.mem_seen.clone(),
            CacheKind::Json => match self.observe_json() {
                JsonObs::Absent => return CacheState { precondition: true, class: "absent" },
                JsonObs::Unreadable => return CacheState { precondition: true, class: "unreadable" },
                JsonObs::Map(m) => m,
            },
        };
        let mut hits = 0usize;
        let mut stale = false;
        let mut poisoned = false;
        for c in covered {
            if let Some(d) = entries.get(&c.name) {
                hits += 1;
                if *d != c.digest {
                    let was = self
                        .disk
                        .history
                        .get(&self.disk.immutable_path(&c.name))
                        .is_some_and(|h| h.contains(d));
                    if was { stale = true } else { poisoned = true }
                }
            }
        }
        let longer = entries.keys().any(|name| match crate::reference::classify_name(name) {
            crate::reference::NameClass::Immutable(n) => n > beacon_hi,
            _ => false,
        });
        let class = if poisoned {
            "poisoned"
        } else if stale {
            "stale"
        } else if hits == 0 {
            if entries.is_empty() { "cold" } else { "cold-foreign" }
        } else if hits == covered.len() {
            if longer { "warm-longer" } else { "warm" }
        } else {
            "partial"
        };
        CacheState { precondition: !(stale || poisoned), class }
    }

    fn digester(&self, kind: CacheKind) -> Arc<CardanoImmutableDigester> {
        match kind {
            CacheKind::None => self.d_none.clone(),
            CacheKind::Mem => self.d_mem.clone(),
            CacheKind::Json => self.d_json.clone(),
        }
    }

    /// Judge a cache-less computation on the node's directory at `beacon`. Returns the real
    /// result (for further comparisons) and whether it was the expected root.
    fn judge_cold(&mut self, beacon: u64, api: Api, what: &str) -> (Real, Expect) {
        let expect = self.disk.expect(beacon);
        let d = self.d_none.clone();
        let db = self.db.clone();
        let real = self.real(&d, &db, beacon, api);
        self.judge(&real, &expect, beacon, CacheKind::None, "none", what);
        (real, expect)
    }

    fn judge(&mut self, real: &Real, expect: &Expect, beacon: u64, cache: CacheKind, cache_class: &str, what: &str) {
        if let Real::Panic(p) = real {
            self.violate("computation-panicked", format!("{what} at beacon {beacon}: the computation panicked: {p}"));
            return;
        }
        match (expect, real) {
            (Expect::Root(want), Real::Root(got)) => {
                self.out.checked_roots += 1;
                if got == want {
                    return;
                }
                if cache != CacheKind::None {
                    let clause =
                        if cache_class == "unreadable" { "damaged-cache-changed-root" } else { "cache-changed-root" };
                    self.violate(
                        clause,
                        format!(
                            "{what} at beacon {beacon} with {} cache in state `{cache_class}` over unchanged files returned root {got}, the cache-less reference is {want}",
                            cache.label()
                        ),
                    );
                    return;
                }
                // which half disagrees: hashing/ordering as such, or the node's layout?
                let covered = self.disk.covered(beacon);
                let canon = self.canonical(&covered, beacon);
                if canon == Real::Root(want.clone()) {
                    self.violate(
                        "root-not-determined-by-covered-files",
                        format!(
                            "{what} at beacon {beacon}: node root {got}, but a canonical copy holding exactly the {} covered files gives {want} (= independent reference): other files, files beyond the beacon or creation order influenced the result",
                            covered.len()
                        ),
                    );
                } else {
                    self.violate(
                        "root-differs-from-reference",
                        format!(
                            "{what} at beacon {beacon}: node root {got}, canonical copy {}, independent reference (SHA-256 per file in (number, name) order) {want}",
                            canon.short()
                        ),
                    );
                }
            }
            (Expect::Root(want), Real::Err(e)) => {
                if cache != CacheKind::None {
                    let clause =
                        if cache_class == "unreadable" { "damaged-cache-caused-error" } else { "cache-caused-error" };
                    self.violate(
                        clause,
                        format!(
                            "{what} at beacon {beacon} with {} cache in state `{cache_class}` failed with `{e}` although the cache-less computation gives {want}",
                            cache.label()
                        ),
                    );
                } else {
                    self.violate(
                        "unexpected-error",
                        format!("{what} at beacon {beacon} failed with `{e}` although all covered files are present (reference root {want})"),
                    );
                }
            }
            (Expect::MustErr(why), Real::Root(got)) => {
                self.violate(
                    "beacon-not-on-disk-accepted",
                    format!("{what} at beacon {beacon} returned root {got} although {why}: a node that has the beacon's files would compute another root"),
                );
            }
            (Expect::MustErr(_), Real::Err(_)) => self.out.hit("probe_beacon_beyond_disk_refused"),
            (Expect::MayRefuse(_), Real::Err(_)) => self.out.hit("observed_refusal_unparseable_immutable_name"),
            (Expect::MayRefuse(want), Real::Root(got)) => {
                if want.as_ref() != Some(got) {
                    self.violate(
                        "refused-dir-wrong-root",
                        format!("{what} at beacon {beacon}: directory with a non-numeric immutable file name gave root {got}, reference over the numeric ones {want:?}"),
                    );
                }
            }
            (_, Real::Digests(_)) | (_, Real::Panic(_)) => unreachable!("judge() is for roots"),
        }
    }

    fn push_state(&mut self, parts: &[&str]) {
        let mut f = Fingerprint::new();
        for p in parts {
            f.add(p);
        }
        self.out.states.push(f.value());
    }

    fn beacon_relation(&self, beacon: u64) -> &'static str {
        match self.disk.highest_number() {
            None => "empty",
            Some(h) if beacon > h => "beyond",
            Some(h) if beacon == h => "highest",
            Some(h) if beacon + 1 == h => "last-complete",
            Some(_) => "older",
        }
    }

    fn layout_flags(&self, beacon: u64) -> String {
        let mut extras_in_imm = false;
        let mut beyond = false;
        let mut elsewhere = false;
        let mut odd_names = false;
        for p in self.disk.files.keys() {
            match self.disk.immutable_number_of(p) {
                Some(n) => {
                    if n > beacon {
                        beyond = true
                    }
                    if !crate::model::is_canonical_trio_file(&self.trio_dir, p) {
                        odd_names = true
                    }
                }
                None => {
                    if self.disk.immutable_dir().is_some_and(|d| p.starts_with(&format!("{d}/"))) { extras_in_imm = true } else { elsewhere = true }
                }
            }
        }
        let multi = match (self.disk.immutable_dir_candidates(), self.disk.immutable_dir_tie()) {
            (0 | 1, _) => "-",
            (_, true) => "T",
            (_, false) => "M",
        };
        format!(
            "{multi}{}{}{}{}",
            if extras_in_imm { "X" } else { "-" },
            if beyond { "B" } else { "-" },
            if elsewhere { "E" } else { "-" },
            if odd_names { "O" } else { "-" }
        )
    }

    // ---------------------------------------------------------------- steps

    /// Apply one step. Returns its normalised label (kind + what happened), which feeds the
    /// fingerprint.
    pub fn apply(&mut self, step: &Step) -> String {
        self.out.hit("sim_steps");
        let label = match step {
            Step::AppendTrio { number, sizes, seed, order } => {
                let paths = trio_paths(&self.trio_dir, *number);
                let mut r = Rng::new(*seed);
                let seeds = [r.next_u64(), r.next_u64(), r.next_u64()];
                for k in order {
                    let k = *k as usize % 3;
                    if self.disk.dirs.contains(&paths[k]) {
                        continue;
                    }
                    self.write(&paths[k], content(seeds[k], sizes[k]));
                }
                self.appended.insert(*number);
                self.out.hit("sim_trios_appended");
                let empties = sizes.iter().filter(|s| **s == 0).count();
                if empties > 0 {
                    self.out.hit("probe_empty_immutable_file");
                }
                "append".to_string()
            }
            Step::Grow { path, add, seed } => match self.disk.files.get(path).cloned() {
                Some(mut bytes) => {
                    bytes.extend(content(*seed, *add));
                    self.write(path, bytes);
                    "grow".to_string()
                }
                None => "grow:skipped".to_string(),
            },
            Step::Extra { path, is_dir, size, seed } => {
                if !self.disk.can_create(path) {
                    "extra:skipped".to_string()
                } else if *is_dir {
                    self.mkdir(path);
                    "extra:dir".to_string()
                } else {
                    self.write(path, content(*seed, *size));
                    let imm_prefix = self.disk.immutable_dir().map(|d| format!("{d}/"));
                    let in_imm = imm_prefix.as_ref().and_then(|p| path.strip_prefix(p.as_str())).filter(|r| !r.contains('/'));
                    let class = match (self.disk.immutable_number_of(path), in_imm) {
                        (Some(_), _) => "numbered",
                        (None, Some(name)) => match crate::reference::classify_name(name) {
                            crate::reference::NameClass::Unparseable => "unparseable",
                            _ => "other_in_immutable",
                        },
                        (None, None) if path.split('/').rev().skip(1).any(|c| c == "immutable") => "other_immutable_dir",
                        (None, None) => "elsewhere",
                    };
                    self.out.hit(&format!("sim_extra_{class}"));
                    format!("extra:{class}")
                }
            }
            Step::Remove { path } => {
                if self.delete(path).is_some() { "remove".to_string() } else { "remove:skipped".to_string() }
            }
            Step::Restart => {
                self.mem = Arc::new(MemoryImmutableFileDigestCacheProvider::default());
                self.mem_seen.clear();
                self.d_none = Arc::new(CardanoImmutableDigester::new(None, logger()));
                self.d_mem = Arc::new(CardanoImmutableDigester::new(
                    Some(self.mem.clone() as Arc<dyn ImmutableFileDigestCacheProvider>),
                    logger(),
                ));
                self.d_json = build_json_digester(&self.cache_dir);
                "restart".to_string()
            }
            Step::ResetCache { cache } => match cache {
                CacheKind::Mem => {
                    let _ = runtime().block_on(self.mem.reset());
                    self.mem_seen.clear();
                    "reset:mem".to_string()
                }
                CacheKind::Json => {
                    // the provider is stateless (file path only): a provider on the same path is
                    // the one the digester holds
                    let p = mithril_cardano_node_internal_database::digesters::cache::JsonImmutableFileDigestCacheProvider::new(&self.json_path());
                    let ok = runtime().block_on(p.reset()).is_ok();
                    format!("reset:json:{}", if ok { "ok" } else { "err" })
                }
                CacheKind::None => "reset:skipped".to_string(),
            },
            Step::DamageJson(d) => self.damage(d),
            Step::Compute { beacon, cache, api } => self.compute(*beacon, *cache, *api),
            Step::Probe { beacon, perturb, keep } => self.probe(*beacon, perturb, *keep),
            Step::SecondNode { beacon, order_seed, reverse, json } => {
                self.second_node(*beacon, *order_seed, *reverse, *json)
            }
        };
        self.log.add(&label);
        self.out.labels.push(label.clone());
        label
    }

    fn damage(&mut self, d: &Damage) -> String {
        let path = self.json_path();
        let existing = std::fs::read(&path).ok();
        let fired = match d {
            Damage::Truncate { at } => match &existing {
                Some(b) if (*at as usize) < b.len() => {
                    std::fs::write(&path, &b[..*at as usize]).expect("truncate cache");
                    true
                }
                _ => false,
            },
            Damage::BitFlip { at, bit } => match existing.clone() {
                Some(mut b) if (*at as usize) < b.len() => {
                    b[*at as usize] ^= 1 << (bit % 8);
                    std::fs::write(&path, &b).expect("flip cache");
                    true
                }
                _ => false,
            },
            Damage::LeaveTmp { len, seed, partial_json } => {
                std::fs::create_dir_all(&self.cache_dir).expect("cache dir");
                let bytes = if *partial_json {
                    let full = format!(
                        "{{\n  \"00001.chunk\": \"{}\",\n  \"00001.primary\": \"{}\"\n}}",
                        sha256_hex(&seed.to_le_bytes()),
                        sha256_hex(&len.to_le_bytes())
                    );
                    full.as_bytes()[..(*len as usize).min(full.len())].to_vec()
                } else {
                    content(*seed, *len)
                };
                std::fs::write(self.tmp_path(), bytes).expect("leave tmp");
                true
            }
            Damage::Empty => match &existing {
                Some(_) => {
                    std::fs::write(&path, b"").expect("empty cache");
                    true
                }
                None => false,
            },
            Damage::Delete => match &existing {
                Some(_) => {
                    std::fs::remove_file(&path).expect("delete cache");
                    true
                }
                None => false,
            },
            Damage::Garbage { len, seed } => match &existing {
                Some(_) => {
                    std::fs::write(&path, content(*seed, *len)).expect("garbage cache");
                    true
                }
                None => false,
            },
            Damage::WrongShape { variant } => match &existing {
                Some(_) => {
                    let text = match variant % 6 {
                        0 => "[]",
                        1 => "{\"00001.chunk\": 5}",
                        2 => "null",
                        3 => "{\"a\": {\"b\": \"c\"}}",
                        4 => "{}",
                        _ => "{\"zzz\": \"00\"}",
                    };
                    std::fs::write(&path, text).expect("wrong shape cache");
                    true
                }
                None => false,
            },
        };
        if fired {
            self.out.hit(&format!("fault_json_{}", d.label()));
            self.pending_damage = Some(d.label());
            format!("damage:{}", d.label())
        } else {
            format!("damage:{}:skipped", d.label())
        }
    }

    fn compute(&mut self, beacon: u64, cache: CacheKind, api: Api) -> String {
        self.out.hit("sim_computes");
        let relation = self.beacon_relation(beacon);
        let flags = self.layout_flags(beacon);
        if self.disk.immutable_dir_candidates() > 1 {
            self.out.hit("probe_several_immutable_dirs");
            if self.disk.immutable_dir_tie() {
                self.out.hit("probe_immutable_dir_tie_at_min_depth");
            }
            if self.disk.immutable_dir() != Some(self.trio_dir.as_str()) {
                self.out.hit("probe_immutable_dir_is_not_the_trio_dir");
            }
        }
        if let Api::Range { lo } = api {
            return self.compute_range(lo, beacon, cache);
        }
        // 1. the cache-less computation on the node's own directory
        let (cold, expect) = self.judge_cold(beacon, if cache == CacheKind::None { api } else { Api::Tree }, "cache-less computation");
        if self.violated() || cache == CacheKind::None {
            // canonical copy (metamorphic half) also when everything agreed
            if !self.violated()
                && let (Expect::Root(want), Real::Root(_)) = (&expect, &cold)
            {
                let covered = self.disk.covered(beacon);
                let canon = self.canonical(&covered, beacon);
                if canon != Real::Root(want.clone()) {
                    self.violate(
                        "root-differs-from-reference",
                        format!("canonical copy at beacon {beacon} gives {}, independent reference {want}", canon.short()),
                    );
                }
            }
            self.push_state(&["compute", cache.label(), "none", relation, api.label(), &flags, cold.class()]);
            return format!("compute:{}:{}:{relation}:{}", cache.label(), api.label(), cold.class());
        }
        // 2. the cached computation
        let covered = self.disk.covered(beacon);
        let state = self.cache_state(cache, &covered, beacon);
        let tmp_before = cache == CacheKind::Json && self.tmp_path().exists();
        let d = self.digester(cache);
        let db = self.db.clone();
        let real = self.real(&d, &db, beacon, api);
        self.out.hit(&format!("probe_cache_{}_{}", cache.label(), state.class.replace('-', "_")));
        if state.precondition {
            self.judge(&real, &expect, beacon, cache, state.class, "cached computation");
        } else {
            // the statement promises cache-independence only over unchanged files and only for
            // cache states left by earlier computations: not judged, but observed
            if let (Expect::Root(want), Real::Root(got)) = (&expect, &real)
                && want != got
            {
                self.out.hit(&format!("observed_{}_cache_entry_changed_root", state.class));
            }
            if let Real::Panic(p) = &real {
                self.violate("computation-panicked", format!("cached computation at beacon {beacon} panicked: {p}"));
            }
        }
        if cache == CacheKind::Mem
            && let Real::Root(_) = real
        {
            for c in &covered {
                self.mem_seen.entry(c.name.clone()).or_insert_with(|| c.digest.clone());
            }
        }
        if cache == CacheKind::Json {
            if let Some(kind) = self.pending_damage.take() {
                self.out.faults_in_action += 1;
                self.out.hit(&format!("probe_compute_after_json_{kind}"));
            }
            if state.class == "unreadable" && matches!(self.observe_json(), JsonObs::Unreadable) {
                self.out.hit("observed_unreadable_cache_left_unrepaired");
            }
            if tmp_before && !self.tmp_path().exists() {
                self.out.hit("probe_leftover_tmp_replaced");
            }
        }
        self.push_state(&["compute", cache.label(), state.class, relation, api.label(), &flags, real.class()]);
        format!("compute:{}:{}:{}:{relation}:{}", cache.label(), state.class, api.label(), real.class())
    }

    fn compute_range(&mut self, lo: u64, hi: u64, cache: CacheKind) -> String {
        let in_range = self.disk.in_range(lo, hi);
        let state = self.cache_state(cache, &in_range, hi);
        let d = self.digester(cache);
        let db = self.db.clone();
        let real = self.real(&d, &db, hi, Api::Range { lo });
        let want: Vec<(String, String)> = in_range.iter().map(|c| (c.name.clone(), c.digest.clone())).collect();
        let strict = self.disk.has_immutable_dir() && !self.disk.has_unparseable();
        match &real {
            Real::Panic(p) => self.violate("computation-panicked", format!("compute_digests_for_range({lo}..={hi}) panicked: {p}")),
            Real::Digests(got) if state.precondition => {
                if *got != want {
                    let first = got.iter().zip(want.iter()).position(|(a, b)| a != b).unwrap_or(got.len().min(want.len()));
                    self.violate(
                        "range-digests-differ",
                        format!(
                            "compute_digests_for_range({lo}..={hi}) with {} cache `{}`: {} entries, reference {} entries, first difference at index {first}: got {:?}, reference {:?}",
                            cache.label(), state.class, got.len(), want.len(), got.get(first), want.get(first)
                        ),
                    );
                } else {
                    self.out.hit("sim_range_digest_lists_checked");
                }
            }
            Real::Digests(_) => self.out.hit(&format!("probe_cache_{}_{}", cache.label(), state.class)),
            Real::Err(e) if strict => self.violate(
                "unexpected-error",
                format!("compute_digests_for_range({lo}..={hi}) failed with `{e}` on a well-formed immutable directory"),
            ),
            Real::Err(_) => self.out.hit("observed_range_refusal"),
            Real::Root(_) => unreachable!(),
        }
        if cache == CacheKind::Mem
            && let Real::Digests(_) = real
        {
            for c in &in_range {
                self.mem_seen.entry(c.name.clone()).or_insert_with(|| c.digest.clone());
            }
        }
        if cache == CacheKind::Json
            && let Some(kind) = self.pending_damage.take()
        {
            self.out.faults_in_action += 1;
            self.out.hit(&format!("probe_compute_after_json_{kind}"));
        }
        self.push_state(&["range", cache.label(), state.class, real.class()]);
        format!("compute:{}:{}:range:{}", cache.label(), state.class, real.class())
    }

    fn perturb_enabled(&self, p: &Perturb) -> bool {
        let has = |f: &String| self.disk.files.contains_key(f);
        match p {
            Perturb::Flip { file, at, .. } => self.disk.files.get(file).is_some_and(|b| (*at as usize) < b.len()),
            Perturb::Delete { file } | Perturb::Append0 { file } => has(file),
            Perturb::DropLast { file } => self.disk.files.get(file).is_some_and(|b| !b.is_empty()),
            Perturb::Swap { a, b } => has(a) && has(b) && self.disk.hashes[a] != self.disk.hashes[b],
        }
    }

    fn apply_perturb(&mut self, p: &Perturb) {
        match p {
            Perturb::Flip { file, at, bit } => {
                let mut b = self.disk.files[file].clone();
                b[*at as usize] ^= 1 << (bit % 8);
                self.write(file, b);
            }
            Perturb::Delete { file } => {
                self.delete(file);
            }
            Perturb::Append0 { file } => {
                let mut b = self.disk.files[file].clone();
                b.push(0);
                self.write(file, b);
            }
            Perturb::DropLast { file } => {
                let mut b = self.disk.files[file].clone();
                b.pop();
                self.write(file, b);
            }
            Perturb::Swap { a, b } => {
                let (ca, cb) = (self.disk.files[a].clone(), self.disk.files[b].clone());
                self.write(a, cb);
                self.write(b, ca);
            }
        }
    }

    fn probe(&mut self, beacon: u64, p: &Perturb, keep: bool) -> String {
        if !self.perturb_enabled(p) {
            return format!("probe:{}:skipped", p.label());
        }
        if !matches!(self.disk.expect(beacon), Expect::Root(_)) {
            return format!("probe:{}:skipped-no-root", p.label());
        }
        let covered_hit = p.paths().iter().any(|f| self.disk.immutable_number_of(f).is_some_and(|n| n <= beacon));
        let (before, _) = self.judge_cold(beacon, Api::Tree, "cache-less computation before a perturbation");
        if self.violated() {
            return format!("probe:{}:violated", p.label());
        }
        let saved: Vec<(String, Vec<u8>)> =
            p.paths().iter().map(|f| (f.to_string(), self.disk.files[*f].clone())).collect();
        self.apply_perturb(p);
        // the perturbed state is judged like any other state ...
        let (after, _) = self.judge_cold(beacon, Api::Tree, "cache-less computation after a perturbation");
        // ... and against the sensitivity half of the statement
        if !self.violated() {
            if covered_hit {
                self.out.hit(&format!("sim_sensitivity_covered_{}", p.label()));
                if let (Real::Root(a), Real::Root(b)) = (&before, &after)
                    && a == b
                {
                    self.violate(
                        "insensitive-to-covered-change",
                        format!("{p:?} on a file covered by beacon {beacon} left the cache-less root unchanged ({a})"),
                    );
                }
            } else {
                self.out.hit(&format!("sim_insensitivity_uncovered_{}", p.label()));
                if before != after {
                    self.violate(
                        "uncovered-change-changed-root",
                        format!(
                            "{p:?} touches no file covered by beacon {beacon}, yet the cache-less result went from {} to {}",
                            before.short(),
                            after.short()
                        ),
                    );
                }
            }
        }
        if !keep {
            for (f, bytes) in saved {
                self.write(&f, bytes);
            }
        } else {
            self.out.hit("probe_permanent_modification");
        }
        self.push_state(&["probe", p.label(), if covered_hit { "covered" } else { "uncovered" }, after.class()]);
        format!(
            "probe:{}:{}:{}{}",
            p.label(),
            if covered_hit { "covered" } else { "uncovered" },
            after.class(),
            if keep { ":kept" } else { "" }
        )
    }

    fn second_node(&mut self, beacon: u64, order_seed: u64, reverse: bool, json: bool) -> String {
        let (first, expect) = self.judge_cold(beacon, Api::Tree, "cache-less computation on the first node");
        if self.violated() {
            return "second:violated".to_string();
        }
        self.aux += 1;
        let root = self.scratch.path().join(format!("n2-{}", self.aux));
        let db2 = root.join("db");
        std::fs::create_dir_all(&db2).expect("second db dir");
        // all paths of the model, in another creation order
        let mut paths: Vec<(String, bool)> = self
            .disk
            .dirs
            .iter()
            .map(|d| (d.clone(), true))
            .chain(self.disk.files.keys().map(|f| (f.clone(), false)))
            .collect();
        paths.sort();
        if reverse {
            paths.reverse();
        } else {
            Rng::new(order_seed).shuffle(&mut paths);
        }
        for (p, is_dir) in &paths {
            let full = db2.join(p);
            if *is_dir {
                std::fs::create_dir_all(&full).expect("second node dir");
            } else {
                if let Some(parent) = full.parent() {
                    std::fs::create_dir_all(parent).expect("second node parent");
                }
                std::fs::write(&full, &self.disk.files[p]).expect("second node file");
            }
        }
        let mut results: Vec<(String, Real)> = Vec::new();
        let d_none = Arc::new(CardanoImmutableDigester::new(None, logger()));
        results.push(("cache-less".into(), self.real(&d_none, &db2, beacon, Api::Tree)));
        if json {
            let dj = build_json_digester(&root.join("cache"));
            results.push(("fresh JSON cache".into(), self.real(&dj, &db2, beacon, Api::Signable)));
            results.push(("JSON cache warmed by itself".into(), self.real(&dj, &db2, beacon, Api::Tree)));
        }
        let _ = std::fs::remove_dir_all(&root);
        self.out.hit("sim_second_nodes");
        let strict = matches!(expect, Expect::Root(_) | Expect::MustErr(_));
        for (what, r) in &results {
            if let Real::Panic(p) = r {
                self.violate("computation-panicked", format!("second node ({what}) at beacon {beacon} panicked: {p}"));
                break;
            }
            let same = match (&first, r) {
                (Real::Root(a), Real::Root(b)) => a == b,
                (Real::Err(_), Real::Err(_)) => true,
                _ => false,
            };
            if strict && !same {
                self.violate(
                    "second-node-differs",
                    format!(
                        "same files, directory created in {} order: first node {} but second node ({what}) {} at beacon {beacon}",
                        if reverse { "reverse" } else { "shuffled" },
                        first.short(),
                        r.short()
                    ),
                );
                break;
            }
            if let (Expect::Root(_), Real::Root(_)) = (&expect, r) {
                self.out.checked_roots += 1;
            }
        }
        self.push_state(&["second", if reverse { "reverse" } else { "shuffled" }, if json { "json" } else { "-" }, first.class()]);
        format!("second:{}:{}:{}", if reverse { "reverse" } else { "shuffled" }, if json { "json" } else { "nocache" }, first.class())
    }

    // ---------------------------------------------------------------- end of run

    /// Harness self-check (model == real directory) and end-state digest.
    pub fn finish(mut self) -> Outcome {
        let mut real_files: BTreeMap<String, String> = BTreeMap::new();
        let mut real_dirs: BTreeSet<String> = BTreeSet::new();
        let mut stack = vec![self.db.clone()];
        while let Some(dir) = stack.pop() {
            let mut entries: Vec<_> = std::fs::read_dir(&dir).expect("read_dir").map(|e| e.expect("entry").path()).collect();
            entries.sort();
            for p in entries {
                let rel = p.strip_prefix(&self.db).unwrap().to_str().expect("utf8 path").to_string();
                if p.is_dir() {
                    real_dirs.insert(rel);
                    stack.push(p);
                } else {
                    real_files.insert(rel, sha256_hex(&std::fs::read(&p).expect("read")));
                }
            }
        }
        if real_files != self.disk.hashes || real_dirs != self.disk.dirs {
            panic!("harness self-check failed: the model of the node's disk and the real directory differ");
        }
        for (p, h) in &self.disk.hashes {
            self.log.add(p).add(h);
        }
        for d in &self.disk.dirs {
            self.log.add(d);
        }
        for (c, _) in &self.out.violations {
            self.log.add(c);
        }
        self.out.digest = self.log.value();
        self.out.states.sort_unstable();
        self.out.states.dedup();
        std::mem::take(&mut self.out)
    }
}

/// Labels of fingerprints hash to one value.
pub fn fingerprint_of(labels: &[String]) -> u64 {
    let mut f = Fingerprint::new();
    for l in labels {
        f.add(l);
    }
    f.value() ^ fnv64_str("C12")
}

/// Execute a concrete trace (replay, minimisation).
pub fn execute(cfg: &Config, trace: &[Step]) -> Outcome {
    let mut w = World::new(cfg);
    for s in trace {
        w.apply(s);
        if w.violated() {
            break;
        }
    }
    w.finish()
}

#[allow(dead_code)]
pub fn ext_index(ext: &str) -> usize {
    EXT.iter().position(|e| *e == ext).unwrap_or(0)
}
