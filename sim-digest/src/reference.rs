//! Independent reference for C12, written from the property statement and the documented
//! behaviour of the digester (not from its code paths):
//!
//! * *the immutable directory* of a node is the shallowest directory named `immutable` below the
//!   directory handed to the digester (the repo documents an any-depth lookup: the given path
//!   may be a parent of the real db), ties broken by path order (component-wise);
//! * an *immutable file* is a regular file directly inside the immutable directory whose
//!   extension is exactly `chunk`, `primary` or `secondary` and whose stem is a decimal number;
//! * the files covered by beacon `b` are those with number <= b, in (number, file name) order;
//! * leaf i = lower-case hex SHA-256 of file i, root = repo `MKTree` over the leaves (the Merkle
//!   tree itself is the repo's, as allowed by the design: the property is about *which* leaves in
//!   *which* order, not about the tree construction).
//!
//! The model of a node's disk (`Disk`) is the harness's own truth: every file operation is
//! applied to the model and to the real directory; the reference only ever looks at the model.
use std::collections::{BTreeMap, BTreeSet};

use mithril_common::crypto_helper::{MKTree, MKTreeStoreInMemory};
use sha2::{Digest, Sha256};

pub const IMMUTABLE_DIR: &str = "immutable";
const EXTENSIONS: [&str; 3] = ["chunk", "primary", "secondary"];

pub fn sha256_hex(bytes: &[u8]) -> String {
    let mut h = Sha256::new();
    h.update(bytes);
    hex::encode(h.finalize())
}

/// (stem, extension) split with the semantics of a file-name extension: text after the last
/// dot, a leading dot alone does not start an extension.
pub fn split_name(name: &str) -> (&str, Option<&str>) {
    match name.rfind('.') {
        None | Some(0) => (name, None),
        Some(i) => (&name[..i], Some(&name[i + 1..])),
    }
}

/// Decimal number as accepted for an immutable file stem: ASCII digits with an optional leading
/// `+`, fitting 64 bits. (Following the implementation here: it parses the stem with
/// `u64::from_str`, so `2.chunk`, `000002.chunk` and `+2.chunk` all are "immutable file 2".)
pub fn parse_number(stem: &str) -> Option<u64> {
    let digits = stem.strip_prefix('+').unwrap_or(stem);
    if digits.is_empty() || !digits.bytes().all(|b| b.is_ascii_digit()) {
        return None;
    }
    let mut v: u64 = 0;
    for b in digits.bytes() {
        v = v.checked_mul(10)?.checked_add((b - b'0') as u64)?;
    }
    Some(v)
}

#[derive(Clone, Copy, Debug, PartialEq, Eq)]
pub enum NameClass {
    /// not an immutable file name (other extension / no extension)
    Other,
    /// immutable extension, numeric stem
    Immutable(u64),
    /// immutable extension but the stem is not a number
    Unparseable,
}

pub fn classify_name(name: &str) -> NameClass {
    match split_name(name) {
        (stem, Some(ext)) if EXTENSIONS.contains(&ext) => match parse_number(stem) {
            Some(n) => NameClass::Immutable(n),
            None => NameClass::Unparseable,
        },
        _ => NameClass::Other,
    }
}

/// Model of one node's database directory: regular files (path relative to the db dir ->
/// content) and directories. Paths use `/`.
#[derive(Clone, Debug, Default)]
pub struct Disk {
    pub files: BTreeMap<String, Vec<u8>>,
    pub dirs: BTreeSet<String>,
    /// hex SHA-256 of every file of `files` (kept in sync by `put` / `remove`)
    pub hashes: BTreeMap<String, String>,
    /// every content hash a path ever had (to tell a stale cache entry from a poisoned one)
    pub history: BTreeMap<String, BTreeSet<String>>,
}

#[derive(Clone, Debug, PartialEq, Eq)]
pub struct Covered {
    pub number: u64,
    pub name: String,
    pub digest: String,
}

#[derive(Clone, Debug, PartialEq, Eq)]
pub enum Expect {
    /// the computation must succeed with exactly this root
    Root(String),
    /// the computation must fail (no immutable file carries the beacon's number, or there is no
    /// immutable directory): a root here would be a root for a beacon the disk does not cover
    MustErr(&'static str),
    /// a file with an immutable extension and a non-numeric stem sits in the immutable
    /// directory: the digester refuses the whole directory. A refusal is not a wrong root, so
    /// it is tolerated (and counted); a root, if one is returned, must be the reference root.
    MayRefuse(Option<String>),
}

impl Disk {
    pub fn put(&mut self, path: &str, content: Vec<u8>) {
        let h = sha256_hex(&content);
        self.history.entry(path.to_string()).or_default().insert(h.clone());
        self.hashes.insert(path.to_string(), h);
        self.files.insert(path.to_string(), content);
        self.add_parents(path);
    }

    pub fn remove(&mut self, path: &str) -> Option<Vec<u8>> {
        self.hashes.remove(path);
        self.files.remove(path)
    }

    pub fn add_dir(&mut self, path: &str) {
        self.dirs.insert(path.to_string());
        self.add_parents(path);
    }

    fn add_parents(&mut self, path: &str) {
        let mut p = path;
        while let Some(i) = p.rfind('/') {
            p = &p[..i];
            self.dirs.insert(p.to_string());
        }
    }

    /// Whether `path` can be created as a new file / directory (nothing there, no ancestor is a
    /// file).
    pub fn can_create(&self, path: &str) -> bool {
        if self.files.contains_key(path) || self.dirs.contains(path) {
            return false;
        }
        let mut p = path;
        while let Some(i) = p.rfind('/') {
            p = &p[..i];
            if self.files.contains_key(p) {
                return false;
            }
        }
        true
    }

    /// The node's immutable directory: the shallowest directory named `immutable`, ties broken by
    /// path (compared component by component, as `Path::cmp` does).
    pub fn immutable_dir(&self) -> Option<&str> {
        self.dirs
            .iter()
            .filter(|d| d.rsplit('/').next() == Some(IMMUTABLE_DIR))
            .min_by(|a, b| {
                let (ca, cb): (Vec<&str>, Vec<&str>) = (a.split('/').collect(), b.split('/').collect());
                ca.len().cmp(&cb.len()).then_with(|| ca.cmp(&cb))
            })
            .map(|d| d.as_str())
    }

    pub fn has_immutable_dir(&self) -> bool {
        self.immutable_dir().is_some()
    }

    /// Number of directories named `immutable` (1 = the ordinary case).
    pub fn immutable_dir_candidates(&self) -> usize {
        self.dirs.iter().filter(|d| d.rsplit('/').next() == Some(IMMUTABLE_DIR)).count()
    }

    /// Whether at least two directories named `immutable` share the minimal depth (the path
    /// tie-break decides).
    pub fn immutable_dir_tie(&self) -> bool {
        let depths: Vec<usize> = self
            .dirs
            .iter()
            .filter(|d| d.rsplit('/').next() == Some(IMMUTABLE_DIR))
            .map(|d| d.split('/').count())
            .collect();
        match depths.iter().min() {
            Some(m) => depths.iter().filter(|d| *d == m).count() > 1,
            None => false,
        }
    }

    /// Path (relative to the db dir) of the file `name` of the immutable directory.
    pub fn immutable_path(&self, name: &str) -> String {
        format!("{}/{name}", self.immutable_dir().unwrap_or(IMMUTABLE_DIR))
    }

    /// Regular files directly inside the immutable directory: (file name, class).
    pub fn immutable_dir_entries(&self) -> Vec<(&str, NameClass)> {
        let Some(dir) = self.immutable_dir() else { return Vec::new() };
        let prefix = format!("{dir}/");
        self.files
            .keys()
            .filter_map(|p| p.strip_prefix(&prefix))
            .filter(|rest| !rest.contains('/'))
            .map(|name| (name, classify_name(name)))
            .collect()
    }

    pub fn has_unparseable(&self) -> bool {
        self.immutable_dir_entries().iter().any(|(_, c)| *c == NameClass::Unparseable)
    }

    /// All immutable files, in (number, file name) order.
    pub fn immutables(&self) -> Vec<Covered> {
        let mut v: Vec<Covered> = self
            .immutable_dir_entries()
            .into_iter()
            .filter_map(|(name, c)| match c {
                NameClass::Immutable(n) => Some(Covered {
                    number: n,
                    name: name.to_string(),
                    digest: self.hashes[&self.immutable_path(name)].clone(),
                }),
                _ => None,
            })
            .collect();
        v.sort_by(|a, b| a.number.cmp(&b.number).then(a.name.as_bytes().cmp(b.name.as_bytes())));
        v
    }

    pub fn covered(&self, beacon: u64) -> Vec<Covered> {
        self.immutables().into_iter().filter(|c| c.number <= beacon).collect()
    }

    pub fn in_range(&self, lo: u64, hi: u64) -> Vec<Covered> {
        self.immutables().into_iter().filter(|c| c.number >= lo && c.number <= hi).collect()
    }

    pub fn highest_number(&self) -> Option<u64> {
        self.immutables().last().map(|c| c.number)
    }

    /// Number of the immutable file at `path` (relative to the db dir), if it is one.
    pub fn immutable_number_of(&self, path: &str) -> Option<u64> {
        let name = path.strip_prefix(&format!("{}/", self.immutable_dir()?))?;
        if name.contains('/') {
            return None;
        }
        match classify_name(name) {
            NameClass::Immutable(n) => Some(n),
            _ => None,
        }
    }

    pub fn expect(&self, beacon: u64) -> Expect {
        if !self.has_immutable_dir() {
            return Expect::MustErr("no immutable directory");
        }
        let covered = self.covered(beacon);
        let beacon_present = covered.iter().any(|c| c.number == beacon);
        let root = if beacon_present { Some(merkle_root(&covered)) } else { None };
        if self.has_unparseable() {
            return Expect::MayRefuse(root);
        }
        match root {
            Some(r) => Expect::Root(r),
            None => Expect::MustErr("no immutable file carries the beacon's number"),
        }
    }
}

pub fn merkle_root(covered: &[Covered]) -> String {
    let leaves: Vec<String> = covered.iter().map(|c| c.digest.clone()).collect();
    MKTree::<MKTreeStoreInMemory>::new(&leaves)
        .and_then(|t| t.compute_root())
        .map(|n| n.to_hex())
        .expect("reference merkle tree over a non-empty leaf list")
}

#[cfg(test)]
mod tests {
    use super::*;

    #[test]
    fn names() {
        assert_eq!(classify_name("00002.chunk"), NameClass::Immutable(2));
        assert_eq!(classify_name("2.primary"), NameClass::Immutable(2));
        assert_eq!(classify_name("+2.secondary"), NameClass::Immutable(2));
        assert_eq!(classify_name("100000.chunk"), NameClass::Immutable(100000));
        assert_eq!(classify_name("00002.chunk.bak"), NameClass::Other);
        assert_eq!(classify_name("00002.CHUNK"), NameClass::Other);
        assert_eq!(classify_name(".chunk"), NameClass::Other);
        assert_eq!(classify_name("chunk"), NameClass::Other);
        assert_eq!(classify_name("00002."), NameClass::Other);
        assert_eq!(classify_name("abc.chunk"), NameClass::Unparseable);
        assert_eq!(classify_name("00002.bak.chunk"), NameClass::Unparseable);
        assert_eq!(classify_name("-1.chunk"), NameClass::Unparseable);
        assert_eq!(classify_name("..chunk"), NameClass::Unparseable);
        assert_eq!(classify_name("99999999999999999999999.chunk"), NameClass::Unparseable);
    }

    #[test]
    fn immutable_dir_rule() {
        let mut d = Disk::default();
        assert_eq!(d.immutable_dir(), None);
        d.add_dir("ledger/snap/immutable");
        assert_eq!(d.immutable_dir(), Some("ledger/snap/immutable"));
        d.add_dir("zzz/immutable");
        assert_eq!(d.immutable_dir(), Some("zzz/immutable"));
        d.add_dir("db/immutable");
        assert_eq!(d.immutable_dir(), Some("db/immutable"));
        d.add_dir("immutable/old/immutable");
        assert_eq!(d.immutable_dir(), Some("immutable"));
        d.put("immutable/00001.chunk", vec![1]);
        d.put("db/immutable/00002.chunk", vec![2]);
        assert_eq!(d.immutables().len(), 1);
        assert_eq!(d.immutable_number_of("db/immutable/00002.chunk"), None);
        assert_eq!(d.immutable_number_of("immutable/00001.chunk"), Some(1));
    }
}
