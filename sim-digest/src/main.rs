//! E3 digest-sim: histories of operations on a node's disk, judged against the REAL
//! `CardanoImmutableDigester` (+ memory / JSON cache providers, + `CardanoDatabaseSignableBuilder`)
//! from the working tree. Serves C12.
mod exec;
mod model;
mod reference;

use serde_json::{Value, json};
use sim_core::batch::{self, Engine, Plan, RunCtx, RunReport, Tier, Violation};
use sim_core::Rng;

use crate::exec::{Outcome, World, execute, fingerprint_of};
use crate::model::{Config, Step, gen_config, gen_step};

pub const PROPERTY: &str = "C12";

/// No known finding of C12 is open (the listing-order dependence of the immutable directory
/// lookup is repaired in /repo), so nothing is attributed: every violation is reported as new.
fn to_violations(out: &Outcome) -> Vec<Violation> {
    out.violations
        .iter()
        .map(|(clause, detail)| Violation {
            property: PROPERTY.into(),
            clause: clause.clone(),
            detail: detail.clone(),
            finding: None,
        })
        .collect()
}

fn minimise(cfg: &Config, trace: Vec<Step>, clause: &str) -> Vec<Step> {
    sim_core::ddmin::ddmin(
        trace,
        |cand| execute(cfg, cand).violations.iter().any(|(c, _)| c == clause),
        250,
    )
}

/// Histories per run. A history costs about 1 ms of CPU, far less than the design estimated, so
/// a run (= one evaluation of the batch runner, one report line) bundles several independent
/// histories; counter `sim_histories` counts them.
fn histories_per_run(tier: Tier) -> u64 {
    match tier {
        Tier::Quick => 16,
        Tier::Thorough => 64,
    }
}

struct DigestEngine;

impl Engine for DigestEngine {
    fn name(&self) -> &'static str {
        "digest-sim"
    }

    fn plan(&self, property: &str, tier: Tier) -> Option<Plan> {
        if property != PROPERTY {
            return None;
        }
        Some(Plan {
            runs: match tier {
                Tier::Quick => 6_000,
                Tier::Thorough => 60_000,
            },
            level: "exploration",
            rule: "one run = 16 (quick) / 64 (thorough) independent histories, each with its own swarm configuration (counter sim_histories; a history costs ~1 ms); one history = 5-25 concrete steps on one node's real scratch directory (append trio / grow the in-progress trio / extra files and directories of 7 kinds incl. further directories named `immutable` deeper than, as deep as or shallower than the node's own one (8 % of histories; in half of those the trios live in db/immutable, node/db/immutable or m/immutable) / remove extra / compute at a beacon through compute_merkle_tree, CardanoDatabaseSignableBuilder or compute_digests_for_range with no cache, the memory cache or the JSON cache file / restart / cache reset / 7 kinds of damage to the JSON cache file / sensitivity probe = cache-less root before and after a flip, delete, swap, append or drop-last on a covered, beyond-beacon or unrelated file / second node = same files created in shuffled or reverse order). Step mix, sizes, numbering (incl. 99999->100000), enabled extra and damage kinds are swarm-drawn per run; ~20 % of runs have no cache damage. Every computation is compared with an independent reference (own SHA-256 per file, (number, name) order, repo MKTree) and with the real digester on a canonical copy. A history is non-trivial iff at least one returned root was compared with the reference AND, when cache damage is enabled for the run, at least one damage actually changed the cache file and a JSON-cached computation ran on it afterwards; a run is non-trivial iff one of its histories is (counter sim_histories_nontrivial). distinct = distinct hash of the normalised step sequences of the run's non-trivial histories (step kind, cache kind, observed cache class cold/partial/warm/warm-longer/stale/poisoned/unreadable/absent, API, beacon relation, ok/err, which damage kinds fired). states = distinct (step kind, cache kind, cache class, beacon relation, API, layout flags several-immutable-dirs(tie)/extras-in-immutable/beyond-beacon/elsewhere/odd-names, ok/err)."
                .into(),
            assumptions: vec![
                "digest computations are issued one at a time (no two computations overlap on one JSON cache file); DESIGN.md section 9".into(),
                "the immutable directory of a node is the shallowest directory named `immutable` below the directory handed to the digester, ties broken by component-wise path order (the repo's documented any-depth lookup); an immutable file is a regular file directly in it whose extension is chunk|primary|secondary and whose stem parses as a decimal u64 (so 2.chunk and +2.chunk count as immutable file 2, following the implementation); symlinks and non-UTF-8 names are not generated".into(),
                "a file with an immutable extension and a non-numeric stem makes the digester refuse the directory: tolerated (an error is not a wrong root), counted as observed_refusal_unparseable_immutable_name".into(),
                "cache-independence is judged only when every cache entry that would be served equals the digest of the unchanged file (statement: 'over the same unchanged files'); stale entries (file modified after caching) and entries altered by a bit flip that still parse are outside the statement: not judged, counted as observed_*".into(),
                "storage faults are applied to the cache file between computations, not in the middle of a write (a dead writer is modelled by the leftover .tmp)".into(),
            ],
            real_components: vec![
                "CardanoImmutableDigester (compute_merkle_tree, compute_digests_for_range) on a real directory".into(),
                "ImmutableFile listing / ordering (walkdir on tmpfs)".into(),
                "MemoryImmutableFileDigestCacheProvider, JsonImmutableFileDigestCacheProvider (+ builder) on a real JSON file".into(),
                "CardanoDatabaseSignableBuilder::compute_protocol_message".into(),
                "mithril-common MKTree (also used by the reference, by design)".into(),
            ],
            stub_components: vec![],
            worker_death_is_violation: false,
            time_cap_s: match tier {
                Tier::Quick => 900,
                Tier::Thorough => 14_400,
            },
        })
    }

    fn run(&self, ctx: &RunCtx) -> RunReport {
        let mut report = RunReport::new(ctx.run);
        let mut fp = sim_core::Fingerprint::new();
        let mut digest = sim_core::Fingerprint::new();
        for h in 0..histories_per_run(ctx.tier) {
            // every history has its own stream, independent of the others of the run
            let mut rng = Rng::for_run(ctx.seed, PROPERTY, ctx.run).fork(&format!("history-{h}"));
            let cfg = gen_config(&mut rng.fork("config"));
            let mut step_rng = rng.fork("steps");
            let mut world = World::new(&cfg);
            let mut trace: Vec<Step> = Vec::new();
            for i in 0..cfg.steps {
                let step = gen_step(&world, &cfg, i, &mut step_rng);
                world.apply(&step);
                trace.push(step);
                if world.violated() {
                    break;
                }
            }
            let out = world.finish();
            report.hit("sim_histories");
            let faulty_cfg = !cfg.damage_kinds.is_empty();
            if out.checked_roots > 0 && (!faulty_cfg || out.faults_in_action > 0) {
                report.nontrivial = true;
                report.hit("sim_histories_nontrivial");
                fp.add_u64(fingerprint_of(&out.labels));
            }
            if !faulty_cfg {
                report.hit("sim_histories_fault_free");
            }
            for (k, v) in &out.counters {
                report.count(k, *v);
            }
            report.count("sim_roots_checked", out.checked_roots);
            report.states.extend(out.states.iter().copied());
            digest.add_u64(out.digest);
            if ctx.want_sample && h == 0 {
                report.sample = Some(json!({"run": ctx.run, "history": h, "config": cfg, "trace": trace, "labels": out.labels}));
            }
            if !out.violations.is_empty() {
                report.hit("sim_histories_violating");
            }
            // the first violating history of the run is minimised and reported; the remaining
            // histories still run (a known finding must not eat the rest of the budget)
            if !out.violations.is_empty() && report.violations.is_empty() {
                let clause = out.violations[0].0.clone();
                let min = minimise(&cfg, trace.clone(), &clause);
                let min_out = execute(&cfg, &min);
                report.violations = to_violations(&min_out)
                    .into_iter()
                    .filter(|v| v.clause == clause)
                    .collect();
                if report.violations.is_empty() {
                    // cannot happen (ddmin keeps the clause); keep the unminimised evidence
                    report.violations = to_violations(&out);
                    report.replay = Some(json!({"config": cfg, "trace": trace, "history": h}));
                } else {
                    report.replay =
                        Some(json!({"config": cfg, "trace": min, "history": h, "original_length": trace.len()}));
                }
            }
        }
        report.states.sort_unstable();
        report.states.dedup();
        report.fingerprint = fp.value();
        report.digest = digest.value();
        report
    }

    fn replay(&self, doc: &Value) -> RunReport {
        let cfg: Config = serde_json::from_value(doc["config"].clone()).unwrap_or_else(|e| {
            eprintln!("HARNESS-ERROR: bad replay config: {e}");
            std::process::exit(2)
        });
        let trace: Vec<Step> = serde_json::from_value(doc["trace"].clone()).unwrap_or_else(|e| {
            eprintln!("HARNESS-ERROR: bad replay trace: {e}");
            std::process::exit(2)
        });
        let out = execute(&cfg, &trace);
        let mut report = RunReport::new(0);
        for l in &out.labels {
            eprintln!("  step: {l}");
        }
        report.violations = to_violations(&out);
        report.digest = out.digest;
        report
    }
}

fn main() {
    batch::main(&DigestEngine)
}
