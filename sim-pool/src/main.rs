//! E7 pool-shuttle: the real `resource_pool.rs` (and the real provers, layer B) from the
//! working tree, compiled against shuttle's Mutex / Condvar (hook H1), driven by shuttle's
//! seeded random and PCT schedulers. Serves C18.
mod layer_a;
mod layer_b;

use std::panic::AssertUnwindSafe;
use std::path::PathBuf;

use serde_json::{Value, json};
use shuttle::scheduler::{PctScheduler, RandomScheduler, ReplayScheduler};
use shuttle::{Config, FailurePersistence, MaxSteps, Runner};
use sim_core::batch::{self, Engine, Plan, RunCtx, RunReport, Tier, Violation};
use sim_core::{Fingerprint, Rng};

pub const PROPERTY: &str = "C18";

/// Outcome of one controlled execution, filled in by the scenario (through a plain std mutex:
/// shuttle runs one thread at a time, so it is never contended and adds no scheduling point).
#[derive(Default, Clone, Debug)]
pub struct ExecOutcome {
    pub violations: Vec<(String, String)>,
    pub counters: std::collections::BTreeMap<String, u64>,
    pub fingerprint: u64,
    pub states: Vec<u64>,
    pub nontrivial: bool,
}

pub type Shared = std::sync::Arc<std::sync::Mutex<ExecOutcome>>;

fn schedule_dir() -> PathBuf {
    let d = sim_core::scratch::scratch_root().join(format!("shuttle-{}", std::process::id()));
    let _ = std::fs::create_dir_all(&d);
    d
}

fn shuttle_config() -> Config {
    let mut cfg = Config::new();
    cfg.failure_persistence = FailurePersistence::File(Some(schedule_dir()));
    cfg.max_steps = MaxSteps::FailAfter(200_000);
    cfg.silence_warnings = true;
    cfg
}

fn clear_schedule_dir() {
    if let Ok(rd) = std::fs::read_dir(schedule_dir()) {
        for e in rd.flatten() {
            let _ = std::fs::remove_file(e.path());
        }
    }
}

fn read_persisted_schedule() -> Option<String> {
    let p = schedule_dir().join("schedule000.txt");
    std::fs::read_to_string(p).ok()
}

fn panic_text(payload: Box<dyn std::any::Any + Send>) -> String {
    if let Some(s) = payload.downcast_ref::<String>() {
        s.clone()
    } else if let Some(s) = payload.downcast_ref::<&str>() {
        s.to_string()
    } else {
        "non-string panic payload".to_string()
    }
}

#[derive(Clone, Debug)]
pub enum Sched {
    Random(u64),
    Pct(u64, usize),
    Replay(String),
}

/// One execution of `scenario` (a JSON scenario description) under `sched`.
/// Returns (outcome, failing schedule if the execution panicked, panic text).
fn execute(scenario: &Value, sched: &Sched) -> (ExecOutcome, Option<String>, Option<String>) {
    clear_schedule_dir();
    let shared: Shared = Default::default();
    let sc = scenario.clone();
    let sh = shared.clone();
    let body = move || {
        let layer = sc["layer"].as_str().unwrap_or("A");
        if layer == "A" {
            layer_a::scenario(&sc, &sh)
        } else {
            layer_b::scenario(&sc, &sh)
        }
    };
    let result = std::panic::catch_unwind(AssertUnwindSafe(|| match sched {
        Sched::Random(seed) => Runner::new(RandomScheduler::new_from_seed(*seed, 1), shuttle_config()).run(body),
        Sched::Pct(seed, depth) => {
            Runner::new(PctScheduler::new_from_seed(*seed, *depth, 1), shuttle_config()).run(body)
        }
        Sched::Replay(s) => {
            let mut r = ReplayScheduler::new_from_encoded(s);
            r.set_allow_incomplete();
            Runner::new(r, shuttle_config()).run(body)
        }
    }));
    let outcome = shared.lock().map(|g| g.clone()).unwrap_or_else(|e| e.into_inner().clone());
    match result {
        Ok(_) => (outcome, None, None),
        Err(payload) => (outcome, read_persisted_schedule(), Some(panic_text(payload))),
    }
}

fn classify_panic(text: &str) -> (String, String) {
    if let Some(rest) = text.strip_prefix("C18VIOLATION ") {
        let clause = rest
            .split_whitespace()
            .find_map(|t| t.strip_prefix("clause="))
            .unwrap_or("unknown")
            .to_string();
        (clause, rest.to_string())
    } else if text.contains("deadlock") {
        ("blocked-forever".to_string(), format!("an acquirer stayed blocked although a resource was (or became) available: {text}"))
    } else if text.contains("exceeded max_steps") || text.contains("max_steps") {
        ("unbounded".to_string(), text.to_string())
    } else {
        ("panic".to_string(), text.to_string())
    }
}

struct PoolEngine;

const ITER_PER_RUN: u64 = 40;

impl PoolEngine {
    fn gen_scenario(rng: &mut Rng, run: u64) -> Value {
        // 1 run in 4 drives the real provers (layer B), the others the bare pool (layer A)
        if run % 4 == 3 { layer_b::generate(rng) } else { layer_a::generate(rng) }
    }

    fn to_violations(outcome: &ExecOutcome, panic: &Option<String>) -> Vec<Violation> {
        let mut v: Vec<Violation> = outcome
            .violations
            .iter()
            .map(|(clause, detail)| Violation {
                property: PROPERTY.into(),
                clause: clause.clone(),
                detail: detail.clone(),
                finding: None,
            })
            .collect();
        if let Some(text) = panic {
            let (clause, detail) = classify_panic(text);
            if !v.iter().any(|x| x.clause == clause) {
                v.push(Violation { property: PROPERTY.into(), clause, detail, finding: None });
            }
        }
        v
    }
}

impl Engine for PoolEngine {
    fn name(&self) -> &'static str {
        "pool-shuttle"
    }

    fn plan(&self, property: &str, tier: Tier) -> Option<Plan> {
        if property != PROPERTY {
            return None;
        }
        Some(Plan {
            runs: match tier {
                Tier::Quick => 600,
                Tier::Thorough => 60_000,
            },
            level: "exploration",
            rule: format!(
                "one run = one seeded scenario (layer A: bare ResourcePool with 2-5 user threads + 1 refresher performing the prover's set_discriminant/clear/refill sequence, pool size 1-4; layer B, every 4th run: the real MithrilProverService / LegacyMithrilProverService with concurrent compute_cache and compute_*_proofs) executed under {ITER_PER_RUN} shuttle schedules (3/4 RandomScheduler, 1/4 PctScheduler depth 2-4); 'evaluations' counts runs, counter 'schedules' counts controlled executions. A run is non-trivial iff in at least one of its schedules a resource was returned or acquired while a refresh was in flight or after one had completed with a stale item outstanding; distinct = distinct hash of the recorded operation history (thread, op, generation) of its first non-trivial schedule."
            ),
            assumptions: vec![
                "shuttle's Mutex/Condvar model std's semantics; Condvar::wait_timeout never times out under shuttle, so the time-out branch of acquire_resource is not explored".into(),
                "refreshes are issued sequentially by one thread (the aggregator runs one compute_cache per prover at a time)".into(),
                "rayon's clone-only worker threads in compute_cache touch no shuttle primitive".into(),
            ],
            real_components: vec![
                "internal/mithril-resource-pool/src/resource_pool.rs (working tree, via shadow manifest + cfg mithril_verif_shuttle)".into(),
                "mithril-aggregator/src/services/prover.rs and prover_legacy.rs (#[path]-included from the working tree)".into(),
                "mithril-common MKMap / MKTree / BlockRange / signable-builder retriever default methods".into(),
            ],
            stub_components: vec![
                "block / transaction / block-range-root retrievers (in-memory chain)".into(),
                "std::sync::{Mutex,Condvar} replaced by shuttle::sync (that is the seam)".into(),
            ],
            worker_death_is_violation: false,
            time_cap_s: match tier {
                Tier::Quick => 900,
                Tier::Thorough => 6 * 3600,
            },
        })
    }

    fn run(&self, ctx: &RunCtx) -> RunReport {
        let mut rng = Rng::for_run(ctx.seed, "C18", ctx.run);
        let scenario = Self::gen_scenario(&mut rng, ctx.run);
        let mut report = RunReport::new(ctx.run);
        let mut digest = Fingerprint::new();
        digest.add(&scenario.to_string());
        let mut first_nontrivial_fp = None;
        for it in 0..ITER_PER_RUN {
            let s = rng.next_u64();
            let sched = if it % 4 == 3 { Sched::Pct(s, 2 + (it as usize / 4) % 3) } else { Sched::Random(s) };
            let (outcome, schedule, panic) = execute(&scenario, &sched);
            report.hit("schedules");
            report.hit(match sched {
                Sched::Pct(..) => "schedules_pct",
                _ => "schedules_random",
            });
            for (k, v) in &outcome.counters {
                report.count(k, *v);
            }
            digest.add_u64(outcome.fingerprint);
            report.states.extend(outcome.states.iter().copied());
            if outcome.nontrivial && first_nontrivial_fp.is_none() {
                first_nontrivial_fp = Some(outcome.fingerprint);
            }
            let violations = Self::to_violations(&outcome, &panic);
            if !violations.is_empty() {
                let Some(schedule) = schedule.or_else(|| {
                    // oracle violations are raised by a panic inside the execution, so a
                    // schedule is always persisted; this is only a safety net
                    None
                }) else {
                    report.violations = violations;
                    report.replay = Some(json!({"scenario": scenario, "schedule": Value::Null,
                        "sched": format!("{sched:?}")}));
                    break;
                };
                let (min_scenario, min_schedule) = minimise(&scenario, &schedule, &violations[0].clause);
                report.violations = violations;
                report.replay = Some(json!({"scenario": min_scenario, "schedule": min_schedule,
                    "original_scenario": scenario, "scheduler": format!("{sched:?}"), "iteration": it}));
                break;
            }
        }
        report.states.sort_unstable();
        report.states.dedup();
        report.nontrivial = first_nontrivial_fp.is_some();
        report.fingerprint = first_nontrivial_fp.unwrap_or(0);
        report.digest = digest.value();
        if ctx.want_sample {
            report.sample = Some(json!({"run": ctx.run, "scenario": scenario, "schedules": ITER_PER_RUN}));
        }
        report
    }

    fn replay(&self, doc: &Value) -> RunReport {
        let mut report = RunReport::new(0);
        let scenario = doc["scenario"].clone();
        let Some(schedule) = doc["schedule"].as_str() else {
            eprintln!("replay file has no schedule");
            std::process::exit(2)
        };
        let (outcome, _, panic) = execute(&scenario, &Sched::Replay(schedule.to_string()));
        report.violations = Self::to_violations(&outcome, &panic);
        report
    }
}

/// Shrink the scenario (fewer threads, fewer operations) while some schedule found by a short
/// seeded search still produces the same clause. The schedule of the original failure is not
/// valid for a changed scenario, so each candidate is searched with a fixed list of scheduler
/// seeds (deterministic); a candidate is kept only if one of them fails with the same clause.
fn minimise(scenario: &Value, schedule: &str, clause: &str) -> (Value, String) {
    let mut best = (scenario.clone(), schedule.to_string());
    let mut budget = 60usize;
    loop {
        let mut improved = false;
        let candidates = if best.0["layer"] == "A" {
            layer_a::shrink_candidates(&best.0)
        } else {
            layer_b::shrink_candidates(&best.0)
        };
        for cand in candidates {
            if budget == 0 {
                return best;
            }
            budget -= 1;
            let mut found = None;
            for s in 0..60u64 {
                let sched = if s % 3 == 2 { Sched::Pct(s, 3) } else { Sched::Random(s) };
                let (outcome, sch, panic) = execute(&cand, &sched);
                let vs = PoolEngine::to_violations(&outcome, &panic);
                if vs.iter().any(|v| v.clause == clause)
                    && let Some(sch) = sch
                {
                    found = Some(sch);
                    break;
                }
            }
            if let Some(sch) = found {
                best = (cand, sch);
                improved = true;
                break;
            }
        }
        if !improved {
            return best;
        }
    }
}

fn main() {
    // keep the default panic hook quiet: oracle failures are reported through the harness
    std::panic::set_hook(Box::new(|_| {}));
    batch::main(&PoolEngine)
}
