//! Layer B: the real `MithrilProverService` (prover.rs) and `LegacyMithrilProverService`
//! (prover_legacy.rs), `#[path]`-included from the working tree, over an in-memory chain.
//!
//! A refresher thread calls the real `compute_cache(n)` for growing `n`; user threads call the
//! real `compute_transactions_proofs` / `compute_blocks_proofs`. Oracle: a proof computed by a
//! call that started after `compute_cache(n)` had returned, and during which no newer refresh
//! was begun, carries the Merkle-map root of beacon `n` (reference root computed for `n` with
//! the retriever's own default method, outside any pool).
#[allow(dead_code, unused_imports)]
#[path = "/repo/mithril-aggregator/src/services/prover.rs"]
mod prover;
#[allow(dead_code, unused_imports)]
#[path = "/repo/mithril-aggregator/src/services/prover_legacy.rs"]
mod prover_legacy;

use std::collections::BTreeSet;
use std::ops::Range;
use std::sync::Arc;
use std::sync::atomic::{AtomicU64, Ordering};
use std::time::Duration;

use async_trait::async_trait;
use mithril_common::StdResult;
use mithril_common::crypto_helper::{MKMap, MKMapNode, MKTree, MKTreeNode, MKTreeStoreInMemory};
use mithril_common::entities::{
    BlockHash, BlockNumber, BlockRange, CardanoBlock, CardanoBlockTransactionMkTreeNode,
    CardanoBlockWithTransactions, CardanoTransaction, SlotNumber, TransactionHash,
};
use mithril_common::signable_builder::{BlockRangeRootRetriever, LegacyBlockRangeRootRetriever};
use serde_json::{Value, json};
use shuttle::thread;
use sim_core::{Fingerprint, Rng};

use prover::{BlocksTransactionsRetriever, MithrilProverService, ProverService};
use prover_legacy::{LegacyMithrilProverService, LegacyProverService, TransactionsRetriever};

use crate::Shared;

type S = MKTreeStoreInMemory;

/// In-memory chain: block i has hash `b<i>`, slot 10*i, and one transaction `t<i>`.
struct Chain {
    blocks: Vec<CardanoBlockWithTransactions>,
}

impl Chain {
    fn new(len: u64) -> Self {
        let blocks = (0..len)
            .map(|i| {
                CardanoBlockWithTransactions::new(
                    format!("b{i:04}"),
                    BlockNumber(i),
                    SlotNumber(10 * i),
                    vec![format!("t{i:04}")],
                )
            })
            .collect();
        Chain { blocks }
    }

    fn nodes_in(&self, range: Range<BlockNumber>) -> BTreeSet<CardanoBlockTransactionMkTreeNode> {
        let mut out = BTreeSet::new();
        for b in &self.blocks {
            if range.contains(&b.block_number) {
                out.insert(CardanoBlockTransactionMkTreeNode::Block {
                    block_hash: b.block_hash.clone(),
                    block_number: b.block_number,
                    slot_number: b.slot_number,
                });
                for t in b.clone().into_transactions() {
                    out.insert(t.into());
                }
            }
        }
        out
    }

    fn transactions(&self) -> Vec<CardanoTransaction> {
        self.blocks.iter().cloned().flat_map(|b| b.into_transactions()).collect()
    }
}

#[async_trait]
impl BlocksTransactionsRetriever for Chain {
    async fn get_block_by_hashes(
        &self,
        block_hashes: Vec<BlockHash>,
        up_to: BlockNumber,
    ) -> StdResult<Vec<CardanoBlock>> {
        Ok(self
            .blocks
            .iter()
            .filter(|b| b.block_number <= up_to && block_hashes.contains(&b.block_hash))
            .map(|b| CardanoBlock::new(b.block_hash.clone(), b.block_number, b.slot_number))
            .collect())
    }

    async fn get_transactions_by_hashes(
        &self,
        transaction_hashes: Vec<TransactionHash>,
        up_to: BlockNumber,
    ) -> StdResult<Vec<CardanoTransaction>> {
        Ok(self
            .transactions()
            .into_iter()
            .filter(|t| t.block_number <= up_to && transaction_hashes.contains(&t.transaction_hash))
            .collect())
    }

    async fn get_all_mk_nodes_by_ranges_of_block_numbers(
        &self,
        ranges_of_block: Vec<Range<BlockNumber>>,
    ) -> StdResult<Vec<CardanoBlockTransactionMkTreeNode>> {
        let mut out = Vec::new();
        for r in ranges_of_block {
            out.extend(self.nodes_in(r));
        }
        Ok(out)
    }
}

#[async_trait]
impl BlockRangeRootRetriever<S> for Chain {
    async fn retrieve_block_range_roots<'a>(
        &'a self,
        up_to_beacon: BlockNumber,
    ) -> StdResult<Box<dyn Iterator<Item = (BlockRange, MKTreeNode)> + 'a>> {
        let mut out = Vec::new();
        let mut start = 0u64;
        // only complete block ranges
        while start + BlockRange::LENGTH.0 <= *up_to_beacon + 1 && start < self.blocks.len() as u64 {
            let range = BlockRange::from_block_number(BlockNumber(start));
            let nodes = self.nodes_in(range.start..range.end);
            if !nodes.is_empty() {
                out.push((range.clone(), MKTree::<S>::new_from_iter(nodes)?.compute_root()?));
            }
            start += *BlockRange::LENGTH;
        }
        Ok(Box::new(out.into_iter()))
    }

    async fn retrieve_block_ranges_nodes(
        &self,
        range: Range<BlockNumber>,
    ) -> StdResult<BTreeSet<CardanoBlockTransactionMkTreeNode>> {
        Ok(self.nodes_in(range))
    }
}

#[async_trait]
impl TransactionsRetriever for Chain {
    async fn get_by_hashes(
        &self,
        hashes: Vec<TransactionHash>,
        up_to: BlockNumber,
    ) -> StdResult<Vec<CardanoTransaction>> {
        Ok(self
            .transactions()
            .into_iter()
            .filter(|t| t.block_number <= up_to && hashes.contains(&t.transaction_hash))
            .collect())
    }

    async fn get_by_block_ranges(&self, block_ranges: Vec<BlockRange>) -> StdResult<Vec<CardanoTransaction>> {
        Ok(self
            .transactions()
            .into_iter()
            .filter(|t| block_ranges.iter().any(|r| r.contains(&t.block_number)))
            .collect())
    }
}

#[async_trait]
impl LegacyBlockRangeRootRetriever<S> for Chain {
    async fn retrieve_block_range_roots<'a>(
        &'a self,
        up_to_beacon: BlockNumber,
    ) -> StdResult<Box<dyn Iterator<Item = (BlockRange, MKTreeNode)> + 'a>> {
        let mut out = Vec::new();
        let mut start = 0u64;
        while start + BlockRange::LENGTH.0 <= *up_to_beacon + 1 && start < self.blocks.len() as u64 {
            let range = BlockRange::from_block_number(BlockNumber(start));
            let txs: Vec<CardanoTransaction> =
                self.transactions().into_iter().filter(|t| range.contains(&t.block_number)).collect();
            if !txs.is_empty() {
                out.push((range.clone(), MKTree::<S>::new(&txs)?.compute_root()?));
            }
            start += *BlockRange::LENGTH;
        }
        Ok(Box::new(out.into_iter()))
    }
}

pub fn generate(rng: &mut Rng) -> Value {
    let size = rng.range(1, 3);
    let users = rng.range(2, 3);
    // beacons at the end of complete ranges (15*k - 1), growing
    let mut beacons = Vec::new();
    let mut k = rng.range(1, 2);
    for _ in 0..rng.range(2, 3) {
        beacons.push(15 * k - 1);
        k += rng.range(1, 2);
    }
    let user_ops: Vec<Vec<Value>> = (0..users)
        .map(|_| {
            (0..rng.range(1, 3))
                .map(|_| json!({"kind": if rng.chance(0.5) {"tx"} else {"block"}, "block": rng.range(0, 14)}))
                .collect()
        })
        .collect();
    json!({
        "layer": "B",
        "legacy": rng.chance(0.35),
        "size": size,
        "beacons": beacons,
        "users": user_ops,
    })
}

pub fn shrink_candidates(s: &Value) -> Vec<Value> {
    let mut out = Vec::new();
    let users = s["users"].as_array().cloned().unwrap_or_default();
    if users.len() > 1 {
        for i in 0..users.len() {
            let mut u = users.clone();
            u.remove(i);
            let mut c = s.clone();
            c["users"] = json!(u);
            out.push(c);
        }
    }
    for (i, ops) in users.iter().enumerate() {
        let ops = ops.as_array().cloned().unwrap_or_default();
        if ops.len() > 1 {
            for j in 0..ops.len() {
                let mut o = ops.clone();
                o.remove(j);
                let mut u = users.clone();
                u[i] = json!(o);
                let mut c = s.clone();
                c["users"] = json!(u);
                out.push(c);
            }
        }
    }
    let beacons = s["beacons"].as_array().cloned().unwrap_or_default();
    if beacons.len() > 2 {
        let mut b = beacons.clone();
        b.pop();
        let mut c = s.clone();
        c["beacons"] = json!(b);
        out.push(c);
    }
    out
}

enum AnyProver {
    New(MithrilProverService<S>),
    Legacy(LegacyMithrilProverService<S>),
}

impl AnyProver {
    async fn compute_cache(&self, up_to: BlockNumber) -> StdResult<()> {
        match self {
            AnyProver::New(p) => p.compute_cache(up_to).await,
            AnyProver::Legacy(p) => p.compute_cache(up_to).await,
        }
    }

    /// Returns the hex Merkle root of the proof (None when the prover returned no proof).
    async fn prove(&self, up_to: BlockNumber, kind: &str, block: u64) -> StdResult<Option<String>> {
        match self {
            AnyProver::New(p) => {
                if kind == "tx" {
                    let proof = p.compute_transactions_proofs(up_to, &[format!("t{block:04}")]).await?;
                    match proof {
                        Some(proof) => {
                            proof.verify()?;
                            Ok(Some(proof.merkle_root()))
                        }
                        None => Ok(None),
                    }
                } else {
                    let proof = p.compute_blocks_proofs(up_to, &[format!("b{block:04}")]).await?;
                    match proof {
                        Some(proof) => {
                            proof.verify()?;
                            Ok(Some(proof.merkle_root()))
                        }
                        None => Ok(None),
                    }
                }
            }
            AnyProver::Legacy(p) => {
                let proofs = p.compute_transactions_proofs(up_to, &[format!("t{block:04}")]).await?;
                match proofs.first() {
                    Some(proof) => {
                        proof.verify()?;
                        Ok(Some(proof.merkle_root()))
                    }
                    None => Ok(None),
                }
            }
        }
    }
}

#[derive(Clone, Debug)]
enum Ev {
    RefreshBegin(u64),
    RefreshEnd(u64),
    Proof { thread: usize, invoke: u64, up_to: u64, root: Option<String>, error: Option<String> },
}

pub fn scenario(sc: &Value, shared: &Shared) {
    let size = sc["size"].as_u64().unwrap() as usize;
    let legacy = sc["legacy"].as_bool().unwrap_or(false);
    let beacons: Vec<u64> = sc["beacons"].as_array().unwrap().iter().map(|b| b.as_u64().unwrap()).collect();
    let users: Vec<Vec<(String, u64)>> = sc["users"]
        .as_array()
        .unwrap()
        .iter()
        .map(|ops| {
            ops.as_array()
                .unwrap()
                .iter()
                .map(|o| (o["kind"].as_str().unwrap().to_string(), o["block"].as_u64().unwrap()))
                .collect()
        })
        .collect();
    let chain = Arc::new(Chain::new(beacons.iter().max().unwrap() + 8));
    let logger = slog::Logger::root(slog::Discard, slog::o!());
    let prover = Arc::new(if legacy {
        AnyProver::Legacy(LegacyMithrilProverService::<S>::new(chain.clone(), chain.clone(), size, logger))
    } else {
        AnyProver::New(MithrilProverService::<S>::new(chain.clone(), chain.clone(), size, logger))
    });

    // reference roots, computed outside any pool
    let reference_root = |n: u64| -> String {
        shuttle::future::block_on(async {
            if legacy {
                LegacyBlockRangeRootRetriever::<S>::compute_merkle_map_from_block_range_roots(&*chain, BlockNumber(n))
                    .await
                    .unwrap()
                    .compute_root()
                    .unwrap()
                    .to_hex()
            } else {
                let m: MKMap<BlockRange, MKMapNode<BlockRange, S>, S> =
                    BlockRangeRootRetriever::<S>::compute_merkle_map_from_block_range_roots(&*chain, BlockNumber(n))
                        .await
                        .unwrap();
                m.compute_root().unwrap().to_hex()
            }
        })
    };
    let roots: Vec<(u64, String)> = beacons.iter().map(|n| (*n, reference_root(*n))).collect();

    let seq = Arc::new(AtomicU64::new(0));
    let log: Arc<std::sync::Mutex<Vec<(u64, Ev)>>> = Default::default();
    let latest_done = Arc::new(AtomicU64::new(u64::MAX));

    // first generation is installed before users start (an empty pool only times out)
    shuttle::future::block_on(prover.compute_cache(BlockNumber(beacons[0]))).expect("compute_cache");
    latest_done.store(beacons[0], Ordering::SeqCst);
    log.lock().unwrap().push((seq.fetch_add(1, Ordering::SeqCst), Ev::RefreshBegin(beacons[0])));
    log.lock().unwrap().push((seq.fetch_add(1, Ordering::SeqCst), Ev::RefreshEnd(beacons[0])));

    let mut handles = Vec::new();
    for (t, ops) in users.into_iter().enumerate() {
        let (prover, seq, log, latest_done) = (prover.clone(), seq.clone(), log.clone(), latest_done.clone());
        handles.push(thread::spawn(move || {
            for (kind, block) in ops {
                let invoke = seq.fetch_add(1, Ordering::SeqCst);
                let up_to = latest_done.load(Ordering::SeqCst);
                let res = shuttle::future::block_on(prover.prove(BlockNumber(up_to), &kind, block));
                let s = seq.fetch_add(1, Ordering::SeqCst);
                let ev = match res {
                    Ok(root) => Ev::Proof { thread: t, invoke, up_to, root, error: None },
                    Err(e) => Ev::Proof { thread: t, invoke, up_to, root: None, error: Some(format!("{e:#}")) },
                };
                log.lock().unwrap().push((s, ev));
                thread::sleep(Duration::from_millis(0));
            }
        }));
    }
    {
        let (prover, seq, log, latest_done) = (prover.clone(), seq.clone(), log.clone(), latest_done.clone());
        let later: Vec<u64> = beacons[1..].to_vec();
        handles.push(thread::spawn(move || {
            for n in later {
                log.lock().unwrap().push((seq.fetch_add(1, Ordering::SeqCst), Ev::RefreshBegin(n)));
                shuttle::future::block_on(prover.compute_cache(BlockNumber(n))).expect("compute_cache");
                latest_done.store(n, Ordering::SeqCst);
                log.lock().unwrap().push((seq.fetch_add(1, Ordering::SeqCst), Ev::RefreshEnd(n)));
                thread::sleep(Duration::from_millis(0));
            }
        }));
    }
    for h in handles {
        h.join().expect("scenario thread panicked");
    }
    // drain: `size + 1` sequential proofs rotate through everything that is pooled
    let last = *beacons.last().unwrap();
    for i in 0..=size {
        let invoke = seq.fetch_add(1, Ordering::SeqCst);
        let res = shuttle::future::block_on(prover.prove(BlockNumber(last), "tx", (i as u64) % 15));
        let s = seq.fetch_add(1, Ordering::SeqCst);
        let ev = match res {
            Ok(root) => Ev::Proof { thread: 99, invoke, up_to: last, root, error: None },
            Err(e) => Ev::Proof { thread: 99, invoke, up_to: last, root: None, error: Some(format!("{e:#}")) },
        };
        log.lock().unwrap().push((s, ev));
    }

    // ---- oracle ----
    let events = log.lock().unwrap().clone();
    let mut violations: Vec<(String, String)> = Vec::new();
    let mut fp = Fingerprint::new();
    let mut counters = std::collections::BTreeMap::<String, u64>::new();
    let mut nontrivial = false;
    let begins: Vec<(u64, u64)> =
        events.iter().filter_map(|(s, e)| if let Ev::RefreshBegin(n) = e { Some((*s, *n)) } else { None }).collect();
    let ends: Vec<(u64, u64)> =
        events.iter().filter_map(|(s, e)| if let Ev::RefreshEnd(n) = e { Some((*s, *n)) } else { None }).collect();
    for (s, e) in &events {
        match e {
            Ev::RefreshBegin(n) => {
                fp.add("rb").add_u64(*n);
            }
            Ev::RefreshEnd(n) => {
                fp.add("re").add_u64(*n);
                *counters.entry("proverB_refresh".into()).or_default() += 1;
            }
            Ev::Proof { thread, invoke, up_to, root, error } => {
                fp.add("p").add_u64(*thread as u64).add_u64(*up_to).add(root.as_deref().unwrap_or("-"));
                *counters.entry("proverB_proofs".into()).or_default() += 1;
                let done_before_invoke = ends.iter().filter(|(x, _)| x < invoke).count();
                let begun_before_return = begins.iter().filter(|(x, _)| x < s).count();
                if begun_before_return != done_before_invoke {
                    // a refresh overlapped the call: not judged (in-flight refreshes are not
                    // held against the caller)
                    nontrivial = true;
                    *counters.entry("probe_proof_overlapping_refresh".into()).or_default() += 1;
                    continue;
                }
                let expected_beacon = ends.iter().filter(|(x, _)| x < invoke).map(|(_, n)| *n).max().unwrap();
                let expected = &roots.iter().find(|(n, _)| *n == expected_beacon).unwrap().1;
                if done_before_invoke > 1 {
                    nontrivial = true;
                }
                match (root, error) {
                    (Some(r), _) if r == expected => {}
                    (Some(r), _) => {
                        let of = roots.iter().find(|(_, x)| x == r).map(|(n, _)| format!("beacon {n}")).unwrap_or("no generation".into());
                        violations.push((
                            "stale-generation".into(),
                            format!("proof requested after compute_cache({expected_beacon}) had returned carries the Merkle root of {of} instead of beacon {expected_beacon}"),
                        ));
                    }
                    (None, Some(err)) => violations.push((
                        "proof-error".into(),
                        format!("proof computation failed outside any refresh: {err}"),
                    )),
                    (None, None) => violations.push((
                        "proof-error".into(),
                        "prover returned no proof for a certified item outside any refresh".into(),
                    )),
                }
            }
        }
    }
    violations.dedup_by(|a, b| a.0 == b.0);
    {
        let mut out = shared.lock().unwrap();
        out.fingerprint = fp.value();
        out.nontrivial = nontrivial;
        out.states = vec![fp.value()];
        out.counters = counters;
        out.violations = violations.clone();
    }
    if let Some((clause, detail)) = violations.first() {
        panic!("C18VIOLATION clause={clause} {detail}");
    }
}
