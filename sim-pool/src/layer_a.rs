//! Layer A: the bare `ResourcePool` with stamped resources.
//!
//! Users acquire and return (explicit give-back of the item, or implicit drop); one refresher
//! performs exactly the call sequence `prover.rs::compute_cache` performs
//! (`discriminant()+1`, `set_discriminant`, `clear`, refill `size` fresh resources through
//! `give_back_resource`). The oracle is evaluated on the recorded history.
use std::sync::Arc;
use std::sync::atomic::{AtomicU64, Ordering};
use std::time::Duration;

use mithril_common::StdResult;
use mithril_resource_pool::{Reset, ResourcePool};
use serde_json::{Value, json};
use shuttle::thread;
use sim_core::{Fingerprint, Rng};

use crate::Shared;

/// A pooled resource that remembers the generation it was created for.
pub struct Stamped {
    pub generation: u64,
    pub id: u64,
    pub resets: u64,
}

impl Reset for Stamped {
    fn reset(&mut self) -> StdResult<()> {
        self.resets += 1;
        Ok(())
    }
}

#[derive(Clone, Debug)]
enum Ev {
    RefreshBegin { generation: u64 },
    RefreshEnd { generation: u64 },
    Acquire { thread: usize, invoke: u64, generation: u64, id: u64, tag: u64 },
    Return { thread: usize, how: &'static str, generation: u64 },
    Count { n: usize },
}

struct Log {
    seq: AtomicU64,
    events: std::sync::Mutex<Vec<(u64, Ev)>>,
}

impl Log {
    fn tick(&self) -> u64 {
        self.seq.fetch_add(1, Ordering::SeqCst)
    }
    fn push(&self, ev: Ev) -> u64 {
        let s = self.tick();
        self.events.lock().unwrap().push((s, ev));
        s
    }
}

pub fn generate(rng: &mut Rng) -> Value {
    let size = rng.range(1, 4);
    let users = rng.range(2, 5);
    let mut user_ops = Vec::new();
    for _ in 0..users {
        let n = rng.range(1, 4);
        let ops: Vec<&str> = (0..n)
            .map(|_| match rng.weighted(&[5, 4, 1, 1]) {
                0 => "item", // acquire, yield, give_back_resource_pool_item
                1 => "drop", // acquire, yield, implicit drop
                2 => "reset", // reset_available_resources
                _ => "count",
            })
            .collect();
        user_ops.push(ops);
    }
    json!({
        "layer": "A",
        "size": size,
        "prefilled": rng.chance(0.7),
        "refreshes": rng.range(1, 3),
        "users": user_ops,
    })
}

pub fn shrink_candidates(s: &Value) -> Vec<Value> {
    let mut out = Vec::new();
    let users = s["users"].as_array().cloned().unwrap_or_default();
    // drop one user
    if users.len() > 1 {
        for i in 0..users.len() {
            let mut u = users.clone();
            u.remove(i);
            let mut c = s.clone();
            c["users"] = json!(u);
            out.push(c);
        }
    }
    // drop one op
    for (i, ops) in users.iter().enumerate() {
        let ops = ops.as_array().cloned().unwrap_or_default();
        if ops.len() > 1 {
            for j in 0..ops.len() {
                let mut o = ops.clone();
                o.remove(j);
                let mut u = users.clone();
                u[i] = json!(o);
                let mut c = s.clone();
                c["users"] = json!(u);
                out.push(c);
            }
        }
    }
    if s["refreshes"].as_u64().unwrap_or(1) > 1 {
        let mut c = s.clone();
        c["refreshes"] = json!(s["refreshes"].as_u64().unwrap() - 1);
        out.push(c);
    }
    if s["size"].as_u64().unwrap_or(1) > 1 {
        let mut c = s.clone();
        c["size"] = json!(s["size"].as_u64().unwrap() - 1);
        out.push(c);
    }
    out
}

pub fn scenario(sc: &Value, shared: &Shared) {
    let size = sc["size"].as_u64().unwrap() as usize;
    let prefilled = sc["prefilled"].as_bool().unwrap_or(true);
    let refreshes = sc["refreshes"].as_u64().unwrap();
    let users: Vec<Vec<String>> = sc["users"]
        .as_array()
        .unwrap()
        .iter()
        .map(|ops| ops.as_array().unwrap().iter().map(|o| o.as_str().unwrap().to_string()).collect())
        .collect();

    let next_id = Arc::new(AtomicU64::new(0));
    let initial: Vec<Stamped> = if prefilled {
        (0..size)
            .map(|_| Stamped { generation: 0, id: next_id.fetch_add(1, Ordering::SeqCst), resets: 0 })
            .collect()
    } else {
        vec![]
    };
    let pool: Arc<ResourcePool<Stamped>> = Arc::new(ResourcePool::new(size, initial));
    let log = Arc::new(Log { seq: AtomicU64::new(0), events: Default::default() });

    let mut handles = Vec::new();
    for (t, ops) in users.into_iter().enumerate() {
        let pool = pool.clone();
        let log = log.clone();
        handles.push(thread::spawn(move || {
            for op in ops {
                match op.as_str() {
                    "item" | "drop" => {
                        let invoke = log.tick();
                        let item = pool
                            .acquire_resource(Duration::from_millis(1000))
                            .expect("acquire_resource failed (no time-out exists under shuttle)");
                        log.push(Ev::Acquire {
                            thread: t,
                            invoke,
                            generation: item.generation,
                            id: item.id,
                            tag: item.discriminant(),
                        });
                        thread::sleep(Duration::from_millis(0));
                        let generation = item.generation;
                        if op == "item" {
                            pool.give_back_resource_pool_item(item).expect("give back item");
                            log.push(Ev::Return { thread: t, how: "item", generation });
                        } else {
                            drop(item);
                            log.push(Ev::Return { thread: t, how: "drop", generation });
                        }
                        let n = pool.count().expect("count");
                        log.push(Ev::Count { n });
                    }
                    "reset" => {
                        pool.reset_available_resources().expect("reset");
                    }
                    _ => {
                        let n = pool.count().expect("count");
                        log.push(Ev::Count { n });
                    }
                }
            }
        }));
    }
    {
        let pool = pool.clone();
        let log = log.clone();
        let next_id = next_id.clone();
        handles.push(thread::spawn(move || {
            for _ in 0..refreshes {
                // == prover.rs::compute_cache, second half ==
                let generation = pool.discriminant().expect("discriminant") + 1;
                let fresh: Vec<Stamped> = (0..pool.size())
                    .map(|_| Stamped { generation, id: next_id.fetch_add(1, Ordering::SeqCst), resets: 0 })
                    .collect();
                log.push(Ev::RefreshBegin { generation });
                pool.set_discriminant(generation).expect("set_discriminant");
                pool.clear();
                for r in fresh {
                    pool.give_back_resource(r, generation).expect("give_back_resource");
                }
                log.push(Ev::RefreshEnd { generation });
                let n = pool.count().expect("count");
                log.push(Ev::Count { n });
                thread::sleep(Duration::from_millis(0));
            }
        }));
    }
    for h in handles {
        h.join().expect("scenario thread panicked");
    }

    // ---- drain: whatever is still pooled is handed out now, i.e. after the last refresh ----
    let final_generation = pool.discriminant().expect("discriminant");
    let n = pool.count().expect("count");
    log.push(Ev::Count { n });
    let mut drained = Vec::new();
    for _ in 0..n {
        let invoke = log.tick();
        let item = pool.acquire_resource(Duration::from_millis(1000)).expect("drain acquire");
        log.push(Ev::Acquire {
            thread: 99,
            invoke,
            generation: item.generation,
            id: item.id,
            tag: item.discriminant(),
        });
        drained.push(item);
    }
    // if the pool was never refreshed-and-refilled there may be nothing: fine
    let _ = final_generation;

    // ---- oracle over the history ----
    let events = log.events.lock().unwrap().clone();
    let mut violations: Vec<(String, String)> = Vec::new();
    let mut refresh_ends: Vec<(u64, u64)> = Vec::new(); // (seq, generation)
    let mut fp = Fingerprint::new();
    let mut nontrivial = false;
    let mut refresh_in_flight = false;
    let mut any_refresh_done = false;
    let mut counters = std::collections::BTreeMap::<String, u64>::new();
    let mut bump = |k: &str| *counters.entry(k.to_string()).or_default() += 1;
    for (seq, ev) in &events {
        match ev {
            Ev::RefreshBegin { generation } => {
                refresh_in_flight = true;
                fp.add("rb").add_u64(*generation);
                bump("refresh");
            }
            Ev::RefreshEnd { generation } => {
                refresh_in_flight = false;
                any_refresh_done = true;
                refresh_ends.push((*seq, *generation));
                fp.add("re").add_u64(*generation);
            }
            Ev::Acquire { thread, invoke, generation, id, tag } => {
                fp.add("acq").add_u64(*thread as u64).add_u64(*generation);
                bump("acquire");
                if refresh_in_flight {
                    nontrivial = true;
                    bump("probe_acquire_during_refresh");
                }
                let required = refresh_ends
                    .iter()
                    .filter(|(s, _)| s < invoke)
                    .map(|(_, g)| *g)
                    .max()
                    .unwrap_or(0);
                if *generation < required {
                    violations.push((
                        "stale-generation".into(),
                        format!(
                            "thread {thread} was handed resource #{id} of generation {generation} (pool tag {tag}) by an acquire that started after the refresh to generation {required} had completed"
                        ),
                    ));
                }
            }
            Ev::Return { thread, how, generation } => {
                fp.add("ret").add_u64(*thread as u64).add(how).add_u64(*generation);
                bump(if *how == "item" { "return_item" } else { "return_drop" });
                let current = refresh_ends.iter().map(|(_, g)| *g).max().unwrap_or(0);
                if refresh_in_flight || (any_refresh_done && *generation < current) {
                    nontrivial = true;
                    bump("probe_stale_or_inflight_return");
                }
            }
            Ev::Count { n } => {
                if *n > size {
                    violations.push((
                        "over-capacity".into(),
                        format!("pool of size {size} held {n} resources"),
                    ));
                }
            }
        }
    }
    violations.dedup_by(|a, b| a.0 == b.0);
    {
        let mut out = shared.lock().unwrap();
        out.fingerprint = fp.value();
        out.nontrivial = nontrivial;
        out.states = vec![fp.value()];
        out.counters = counters;
        out.violations = violations.clone();
    }
    drop(drained);
    if let Some((clause, detail)) = violations.first() {
        panic!("C18VIOLATION clause={clause} {detail}");
    }
}
