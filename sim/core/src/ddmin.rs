//! Delta-debugging minimisation over a list of items (events, faults, operations).

/// Shrink `items` while `fails(candidate)` stays true. `budget` bounds the number of
/// `fails` evaluations. The result still fails (the input is assumed to fail).
pub fn ddmin<T: Clone>(
    items: Vec<T>,
    mut fails: impl FnMut(&[T]) -> bool,
    mut budget: usize,
) -> Vec<T> {
    let mut cur = items;
    let mut n = 2usize;
    while cur.len() >= 2 && budget > 0 {
        let chunk = cur.len().div_ceil(n);
        let mut reduced = false;
        // try removing each chunk (complements)
        let mut start = 0;
        while start < cur.len() && budget > 0 {
            let end = (start + chunk).min(cur.len());
            let mut cand = Vec::with_capacity(cur.len() - (end - start));
            cand.extend_from_slice(&cur[..start]);
            cand.extend_from_slice(&cur[end..]);
            budget -= 1;
            if !cand.is_empty() && fails(&cand) {
                cur = cand;
                n = n.saturating_sub(1).max(2);
                reduced = true;
                break;
            }
            start = end;
        }
        if !reduced {
            if n >= cur.len() {
                break;
            }
            n = (n * 2).min(cur.len());
        }
    }
    // final pass: single removals
    let mut i = 0;
    while i < cur.len() && cur.len() > 1 && budget > 0 {
        let mut cand = cur.clone();
        cand.remove(i);
        budget -= 1;
        if fails(&cand) {
            cur = cand;
        } else {
            i += 1;
        }
    }
    cur
}

#[cfg(test)]
mod tests {
    use super::*;

    #[test]
    fn finds_pair() {
        let items: Vec<u32> = (0..50).collect();
        let out = ddmin(items, |c| c.contains(&7) && c.contains(&31), 1000);
        assert_eq!(out, vec![7, 31]);
    }
}
