//! `/verif/known-findings.json`: genuine defects recorded (status `known`) or repaired
//! (status `fixed`). Read-only at run time. Only `known` entries suppress a violation, and
//! only one that the engine attributed to that entry by counterfactual neutralisation.
use serde::{Deserialize, Serialize};

#[derive(Clone, Debug, Serialize, Deserialize)]
pub struct Finding {
    pub id: String,
    pub property: String,
    /// "known" or "fixed"
    pub status: String,
    pub what: String,
    #[serde(default)]
    pub trigger: String,
    #[serde(default)]
    pub commit: String,
}

#[derive(Clone, Debug, Default, Serialize, Deserialize)]
pub struct Findings {
    #[serde(default)]
    pub findings: Vec<Finding>,
}

impl Findings {
    pub fn load() -> Findings {
        let path = crate::verif_root().join("known-findings.json");
        match std::fs::read_to_string(&path) {
            Ok(text) => serde_json::from_str(&text).unwrap_or_else(|e| {
                eprintln!("HARNESS-ERROR: cannot parse {}: {e}", path.display());
                std::process::exit(2)
            }),
            Err(_) => Findings::default(),
        }
    }

    /// The listed, un-repaired finding with this id for this property, if any.
    pub fn known(&self, property: &str, id: &str) -> Option<&Finding> {
        self.findings
            .iter()
            .find(|f| f.id == id && f.property == property && f.status == "known")
    }

    pub fn is_known(&self, property: &str, id: &str) -> bool {
        self.known(property, id).is_some()
    }
}
