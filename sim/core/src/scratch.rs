//! Per-run scratch directories (durable state of simulated nodes). Removed on drop.
use std::path::{Path, PathBuf};

pub struct Scratch {
    path: PathBuf,
    keep: bool,
}

pub fn scratch_root() -> PathBuf {
    std::env::var_os("VERIF_SCRATCH")
        .map(Into::into)
        .unwrap_or_else(|| PathBuf::from("/dev/shm/mithril-sim"))
}

impl Scratch {
    /// Fresh empty directory `<root>/<label>-<pid>-<n>`.
    pub fn new(label: &str) -> Scratch {
        use std::sync::atomic::{AtomicU64, Ordering};
        static N: AtomicU64 = AtomicU64::new(0);
        let n = N.fetch_add(1, Ordering::SeqCst);
        let path = scratch_root().join(format!("{label}-{}-{n}", std::process::id()));
        let _ = std::fs::remove_dir_all(&path);
        std::fs::create_dir_all(&path).expect("create scratch dir");
        Scratch { path, keep: std::env::var_os("VERIF_KEEP_SCRATCH").is_some() }
    }

    pub fn path(&self) -> &Path {
        &self.path
    }

    pub fn sub(&self, name: &str) -> PathBuf {
        let p = self.path.join(name);
        std::fs::create_dir_all(&p).expect("create scratch sub dir");
        p
    }
}

impl Drop for Scratch {
    fn drop(&mut self) {
        if !self.keep {
            let _ = std::fs::remove_dir_all(&self.path);
        }
    }
}
