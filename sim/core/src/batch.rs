//! Batch runner shared by every engine binary.
//!
//! `sim-<engine> run <property> <quick|thorough>` spawns worker *processes* (one simulated
//! run at a time per process: the statement hook of mithril-persistence is process-global,
//! and separate processes also give every repetition a different `RandomState`), collects
//! one JSON line per run, decides VIOLATION / KNOWN-FINDING, re-plays every violation in a
//! fresh process before reporting it, and writes the evidence file.
//!
//! Exit codes: 0 = property held on everything explored (known findings are listed),
//! 1 = violation (`VIOLATION property=<id> replay=<path>` on stdout), 2 = harness error.
use std::collections::{BTreeMap, BTreeSet};
use std::io::{BufRead, BufReader, Write};
use std::path::PathBuf;
use std::process::{Command, Stdio};
use std::time::Instant;

use serde::{Deserialize, Serialize};
use serde_json::{Value, json};

use crate::findings::Findings;

#[derive(Clone, Copy, Debug, PartialEq, Eq, Serialize, Deserialize)]
#[serde(rename_all = "lowercase")]
pub enum Tier {
    Quick,
    Thorough,
}

impl Tier {
    pub fn parse(s: &str) -> Option<Tier> {
        match s {
            "quick" => Some(Tier::Quick),
            "thorough" => Some(Tier::Thorough),
            _ => None,
        }
    }
    pub fn as_str(&self) -> &'static str {
        match self {
            Tier::Quick => "quick",
            Tier::Thorough => "thorough",
        }
    }
}

/// What a batch of this (property, tier) consists of.
#[derive(Clone, Debug)]
pub struct Plan {
    pub runs: u64,
    /// evidence `level`
    pub level: &'static str,
    /// how cases are generated and what makes one distinct / non-trivial
    pub rule: String,
    pub assumptions: Vec<String>,
    pub real_components: Vec<String>,
    pub stub_components: Vec<String>,
    /// a worker that dies (abort, OOM kill, signal) is itself a violation of this property
    /// (only the decoding engine sets it); otherwise it is a harness error.
    pub worker_death_is_violation: bool,
    /// hard wall-clock cap for the batch (seconds); runs not started by then are skipped
    /// and reported as such. Sized so that it never triggers in practice.
    pub time_cap_s: u64,
}

#[derive(Clone, Debug)]
pub struct RunCtx {
    pub property: String,
    pub tier: Tier,
    pub seed: u64,
    pub run: u64,
    /// include a written-out sample of the run in the report
    pub want_sample: bool,
}

#[derive(Clone, Debug, Serialize, Deserialize)]
pub struct Violation {
    pub property: String,
    /// which clause of the oracle failed (stable short label)
    pub clause: String,
    pub detail: String,
    /// id of the known finding this violation was attributed to by the engine's
    /// counterfactual neutralisation; `None` = not explained by any listed trigger
    #[serde(default)]
    pub finding: Option<String>,
}

#[derive(Clone, Debug, Default, Serialize, Deserialize)]
pub struct RunReport {
    pub run: u64,
    /// hash of the normalised event-kind sequence incl. which fault kinds fired
    pub fingerprint: u64,
    pub nontrivial: bool,
    /// fault kinds fired, probes hit, simulated time units covered ...
    #[serde(default)]
    pub counters: BTreeMap<String, u64>,
    /// hashes of abstract states visited (engine-defined measure)
    #[serde(default)]
    pub states: Vec<u64>,
    #[serde(default)]
    pub violations: Vec<Violation>,
    /// self-contained replay document (config + minimised trace) when a violation occurred
    #[serde(default)]
    pub replay: Option<Value>,
    #[serde(default)]
    pub sample: Option<Value>,
    /// digest of the normalised event log and end state: must be identical whenever the
    /// same (seed, property, run) is executed again, in any process
    pub digest: u64,
}

impl RunReport {
    pub fn new(run: u64) -> Self {
        RunReport { run, ..Default::default() }
    }
    pub fn count(&mut self, key: &str, n: u64) {
        if n > 0 {
            *self.counters.entry(key.to_string()).or_default() += n;
        }
    }
    pub fn hit(&mut self, key: &str) {
        self.count(key, 1);
    }
}

pub trait Engine: Sync {
    fn name(&self) -> &'static str;
    /// `None` when the engine does not serve this property.
    fn plan(&self, property: &str, tier: Tier) -> Option<Plan>;
    /// One simulated execution, a pure function of `ctx`.
    fn run(&self, ctx: &RunCtx) -> RunReport;
    /// Re-execute a replay document written by `run`.
    fn replay(&self, doc: &Value) -> RunReport;
}

fn harness_error(msg: &str) -> ! {
    eprintln!("HARNESS-ERROR: {msg}");
    std::process::exit(2)
}

fn env_u64(name: &str) -> Option<u64> {
    std::env::var(name).ok().and_then(|v| v.trim().parse().ok())
}

fn default_workers() -> u64 {
    env_u64("VERIF_WORKERS").unwrap_or_else(|| {
        std::thread::available_parallelism().map(|n| n.get() as u64).unwrap_or(4)
    })
}

/// Entry point of every engine binary.
pub fn main(engine: &dyn Engine) -> ! {
    let args: Vec<String> = std::env::args().collect();
    let code = match args.get(1).map(String::as_str) {
        Some("run") => cmd_run(engine, &args[2..]),
        Some("worker") => cmd_worker(engine, &args[2..]),
        Some("replay") => cmd_replay(engine, &args[2..]),
        Some("determinism") => cmd_determinism(engine, &args[2..]),
        _ => {
            eprintln!(
                "usage: {0} run <property> <quick|thorough>\n       {0} replay <file>\n       {0} determinism <property> <runs>",
                args[0]
            );
            2
        }
    };
    std::process::exit(code)
}

fn cmd_worker(engine: &dyn Engine, args: &[String]) -> i32 {
    // worker <property> <tier> <seed> <first> <step> <total> <deadline_unix_s> <samples>
    if args.len() < 8 {
        harness_error("worker: bad arguments");
    }
    let property = args[0].clone();
    let tier = Tier::parse(&args[1]).unwrap_or_else(|| harness_error("worker: bad tier"));
    let seed: u64 = args[2].parse().unwrap();
    let first: u64 = args[3].parse().unwrap();
    let step: u64 = args[4].parse().unwrap();
    let total: u64 = args[5].parse().unwrap();
    let deadline: u64 = args[6].parse().unwrap();
    let samples: u64 = args[7].parse().unwrap();
    let stdout = std::io::stdout();
    let mut run = first;
    let mut done = 0u64;
    while run < total {
        let now = std::time::SystemTime::now()
            .duration_since(std::time::UNIX_EPOCH)
            .map(|d| d.as_secs())
            .unwrap_or(0);
        if now >= deadline {
            break;
        }
        let ctx = RunCtx {
            property: property.clone(),
            tier,
            seed,
            run,
            want_sample: done < samples,
        };
        // announce the run first: if the process dies inside it the parent knows which one
        {
            let mut out = stdout.lock();
            let _ = writeln!(out, "{{\"begin\":{run}}}");
            let _ = out.flush();
        }
        let report = engine.run(&ctx);
        let line = serde_json::to_string(&report).expect("serialise report");
        let mut out = stdout.lock();
        let _ = writeln!(out, "{line}");
        let _ = out.flush();
        run += step;
        done += 1;
    }
    0
}

struct Collected {
    reports: Vec<RunReport>,
    /// (run index, exit status text) of workers that died mid-run
    deaths: Vec<(u64, String)>,
}

fn spawn_and_collect(
    property: &str,
    tier: Tier,
    seed: u64,
    total: u64,
    workers: u64,
    deadline: u64,
    samples_per_worker: u64,
) -> Collected {
    let exe = std::env::current_exe().unwrap_or_else(|e| harness_error(&format!("current_exe: {e}")));
    let workers = workers.clamp(1, total.max(1));
    let mut handles = Vec::new();
    for w in 0..workers {
        let mut child = Command::new(&exe)
            .arg("worker")
            .arg(property)
            .arg(tier.as_str())
            .arg(seed.to_string())
            .arg(w.to_string())
            .arg(workers.to_string())
            .arg(total.to_string())
            .arg(deadline.to_string())
            .arg(samples_per_worker.to_string())
            .stdin(Stdio::null())
            .stdout(Stdio::piped())
            .stderr(Stdio::inherit())
            .spawn()
            .unwrap_or_else(|e| harness_error(&format!("spawn worker: {e}")));
        let stdout = child.stdout.take().unwrap();
        let handle = std::thread::spawn(move || {
            let mut reports = Vec::new();
            let mut current: Option<u64> = None;
            for line in BufReader::new(stdout).lines() {
                let Ok(line) = line else { break };
                if line.starts_with("{\"begin\":") {
                    let v: Value = serde_json::from_str(&line).unwrap_or(Value::Null);
                    current = v.get("begin").and_then(Value::as_u64);
                    continue;
                }
                if !line.starts_with('{') {
                    continue; // stray output of repo code
                }
                match serde_json::from_str::<RunReport>(&line) {
                    Ok(r) => {
                        current = None;
                        reports.push(r)
                    }
                    Err(_) => continue,
                }
            }
            let status = child.wait();
            let death = match status {
                Ok(s) if s.success() => None,
                Ok(s) => Some((current.unwrap_or(u64::MAX), format!("{s}"))),
                Err(e) => Some((current.unwrap_or(u64::MAX), format!("wait: {e}"))),
            };
            (reports, death)
        });
        handles.push(handle);
    }
    let mut reports = Vec::new();
    let mut deaths = Vec::new();
    for h in handles {
        let (r, d) = h.join().unwrap_or_else(|_| harness_error("collector thread panicked"));
        reports.extend(r);
        deaths.extend(d);
    }
    reports.sort_by_key(|r| r.run);
    Collected { reports, deaths }
}

fn unix_now() -> u64 {
    std::time::SystemTime::now()
        .duration_since(std::time::UNIX_EPOCH)
        .map(|d| d.as_secs())
        .unwrap_or(0)
}

fn cmd_run(engine: &dyn Engine, args: &[String]) -> i32 {
    if args.len() < 2 {
        harness_error("run: expected <property> <quick|thorough>");
    }
    let property = args[0].clone();
    let tier = Tier::parse(&args[1]).unwrap_or_else(|| harness_error("run: bad tier"));
    let plan = engine
        .plan(&property, tier)
        .unwrap_or_else(|| harness_error(&format!("engine {} does not serve {property}", engine.name())));
    let seed = env_u64("VERIF_SEED").unwrap_or(1);
    let total = env_u64("VERIF_RUNS").unwrap_or(plan.runs);
    let workers = default_workers();
    let cap = env_u64("VERIF_TIME_CAP_S").unwrap_or(plan.time_cap_s);
    println!(
        "engine={} property={property} tier={} VERIF_SEED={seed} runs={total} workers={workers}",
        engine.name(),
        tier.as_str()
    );
    let started = Instant::now();
    let collected = spawn_and_collect(&property, tier, seed, total, workers, unix_now() + cap, 2);
    let wall = started.elapsed().as_secs_f64();

    let findings = Findings::load();
    let root = crate::verif_root();
    let replay_dir = root.join("replays");
    let _ = std::fs::create_dir_all(&replay_dir);

    let mut counters: BTreeMap<String, u64> = BTreeMap::new();
    let mut fingerprints: BTreeSet<u64> = BTreeSet::new();
    let mut states: BTreeSet<u64> = BTreeSet::new();
    let mut samples: Vec<Value> = Vec::new();
    let mut nontrivial_runs = 0u64;
    let mut violation_lines: Vec<String> = Vec::new();
    let mut known_lines: BTreeMap<String, (String, u64)> = BTreeMap::new();
    let mut harness_errors: Vec<String> = Vec::new();

    for r in &collected.reports {
        for (k, v) in &r.counters {
            *counters.entry(k.clone()).or_default() += *v;
        }
        if r.nontrivial {
            nontrivial_runs += 1;
            fingerprints.insert(r.fingerprint);
        }
        states.extend(r.states.iter().copied());
        if samples.len() < 3
            && let Some(s) = &r.sample
        {
            samples.push(s.clone());
        }
        if r.violations.is_empty() {
            continue;
        }
        // group: known findings vs new violations
        let mut fresh: Vec<&Violation> = Vec::new();
        for v in &r.violations {
            match &v.finding {
                Some(id) if findings.is_known(&v.property, id) => {
                    let e = known_lines
                        .entry(id.clone())
                        .or_insert_with(|| (format!("{} [{}] {}", v.property, v.clause, v.detail), 0));
                    e.1 += 1;
                }
                _ => fresh.push(v),
            }
        }
        if fresh.is_empty() {
            continue;
        }
        let v = fresh[0];
        let path = replay_dir.join(format!("{}-s{seed}-r{}.json", v.property, r.run));
        let doc = json!({
            "property": v.property,
            "clause": v.clause,
            "detail": v.detail,
            "engine": engine.name(),
            "seed": seed,
            "run": r.run,
            "tier": tier.as_str(),
            "replay": r.replay,
        });
        if let Err(e) = std::fs::write(&path, serde_json::to_string_pretty(&doc).unwrap()) {
            harness_errors.push(format!("cannot write {}: {e}", path.display()));
            continue;
        }
        // re-play in a fresh process before reporting
        match replay_in_fresh_process(&path) {
            Ok(clauses) if clauses.iter().any(|c| c == &v.clause) => {
                violation_lines.push(format!(
                    "VIOLATION property={} replay={} clause={} detail={}",
                    v.property,
                    path.display(),
                    v.clause,
                    v.detail.replace('\n', " ")
                ));
            }
            Ok(clauses) => harness_errors.push(format!(
                "run {} reported [{}] but its replay {} gave {:?} (non-deterministic harness?)",
                r.run,
                v.clause,
                path.display(),
                clauses
            )),
            Err(e) => harness_errors.push(format!("replay of {} failed: {e}", path.display())),
        }
    }

    // dead workers
    for (run, status) in &collected.deaths {
        if plan.worker_death_is_violation && *run != u64::MAX {
            let path = replay_dir.join(format!("{property}-s{seed}-r{run}-death.json"));
            let doc = json!({
                "property": property, "clause": "process-death", "engine": engine.name(),
                "seed": seed, "run": run, "tier": tier.as_str(),
                "detail": format!("worker died with {status} while executing this run"),
                "replay": {"kind": "rerun", "seed": seed, "run": run, "tier": tier.as_str()},
            });
            let _ = std::fs::write(&path, serde_json::to_string_pretty(&doc).unwrap());
            violation_lines.push(format!(
                "VIOLATION property={property} replay={} clause=process-death detail=worker died with {status}",
                path.display()
            ));
        } else {
            harness_errors.push(format!("worker died ({status}) during run {run}"));
        }
    }

    let evaluations = collected.reports.len() as u64;
    let skipped = total.saturating_sub(evaluations);
    let runs_per_hour = if wall > 0.0 { evaluations as f64 / wall * 3600.0 } else { 0.0 };

    // evidence
    let known: Vec<Value> = known_lines
        .iter()
        .map(|(id, (what, n))| json!({"finding": id, "example": what, "runs_hitting_it": n}))
        .collect();
    let evidence = json!({
        "property_id": property,
        "tier": tier.as_str(),
        "seed": seed,
        "level": plan.level,
        "coverage": {
            "evaluations": evaluations,
            "distinct_nontrivial": fingerprints.len(),
            "nontrivial_runs": nontrivial_runs,
            "rule": plan.rule,
            "samples": samples,
            "runs_planned": total,
            "runs_skipped_by_time_cap": skipped,
            "runs_per_hour": runs_per_hour.round(),
            "distinct_abstract_states": states.len(),
            "counters": counters,
            "engine": engine.name(),
            "workers": workers,
            "real_components": plan.real_components,
            "stub_components": plan.stub_components,
            "known_findings_hit": known,
        },
        "assumptions": plan.assumptions,
        "wall_s": (wall * 100.0).round() / 100.0,
        "violations": violation_lines.len(),
    });
    let evidence_dir = root.join("evidence");
    let _ = std::fs::create_dir_all(&evidence_dir);
    let evidence_path = evidence_dir.join(format!("{property}.json"));
    if let Err(e) = std::fs::write(&evidence_path, serde_json::to_string_pretty(&evidence).unwrap()) {
        harness_errors.push(format!("cannot write {}: {e}", evidence_path.display()));
    }

    println!(
        "runs={evaluations} nontrivial={nontrivial_runs} distinct_nontrivial={} states={} wall={wall:.1}s ({:.0} runs/h)",
        fingerprints.len(),
        states.len(),
        runs_per_hour
    );
    for (k, v) in &counters {
        println!("  {k}={v}");
    }
    for (id, (what, n)) in &known_lines {
        println!("KNOWN-FINDING: property={property} finding={id} runs={n} {what}");
    }
    for l in &violation_lines {
        println!("{l}");
    }
    for e in &harness_errors {
        eprintln!("HARNESS-ERROR: {e}");
    }
    if !violation_lines.is_empty() {
        1
    } else if !harness_errors.is_empty() || evaluations == 0 {
        if evaluations == 0 {
            eprintln!("HARNESS-ERROR: no run completed");
        }
        2
    } else {
        0
    }
}

fn replay_in_fresh_process(path: &PathBuf) -> Result<Vec<String>, String> {
    let exe = std::env::current_exe().map_err(|e| e.to_string())?;
    let out = Command::new(exe)
        .arg("replay")
        .arg(path)
        .stdin(Stdio::null())
        .stderr(Stdio::null())
        .output()
        .map_err(|e| e.to_string())?;
    let text = String::from_utf8_lossy(&out.stdout);
    let mut clauses = Vec::new();
    for line in text.lines() {
        if let Some(rest) = line.strip_prefix("REPLAY-VIOLATION ") {
            for tok in rest.split_whitespace() {
                if let Some(c) = tok.strip_prefix("clause=") {
                    clauses.push(c.to_string());
                }
            }
        }
    }
    Ok(clauses)
}

fn cmd_replay(engine: &dyn Engine, args: &[String]) -> i32 {
    let Some(path) = args.first() else { harness_error("replay: expected <file>") };
    let text = std::fs::read_to_string(path)
        .unwrap_or_else(|e| harness_error(&format!("cannot read {path}: {e}")));
    let doc: Value =
        serde_json::from_str(&text).unwrap_or_else(|e| harness_error(&format!("bad replay file: {e}")));
    let inner = doc.get("replay").cloned().unwrap_or(Value::Null);
    let report = if inner.get("kind").and_then(Value::as_str) == Some("rerun") {
        let ctx = RunCtx {
            property: doc["property"].as_str().unwrap_or("").to_string(),
            tier: Tier::parse(inner["tier"].as_str().unwrap_or("quick")).unwrap_or(Tier::Quick),
            seed: inner["seed"].as_u64().unwrap_or(1),
            run: inner["run"].as_u64().unwrap_or(0),
            want_sample: false,
        };
        engine.run(&ctx)
    } else {
        engine.replay(&inner)
    };
    let findings = Findings::load();
    let mut code = 0;
    for v in &report.violations {
        println!(
            "REPLAY-VIOLATION property={} clause={} finding={} detail={}",
            v.property,
            v.clause,
            v.finding.as_deref().unwrap_or("-"),
            v.detail.replace('\n', " ")
        );
        let known = v.finding.as_deref().map(|id| findings.is_known(&v.property, id)).unwrap_or(false);
        if !known {
            println!("VIOLATION property={} replay={path}", v.property);
            code = 1;
        } else {
            println!("KNOWN-FINDING: property={} finding={}", v.property, v.finding.as_deref().unwrap());
        }
    }
    if report.violations.is_empty() {
        println!("replay: no violation reproduced");
    }
    code
}

/// `determinism <property> <runs>`: every run executed twice in separate processes and at two
/// different worker counts; (fingerprint, digest, violations) must be identical.
fn cmd_determinism(engine: &dyn Engine, args: &[String]) -> i32 {
    if args.len() < 2 {
        harness_error("determinism: expected <property> <runs>");
    }
    let property = args[0].clone();
    let total: u64 = args[1].parse().unwrap_or(50);
    let tier = Tier::Quick;
    if engine.plan(&property, tier).is_none() {
        harness_error("property not served by this engine");
    }
    let seed = env_u64("VERIF_SEED").unwrap_or(1);
    let w = default_workers();
    let deadline = unix_now() + 7200;
    let a = spawn_and_collect(&property, tier, seed, total, w, deadline, 0);
    let b = spawn_and_collect(&property, tier, seed, total, (w / 2).max(1) + 1, deadline, 0);
    let mut bad = 0;
    if a.reports.len() != b.reports.len() || !a.deaths.is_empty() || !b.deaths.is_empty() {
        eprintln!(
            "determinism: {} vs {} reports, deaths {:?} {:?}",
            a.reports.len(),
            b.reports.len(),
            a.deaths,
            b.deaths
        );
        bad += 1;
    }
    for (x, y) in a.reports.iter().zip(b.reports.iter()) {
        let vx: Vec<_> = x.violations.iter().map(|v| (&v.clause, &v.finding)).collect();
        let vy: Vec<_> = y.violations.iter().map(|v| (&v.clause, &v.finding)).collect();
        if x.run != y.run
            || x.fingerprint != y.fingerprint
            || x.digest != y.digest
            || vx != vy
            || x.counters != y.counters
        {
            bad += 1;
            eprintln!(
                "determinism: run {} differs: fp {:x}/{:x} digest {:x}/{:x} violations {:?}/{:?}",
                x.run, x.fingerprint, y.fingerprint, x.digest, y.digest, vx, vy
            );
            let keys: BTreeSet<_> = x.counters.keys().chain(y.counters.keys()).collect();
            for k in keys {
                if x.counters.get(k) != y.counters.get(k) {
                    eprintln!("    counter {k}: {:?} vs {:?}", x.counters.get(k), y.counters.get(k));
                }
            }
        }
    }
    println!(
        "determinism property={property} seed={seed} runs={} compared twice (workers {w} and {}): {} differing",
        a.reports.len(),
        (w / 2).max(1) + 1,
        bad
    );
    if bad == 0 { 0 } else { 2 }
}
