//! Shared core of the deterministic simulators in /verif/sim:
//! PRNG, batch runner (worker processes), replay files, minimisation helper,
//! known-findings attribution and evidence writer.
pub mod batch;
pub mod ddmin;
pub mod findings;
pub mod rng;
pub mod scratch;

pub use batch::{Engine, Plan, RunCtx, RunReport, Tier, Violation};
pub use rng::{Rng, fnv64, fnv64_str};

/// Root of the verification tree (overridable for background snapshot runs).
pub fn verif_root() -> std::path::PathBuf {
    std::env::var_os("VERIF_ROOT")
        .map(Into::into)
        .unwrap_or_else(|| "/verif".into())
}

/// Incremental FNV fingerprint builder used for run fingerprints and state hashes.
#[derive(Clone, Debug)]
pub struct Fingerprint(pub u64);

impl Default for Fingerprint {
    fn default() -> Self {
        Fingerprint(0xcbf2_9ce4_8422_2325)
    }
}

impl Fingerprint {
    pub fn new() -> Self {
        Self::default()
    }
    pub fn add(&mut self, s: &str) -> &mut Self {
        for b in s.as_bytes().iter().chain(std::iter::once(&0xffu8)) {
            self.0 ^= *b as u64;
            self.0 = self.0.wrapping_mul(0x0000_0100_0000_01B3);
        }
        self
    }
    pub fn add_u64(&mut self, x: u64) -> &mut Self {
        for b in x.to_le_bytes() {
            self.0 ^= b as u64;
            self.0 = self.0.wrapping_mul(0x0000_0100_0000_01B3);
        }
        self
    }
    pub fn value(&self) -> u64 {
        self.0
    }
}
