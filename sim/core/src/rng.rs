//! The one PRNG every simulated choice is drawn from (SplitMix64).
//!
//! A run is a pure function of `(VERIF_SEED, property, run index)`; sub-streams are derived
//! by hashing, never by sharing a generator between independent concerns, so adding a draw in
//! one place does not shift every other choice of the run.

#[derive(Clone, Debug)]
pub struct Rng {
    s: u64,
}

fn mix(mut z: u64) -> u64 {
    z = (z ^ (z >> 30)).wrapping_mul(0xBF58_476D_1CE4_E5B9);
    z = (z ^ (z >> 27)).wrapping_mul(0x94D0_49BB_1331_11EB);
    z ^ (z >> 31)
}

/// FNV-1a 64 bit, used for fingerprints and stream derivation (stable across processes,
/// unlike `std::hash::RandomState`).
pub fn fnv64(data: &[u8]) -> u64 {
    let mut h: u64 = 0xcbf2_9ce4_8422_2325;
    for b in data {
        h ^= *b as u64;
        h = h.wrapping_mul(0x0000_0100_0000_01B3);
    }
    h
}

pub fn fnv64_str(s: &str) -> u64 {
    fnv64(s.as_bytes())
}

impl Rng {
    pub fn new(seed: u64) -> Self {
        Rng { s: mix(seed ^ 0x9E37_79B9_7F4A_7C15) }
    }

    /// Generator for `(seed, label, run)`.
    pub fn for_run(seed: u64, label: &str, run: u64) -> Self {
        let mut r = Rng::new(seed);
        r.s = mix(r.s ^ fnv64_str(label));
        r.s = mix(r.s ^ run.wrapping_mul(0xD134_2543_DE82_EF95));
        r
    }

    /// Independent sub-stream.
    pub fn fork(&mut self, label: &str) -> Rng {
        let a = self.next_u64();
        Rng { s: mix(a ^ fnv64_str(label)) }
    }

    pub fn next_u64(&mut self) -> u64 {
        self.s = self.s.wrapping_add(0x9E37_79B9_7F4A_7C15);
        mix(self.s)
    }

    /// Uniform in `0..n` (n > 0).
    pub fn below(&mut self, n: u64) -> u64 {
        assert!(n > 0, "Rng::below(0)");
        // multiply-shift; bias is irrelevant at these sizes
        ((self.next_u64() as u128 * n as u128) >> 64) as u64
    }

    pub fn index(&mut self, n: usize) -> usize {
        self.below(n as u64) as usize
    }

    /// Uniform in `lo..=hi`.
    pub fn range(&mut self, lo: u64, hi: u64) -> u64 {
        assert!(lo <= hi);
        lo + self.below(hi - lo + 1)
    }

    pub fn f64(&mut self) -> f64 {
        (self.next_u64() >> 11) as f64 / (1u64 << 53) as f64
    }

    pub fn chance(&mut self, p: f64) -> bool {
        self.f64() < p
    }

    /// Log-uniform in `[lo, hi]`.
    pub fn log_uniform(&mut self, lo: f64, hi: f64) -> f64 {
        let (a, b) = (lo.ln(), hi.ln());
        (a + (b - a) * self.f64()).exp()
    }

    pub fn pick<'a, T>(&mut self, items: &'a [T]) -> &'a T {
        &items[self.index(items.len())]
    }

    pub fn weighted(&mut self, weights: &[u32]) -> usize {
        let total: u64 = weights.iter().map(|w| *w as u64).sum();
        assert!(total > 0, "Rng::weighted: all weights zero");
        let mut x = self.below(total);
        for (i, w) in weights.iter().enumerate() {
            if x < *w as u64 {
                return i;
            }
            x -= *w as u64;
        }
        unreachable!()
    }

    pub fn shuffle<T>(&mut self, items: &mut [T]) {
        for i in (1..items.len()).rev() {
            let j = self.index(i + 1);
            items.swap(i, j);
        }
    }

    pub fn bytes(&mut self, n: usize) -> Vec<u8> {
        let mut v = Vec::with_capacity(n);
        while v.len() < n {
            let x = self.next_u64().to_le_bytes();
            let take = (n - v.len()).min(8);
            v.extend_from_slice(&x[..take]);
        }
        v
    }

    pub fn fill32(&mut self) -> [u8; 32] {
        let mut out = [0u8; 32];
        out.copy_from_slice(&self.bytes(32));
        out
    }
}

#[cfg(test)]
mod tests {
    use super::*;

    #[test]
    fn reproducible_and_distinct() {
        let a: Vec<u64> = {
            let mut r = Rng::for_run(1, "x", 7);
            (0..8).map(|_| r.next_u64()).collect()
        };
        let b: Vec<u64> = {
            let mut r = Rng::for_run(1, "x", 7);
            (0..8).map(|_| r.next_u64()).collect()
        };
        let c: Vec<u64> = {
            let mut r = Rng::for_run(1, "x", 8);
            (0..8).map(|_| r.next_u64()).collect()
        };
        assert_eq!(a, b);
        assert_ne!(a, c);
    }

    #[test]
    fn ranges() {
        let mut r = Rng::new(3);
        for _ in 0..10_000 {
            let x = r.range(3, 9);
            assert!((3..=9).contains(&x));
            let w = r.weighted(&[0, 5, 0, 1]);
            assert!(w == 1 || w == 3);
        }
    }
}
