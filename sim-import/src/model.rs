//! The stubbed Cardano node: a canonical chain with forks and a chain-sync server model behind
//! the repo's `ChainBlockReader` trait.
//!
//! Contract implemented (Ouroboros chain-sync, as relied upon by `PallasChainReader` +
//! `ChainReaderBlockStreamer`):
//!  S1 every connection has a read pointer; a new connection starts at origin and the first
//!     `next` on it answers `RollBackward(origin)`;
//!  S2 `intersect(p)`: if `p` is on the server's current chain the pointer moves to `p` and the
//!     first following `next` answers `RollBackward(p)`; an unknown point leaves the connection
//!     untouched (the real reader ignores the intersect result);
//!  S3 `next`: the block following the pointer (pointer advances), or `None` (await) at the tip;
//!  S4 when the chain switches and the pointer is on the abandoned branch, the pointer moves to the
//!     common ancestor and the next `next` answers `RollBackward(common ancestor)`;
//!  S5 a reader error closes the connection (the real reader drops its client): the next call
//!     opens a new connection (S1);
//!  S6 (optional, knob `agency`) after an await the server has the agency: the real reader then
//!     skips the intersect of the next scan and waits for the server's next message; if nothing
//!     arrives it times out, fails and drops its client.
use std::collections::BTreeSet;
use std::path::PathBuf;
use std::sync::{Arc, Mutex};

use async_trait::async_trait;
use mithril_cardano_node_chain::chain_reader::ChainBlockReader;
use mithril_cardano_node_chain::entities::{ChainBlockNextAction, RawCardanoPoint, ScannedBlock};
use mithril_common::StdResult;
use mithril_common::entities::{BlockNumber, SlotNumber};
use sim_core::Rng;

pub const RANGE: u64 = 15;

#[derive(Clone, Debug, PartialEq, Eq)]
pub struct Block {
    pub number: u64,
    pub slot: u64,
    pub hash: Vec<u8>,
    pub txs: Vec<String>,
}

impl Block {
    pub fn hash_hex(&self) -> String {
        hex::encode(&self.hash)
    }
}

/// A point of the chain: `None` = origin.
pub type Point = Option<(u64, Vec<u8>)>;

fn to_raw(p: &Point) -> RawCardanoPoint {
    match p {
        None => RawCardanoPoint::origin(),
        Some((slot, hash)) => RawCardanoPoint::new(SlotNumber(*slot), hash.clone()),
    }
}

fn from_raw(p: &RawCardanoPoint) -> Point {
    if p.is_origin() { None } else { Some((*p.slot_number, p.block_hash.clone())) }
}

#[derive(Clone, Debug)]
pub struct Conn {
    pub pointer: Point,
    pub back_to: bool,
    /// the pending roll-back only acknowledges an intersect (S2)
    pub back_is_ack: bool,
    /// the server has the agency (last answer was an await) — only tracked with knob `agency`
    pub must_reply: bool,
    /// never used since it was (re)opened
    pub fresh: bool,
}

impl Conn {
    pub fn new() -> Conn {
        Conn { pointer: None, back_to: true, back_is_ack: false, must_reply: false, fresh: true }
    }
}

#[derive(Clone, Debug, Default)]
pub struct ImportFaults {
    /// the k-th `next` call of this import fails (reader error), 0-based
    pub reader_err_at: Option<u64>,
    /// the chain switches just before the k-th `next` call of this import is answered
    pub mid_fork: Option<(u64, u64, u64, u64)>, // (at_call, depth, new_len, seed)
}

#[derive(Default, Clone, Debug)]
pub struct ServerStats {
    pub rollbacks_delivered: u64,
    pub rollback_below_first_stored: u64,
    pub intersect_not_found: u64,
    pub intersect_skipped_no_agency: u64,
    pub reader_errors_fired: u64,
    pub reader_timeouts: u64,
    pub mid_forks_fired: u64,
    pub mid_forks_back_to_scan_start: u64,
    pub forwards: u64,
    pub awaits: u64,
}

pub struct ServerState {
    pub first_number: u64,
    pub first_slot: u64,
    pub tx_weights: [u32; 4],
    pub chain: Vec<Block>,
    /// hashes of every chain version that ever was canonical (for the "no mixture" check)
    pub versions: Vec<BTreeSet<Vec<u8>>>,
    /// transactions of abandoned blocks, candidates for re-inclusion in the new branch
    pub orphan_txs: Vec<String>,
    pub conns: Vec<Conn>,
    /// per node: path of its database (used by the probe / neutralisation below)
    pub db_paths: Vec<PathBuf>,
    pub agency: bool,
    /// forks never replace the first block (set when it sits at slot 0: origin and slot 0 are the
    /// same thing for `ChainScannedBlocks::RollBackward(SlotNumber)`)
    pub protect_first: bool,
    /// envelope of runs with pruning nodes: forks are at most this deep
    pub max_fork_depth: Option<u64>,
    pub max_blocks: u64,
    /// start point of the current / last scan of each connection
    pub scan_from: Vec<Point>,
    // per-import state
    pub active_node: Option<usize>,
    pub calls: u64,
    pub faults: ImportFaults,
    /// mirror of the streamer's `last_polled_point` bookkeeping for the current scan
    pub scan_until: u64,
    pub stats: ServerStats,
    pub total_blocks_made: u64,
}

pub fn range_start(n: u64) -> u64 {
    n / RANGE * RANGE
}

impl ServerState {
    pub fn new(first_number: u64, first_slot: u64, tx_weights: [u32; 4], nodes: usize) -> ServerState {
        ServerState {
            first_number,
            first_slot,
            tx_weights,
            chain: vec![],
            versions: vec![BTreeSet::new()],
            orphan_txs: vec![],
            conns: (0..nodes).map(|_| Conn::new()).collect(),
            db_paths: vec![PathBuf::new(); nodes],
            agency: false,
            protect_first: first_slot == 0,
            max_fork_depth: None,
            max_blocks: 420,
            scan_from: vec![None; nodes],
            active_node: None,
            calls: 0,
            faults: ImportFaults::default(),
            scan_until: 0,
            stats: ServerStats::default(),
            total_blocks_made: 0,
        }
    }

    pub fn tip_number(&self) -> Option<u64> {
        self.chain.last().map(|b| b.number)
    }

    fn index_of(&self, p: &Point) -> Option<Option<usize>> {
        match p {
            None => Some(None),
            Some((slot, hash)) => self
                .chain
                .iter()
                .position(|b| b.slot == *slot && &b.hash == hash)
                .map(Some),
        }
    }

    pub fn grow(&mut self, count: u64, seed: u64) {
        let mut rng = Rng::new(seed);
        for _ in 0..count {
            let (number, prev_slot) = match self.chain.last() {
                Some(b) => (b.number + 1, Some(b.slot)),
                None => (self.first_number, None),
            };
            let gap = match rng.weighted(&[50, 25, 15, 7, 3]) {
                0 => 0,
                1 => 1,
                2 => rng.range(2, 4),
                3 => rng.range(5, 20),
                _ => rng.range(21, 200),
            };
            let slot = match prev_slot {
                Some(s) => s + 1 + gap,
                None => self.first_slot,
            };
            let hash = rng.fill32().to_vec();
            let ntx = rng.weighted(&self.tx_weights);
            let mut txs = Vec::new();
            for _ in 0..ntx {
                if !self.orphan_txs.is_empty() && rng.chance(0.5) {
                    let i = rng.index(self.orphan_txs.len());
                    txs.push(self.orphan_txs.swap_remove(i));
                } else {
                    txs.push(hex::encode(rng.fill32()));
                }
            }
            self.chain.push(Block { number, slot, hash, txs });
            self.total_blocks_made += 1;
        }
        let last = self.versions.len() - 1;
        for b in &self.chain {
            self.versions[last].insert(b.hash.clone());
        }
    }

    /// Depth and length of the new branch actually applied for a requested fork.
    pub fn clamp_fork(&self, depth: u64, new_len: u64) -> (u64, u64) {
        let len = self.chain.len() as u64;
        let mut depth = depth.min(len);
        if self.protect_first {
            depth = depth.min(len.saturating_sub(1));
        }
        if let Some(m) = self.max_fork_depth {
            depth = depth.min(m);
        }
        // a chain switch never goes to a shorter chain
        let room = self.max_blocks.saturating_sub(len - depth);
        let new_len = new_len.max(depth).min(room.max(depth));
        (depth, new_len)
    }

    /// Abandon the last `depth` blocks and grow `new_len` different ones (both clamped to the
    /// envelope). Returns the number of the last common block (`None` = back to origin).
    pub fn fork(&mut self, depth: u64, new_len: u64, seed: u64) -> Option<u64> {
        let (depth, new_len) = self.clamp_fork(depth, new_len);
        let depth = depth as usize;
        let keep = self.chain.len() - depth;
        let abandoned: Vec<Block> = self.chain.split_off(keep);
        for b in &abandoned {
            self.orphan_txs.extend(b.txs.iter().cloned());
        }
        let ancestor: Point = self.chain.last().map(|b| (b.slot, b.hash.clone()));
        // S4
        for c in self.conns.iter_mut() {
            if let Some((slot, hash)) = &c.pointer
                && abandoned.iter().any(|b| b.slot == *slot && &b.hash == hash)
            {
                c.pointer = ancestor.clone();
                c.back_to = true;
                c.back_is_ack = false;
            }
        }
        let set: BTreeSet<Vec<u8>> = self.chain.iter().map(|b| b.hash.clone()).collect();
        self.versions.push(set);
        self.grow(new_len, seed);
        if keep > 0 { Some(self.chain[keep - 1].number) } else { None }
    }

    pub fn reset_conn(&mut self, node: usize) {
        self.conns[node] = Conn::new();
    }

    pub fn begin_import(&mut self, node: usize, until: u64, faults: ImportFaults) {
        self.active_node = Some(node);
        self.calls = 0;
        self.faults = faults;
        self.scan_until = until;
    }

    pub fn end_import(&mut self) {
        self.active_node = None;
        self.faults = ImportFaults::default();
    }

    fn intersect(&mut self, node: usize, p: &Point) {
        self.conns[node].fresh = false;
        self.scan_from[node] = p.clone();
        if self.agency && self.conns[node].must_reply {
            // S6: the real reader does not send the intersect when it has no agency
            self.stats.intersect_skipped_no_agency += 1;
            return;
        }
        if self.index_of(p).is_some() {
            let c = &mut self.conns[node];
            c.pointer = p.clone();
            c.back_to = true;
            c.back_is_ack = true;
        } else {
            self.stats.intersect_not_found += 1;
        }
    }

    fn next(&mut self, node: usize) -> StdResult<Option<ChainBlockNextAction>> {
        let call = self.calls;
        self.calls += 1;
        if self.active_node == Some(node) {
            if let Some((at, depth, new_len, seed)) = self.faults.mid_fork
                && at == call
            {
                self.faults.mid_fork = None;
                let (d, _) = self.clamp_fork(depth, new_len);
                let len = self.chain.len() as u64;
                let ancestor_slot = if d >= len { 0 } else { self.chain[(len - d - 1) as usize].slot };
                let from_slot = self.scan_from[node].as_ref().map(|p| p.0).unwrap_or(0);
                let pointer_abandoned = match &self.conns[node].pointer {
                    None => false,
                    Some((slot, _)) => d > 0 && *slot > ancestor_slot,
                };
                let swallowed = d > 0 && pointer_abandoned && ancestor_slot == from_slot;
                if swallowed {
                    self.stats.mid_forks_back_to_scan_start += 1;
                }
                if d > 0 {
                    self.fork(depth, new_len, seed);
                    self.stats.mid_forks_fired += 1;
                }
            }
            if self.faults.reader_err_at == Some(call) {
                self.faults.reader_err_at = None;
                self.stats.reader_errors_fired += 1;
                self.reset_conn(node); // S5
                return Err(anyhow::anyhow!("sim: chain-sync connection lost"));
            }
        }
        self.conns[node].fresh = false;
        if self.conns[node].back_to {
            let p = self.conns[node].pointer.clone();
            let ack = self.conns[node].back_is_ack;
            self.conns[node].back_to = false;
            self.conns[node].back_is_ack = false;
            self.conns[node].must_reply = false;
            self.on_rollback_emitted(node, &p, ack);
            return Ok(Some(ChainBlockNextAction::RollBackward { rollback_point: to_raw(&p) }));
        }
        let idx = self.index_of(&self.conns[node].pointer.clone()).expect("pointer is on the chain");
        let succ = match idx {
            None => 0,
            Some(i) => i + 1,
        };
        if let Some(b) = self.chain.get(succ) {
            let b = b.clone();
            let c = &mut self.conns[node];
            c.pointer = Some((b.slot, b.hash.clone()));
            c.must_reply = false;
            self.stats.forwards += 1;
            Ok(Some(ChainBlockNextAction::RollForward {
                parsed_block: ScannedBlock::new(
                    b.hash.clone(),
                    BlockNumber(b.number),
                    SlotNumber(b.slot),
                    b.txs.clone(),
                ),
            }))
        } else if self.agency && self.conns[node].must_reply {
            // S6: nothing arrives while the client waits for the server's reply: time-out
            self.stats.reader_timeouts += 1;
            self.reset_conn(node);
            Err(anyhow::anyhow!("sim: timed out waiting for next chain block"))
        } else {
            self.conns[node].must_reply = self.agency;
            self.stats.awaits += 1;
            Ok(None)
        }
    }

    /// Probes: a roll-back delivered to a node with a non-empty store; a roll-back to a point below
    /// every block stored by the node (everything it stores must go).
    fn on_rollback_emitted(&mut self, node: usize, p: &Point, ack: bool) {
        let slot = p.as_ref().map(|(s, _)| *s).unwrap_or(0);
        let path = self.db_paths[node].clone();
        if path.as_os_str().is_empty() || !path.exists() {
            return;
        }
        let Ok(conn) = sqlite::Connection::open(&path) else { return };
        let count = |sql: &str| -> i64 {
            let mut st = conn.prepare(sql).expect("probe prepare");
            match st.next() {
                Ok(sqlite::State::Row) => st.read::<i64, _>(0).unwrap_or(0),
                _ => 0,
            }
        };
        let total = count("select count(*) from cardano_block");
        if total > 0 && !ack {
            self.stats.rollbacks_delivered += 1;
        }
        let at_or_below = count(&format!("select count(*) from cardano_block where slot_number <= {slot}"));
        if total > 0 && at_or_below == 0 {
            self.stats.rollback_below_first_stored += 1;
        }
    }
}

pub type Server = Arc<Mutex<ServerState>>;

/// The `ChainBlockReader` handed to the real `CardanoBlockScanner`.
pub struct SimChainReader {
    pub server: Server,
    pub node: usize,
}

#[async_trait]
impl ChainBlockReader for SimChainReader {
    async fn set_chain_point(&mut self, point: &RawCardanoPoint) -> StdResult<()> {
        let mut s = self.server.lock().unwrap();
        let p = from_raw(point);
        s.intersect(self.node, &p);
        Ok(())
    }

    async fn get_next_chain_block(&mut self) -> StdResult<Option<ChainBlockNextAction>> {
        let mut s = self.server.lock().unwrap();
        s.next(self.node)
    }
}

/// Unit test of the model against the sentences S1–S6 above. Panics on failure.
pub fn self_test() {
    fn fwd(a: &StdResult<Option<ChainBlockNextAction>>) -> Option<u64> {
        match a {
            Ok(Some(ChainBlockNextAction::RollForward { parsed_block })) => Some(*parsed_block.block_number),
            _ => None,
        }
    }
    fn back(a: &StdResult<Option<ChainBlockNextAction>>) -> Option<u64> {
        match a {
            Ok(Some(ChainBlockNextAction::RollBackward { rollback_point })) => Some(*rollback_point.slot_number),
            _ => None,
        }
    }
    let mut s = ServerState::new(1, 7, [1, 1, 1, 1], 2);
    s.grow(10, 42);
    assert_eq!(s.chain.len(), 10);
    assert!(s.chain.windows(2).all(|w| w[1].number == w[0].number + 1 && w[1].slot > w[0].slot));
    // S1
    assert_eq!(back(&s.next(0)), Some(0), "S1 first next on a new connection rolls back to origin");
    // S3
    assert_eq!(fwd(&s.next(0)), Some(1));
    assert_eq!(fwd(&s.next(0)), Some(2));
    // S2 known point
    let p5: Point = Some((s.chain[4].slot, s.chain[4].hash.clone()));
    s.intersect(0, &p5);
    assert_eq!(back(&s.next(0)), Some(s.chain[4].slot), "S2 intersect found answers RollBackward(p)");
    assert_eq!(fwd(&s.next(0)), Some(6));
    // S2 unknown point: untouched
    s.intersect(0, &Some((999, vec![1, 2, 3])));
    assert_eq!(fwd(&s.next(0)), Some(7), "S2 unknown point leaves the pointer where it was");
    // S4 chain switch under the pointer (pointer at block 7, fork abandons 6..10)
    let fp = s.fork(5, 6, 43);
    assert_eq!(fp, Some(5));
    assert_eq!(s.chain.len(), 11);
    assert_eq!(back(&s.next(0)), Some(s.chain[4].slot), "S4 roll back to the common ancestor");
    assert_eq!(fwd(&s.next(0)), Some(6));
    // S4 pointer not on the abandoned branch: no roll-back. conn 1 is still new (S1 first)
    assert_eq!(back(&s.next(1)), Some(0));
    assert_eq!(fwd(&s.next(1)), Some(1));
    s.fork(2, 3, 44);
    assert_eq!(fwd(&s.next(1)), Some(2), "S4 unaffected pointer just continues");
    // S3 await at tip
    while fwd(&s.next(1)).is_some() {}
    assert!(matches!(s.next(1), Ok(None)));
    // S5 reader error resets the connection
    s.begin_import(1, 1000, ImportFaults { reader_err_at: Some(0), mid_fork: None });
    assert!(s.next(1).is_err());
    s.end_import();
    assert_eq!(back(&s.next(1)), Some(0), "S5 new connection after an error");
    // fork to origin
    let len_before = s.chain.len();
    let fp = s.fork(1000, 4, 45);
    assert_eq!(fp, None);
    assert_eq!(s.chain.len(), len_before.max(4), "a fork never leads to a shorter chain");
    assert_eq!(s.chain[0].number, 1);
    // S6
    let mut s = ServerState::new(0, 0, [1, 0, 0, 0], 1);
    s.agency = true;
    s.grow(2, 1);
    assert_eq!(back(&s.next(0)), Some(0));
    assert_eq!(fwd(&s.next(0)), Some(0));
    assert_eq!(fwd(&s.next(0)), Some(1));
    assert!(matches!(s.next(0), Ok(None)));
    let p0: Point = Some((s.chain[0].slot, s.chain[0].hash.clone()));
    s.intersect(0, &p0); // skipped: no agency
    s.grow(1, 2);
    assert_eq!(fwd(&s.next(0)), Some(2), "S6 intersect skipped, server continues from its pointer");
    assert!(matches!(s.next(0), Ok(None)));
    assert!(s.next(0).is_err(), "S6 time-out while waiting for the reply");
    assert_eq!(back(&s.next(0)), Some(0));
    // versions bookkeeping
    assert!(s.versions.last().unwrap().len() == s.chain.len());
}
