//! Scenario configuration, event alphabet, executor with per-event invariants, generator.
use std::collections::{BTreeMap, BTreeSet};
use std::path::PathBuf;
use std::sync::{Arc, Mutex};

use serde::{Deserialize, Serialize};
use sim_core::scratch::Scratch;
use sim_core::{Fingerprint, Rng};

use crate::model::{ImportFaults, RANGE, Server, ServerState, range_start};
use crate::node::{Node, NodeCfg, Snapshot, hook, make_template, open_live};
use crate::oracle;

pub const MAX_BLOCKS: u64 = 420;

#[derive(Clone, Debug, Serialize, Deserialize, PartialEq)]
pub struct Config {
    pub nodes: Vec<NodeCfg>,
    pub first_number: u64,
    pub first_slot: u64,
    pub tx_weights: [u32; 4],
    /// chain-sync agency modelled (S6 of the server model)
    pub agency: bool,
    /// shadow executions only (never judged, see `observe_without_restart` in main.rs): a node
    /// whose import returned an error keeps running instead of being restarted
    #[serde(default)]
    pub shadow_no_restart_after_failure: bool,
    // --- harness-side neutralisation of known-finding triggers (true = neutralised) ---
    /// the root offered for signing is not judged at a partial beacon whose block range is
    /// already complete on the node
    pub neut_sign_depth: bool,
    /// import(t) with t <= highest stored block on a node whose stored blocks were rolled back is
    /// not judged against the canonical chain (the importer does not consult the chain then)
    #[serde(default = "yes")]
    pub neut_noop_on_stale: bool,
    /// a pruning node whose legacy roots are still missing while new roots are stored (import
    /// interrupted between the two) is not pruned before the legacy roots have caught up: its next
    /// import is not given a target below its highest stored block, explicit prunes are skipped
    #[serde(default = "yes")]
    pub neut_prune_before_legacy: bool,
    /// runs with pruning: smallest `keep` any pruner is given; forks are at most `keep - 14` deep
    /// (production: keep = k >= deepest possible roll-back). `None`: nobody prunes, forks unbounded
    #[serde(default)]
    pub prune_min_keep: Option<u64>,
}

fn yes() -> bool {
    true
}

#[derive(Clone, Debug, Serialize, Deserialize, PartialEq)]
#[serde(tag = "fault")]
pub enum Fault {
    /// the process dies at hooked DB statement `k` of the import (that and all later fail)
    DbCrash { k: u64 },
    /// hooked DB statement `k` of the import fails once
    DbTransient { k: u64 },
    /// the `k`-th chain-sync `next` of the import fails, connection lost
    ReaderErr { k: u64 },
}

#[derive(Clone, Debug, Serialize, Deserialize, PartialEq)]
pub struct MidFork {
    pub at_call: u64,
    pub depth: u64,
    pub new_len: u64,
    pub seed: u64,
}

#[derive(Clone, Debug, Serialize, Deserialize, PartialEq)]
#[serde(tag = "ev")]
pub enum Event {
    Grow { count: u64, seed: u64 },
    Fork { depth: u64, new_len: u64, seed: u64 },
    Import {
        node: usize,
        target: u64,
        #[serde(default, skip_serializing_if = "Option::is_none")]
        fault: Option<Fault>,
        #[serde(default, skip_serializing_if = "Option::is_none")]
        mid_fork: Option<MidFork>,
    },
    /// `compute_protocol_message(beacon)` of a real signable builder (imports, then offers a root)
    Sign { node: usize, beacon: u64, legacy: bool },
    /// the same on every node, roots compared
    SignAll { beacon: u64, legacy: bool },
    Restart { node: usize },
    Prune { node: usize, keep: u64 },
}

#[derive(Clone, Debug)]
pub struct Viol {
    pub clause: String,
    pub detail: String,
    pub at_event: usize,
}

#[derive(Clone, Copy, PartialEq)]
enum Via {
    Plain,
    Sign(bool),
}

pub struct World {
    pub cfg: Config,
    _scratch: Scratch,
    template: PathBuf,
    pub server: Server,
    pub nodes: Vec<Node>,
    pub snaps: Vec<Snapshot>,
    pub log: Vec<String>,
    pub counters: BTreeMap<String, u64>,
    pub states: BTreeSet<u64>,
    pub fp: Fingerprint,
    pub checked_imports: u64,
    pub faults_fired: u64,
    pub event_index: usize,
    ref_seq: u64,
}

fn viol(clause: &str, detail: String) -> Viol {
    Viol { clause: clause.to_string(), detail, at_event: 0 }
}

impl World {
    pub fn new(cfg: &Config) -> World {
        let scratch = Scratch::new("import");
        let template = scratch.path().join("template.sqlite3");
        make_template(&template).expect("template database");
        let n = cfg.nodes.len();
        // one extra connection slot for the fresh reference node
        let mut st = ServerState::new(cfg.first_number, cfg.first_slot, cfg.tx_weights, n + 1);
        st.agency = cfg.agency;
        st.max_fork_depth = cfg.prune_min_keep.map(|k| k.saturating_sub(14));
        st.max_blocks = MAX_BLOCKS;
        let server: Server = Arc::new(Mutex::new(st));
        let mut nodes = Vec::new();
        for (i, nc) in cfg.nodes.iter().enumerate() {
            let db = scratch.path().join(format!("node{i}.sqlite3"));
            std::fs::copy(&template, &db).expect("copy template");
            server.lock().unwrap().db_paths[i] = db.clone();
            let live = open_live(&db, nc, &server, i).expect("open node database");
            nodes.push(Node {
                db,
                cfg: nc.clone(),
                live: Some(live),
                stale: false,
                tmax: None,
                floor_allowed: 0,
                last_import_failed: false,
                last_target: None,
                last_statements: 0,
                last_reader_calls: 0,
            });
        }
        hook(); // install the statement hook (disarmed)
        World {
            cfg: cfg.clone(),
            _scratch: scratch,
            template,
            server,
            snaps: vec![Snapshot::default(); n],
            nodes,
            log: vec![],
            counters: BTreeMap::new(),
            states: BTreeSet::new(),
            fp: Fingerprint::new(),
            checked_imports: 0,
            faults_fired: 0,
            event_index: 0,
            ref_seq: 0,
        }
    }

    fn hit(&mut self, key: &str) {
        *self.counters.entry(key.to_string()).or_default() += 1;
    }

    pub fn tip(&self) -> Option<u64> {
        self.server.lock().unwrap().tip_number()
    }

    fn first_number(&self) -> u64 {
        self.cfg.first_number
    }

    fn restart(&mut self, n: usize) {
        self.nodes[n].live = None; // drops importer, scanner, reader, pool: every connection closed
        self.server.lock().unwrap().reset_conn(n);
        let live = open_live(&self.nodes[n].db, &self.nodes[n].cfg, &self.server, n).expect("reopen node database");
        self.nodes[n].live = Some(live);
        self.nodes[n].last_import_failed = false;
    }

    /// Invariants that hold after every event whatever happened (faults included).
    fn invariants(&self, n: usize, snap: &Snapshot) -> Result<(), Viol> {
        // contiguous block numbers
        for w in snap.blocks.windows(2) {
            if w[1].0 != w[0].0 + 1 {
                return Err(viol(
                    "block-gap",
                    format!("node {n}: stored block numbers jump from {} to {}", w[0].0, w[1].0),
                ));
            }
        }
        // never a mixture of two forks: all stored blocks belong to one version of the chain
        let s = self.server.lock().unwrap();
        let hashes: Vec<Vec<u8>> = snap.blocks.iter().map(|b| hex::decode(&b.2).unwrap_or_default()).collect();
        let ok = s.versions.iter().rev().any(|v| hashes.iter().all(|h| v.contains(h)));
        if !ok {
            let cur = s.versions.last().unwrap();
            let off: Vec<u64> =
                snap.blocks.iter().zip(&hashes).filter(|(_, h)| !cur.contains(*h)).map(|(b, _)| b.0).collect();
            let on: Vec<u64> =
                snap.blocks.iter().zip(&hashes).filter(|(_, h)| cur.contains(*h)).map(|(b, _)| b.0).collect();
            return Err(viol(
                "fork-mixture",
                format!(
                    "node {n}: stored blocks do not belong to any single version of the chain: {} blocks on the canonical chain (numbers {:?}..{:?}), {} blocks of abandoned branches (numbers {:?}..{:?})",
                    on.len(), on.first(), on.last(), off.len(), off.first(), off.last()
                ),
            ));
        }
        // every stored transaction belongs to a stored block
        let known: BTreeSet<&String> = snap.blocks.iter().map(|b| &b.2).collect();
        if let Some(t) = snap.txs.iter().find(|t| !known.contains(&t.1)) {
            return Err(viol("orphan-transaction", format!("node {n}: transaction {} refers to a block that is not stored", t.0)));
        }
        Ok(())
    }

    /// Fresh node, real code, fresh database: import the current canonical chain once up to `target`.
    fn reference(&mut self, n: usize, target: u64) -> Result<Snapshot, Viol> {
        self.ref_seq += 1;
        let slot = self.cfg.nodes.len();
        let db = self._scratch.path().join(format!("ref{}.sqlite3", self.ref_seq));
        std::fs::copy(&self.template, &db).expect("copy template");
        self.server.lock().unwrap().reset_conn(slot);
        let live = open_live(&db, &self.nodes[n].cfg, &self.server, slot).expect("open reference database");
        let saved_agency = {
            let mut s = self.server.lock().unwrap();
            s.begin_import(slot, target, ImportFaults::default());
            std::mem::replace(&mut s.agency, false)
        };
        let res = live.import(target);
        {
            let mut s = self.server.lock().unwrap();
            s.end_import();
            s.agency = saved_agency;
        }
        drop(live);
        let snap = Snapshot::read(&db);
        for ext in ["", "-wal", "-shm", "-journal"] {
            let _ = std::fs::remove_file(format!("{}{ext}", db.display()));
        }
        match res {
            Ok(()) => Ok(snap),
            Err(e) => Err(viol("fresh-import-failed", format!("a fresh node importing the canonical chain up to {target} failed: {e:#}"))),
        }
    }

    fn check_import(&mut self, n: usize, target: u64, before: &Snapshot, after: &Snapshot) -> Result<(), Viol> {
        let chain = self.server.lock().unwrap().chain.clone();
        let h_before = before.highest();
        let effective = h_before.is_none_or(|h| target > h);
        let first = chain.first().map(|b| b.number).unwrap_or(self.first_number());
        // pruning allowance
        if let Some(keep) = self.nodes[n].cfg.prune_keep
            && let Some(thr) = oracle::prune_threshold(after, keep)
        {
            let node = &mut self.nodes[n];
            node.floor_allowed = node.floor_allowed.max(thr);
        }
        if self.nodes[n].cfg.chunk.is_some() && target == 0 && h_before.is_none() {
            // ChainDataImporterByChunk treats an empty store as "imported up to block 0":
            // import(0) is a no-op, block number 0 arrives with the first target >= 1 (reported as
            // an observation, not judged: no beacon 0 exists in practice)
            self.hit("probe_chunked_import_of_target_zero");
            return Ok(());
        }
        let p_obs = after.lowest().unwrap_or(first);
        if p_obs > self.nodes[n].floor_allowed.max(first) {
            return Err(viol(
                "blocks-missing-below",
                format!(
                    "node {n}: lowest stored block is {p_obs} but nothing allowed the removal of blocks below {} (first block of the chain {first})",
                    self.nodes[n].floor_allowed
                ),
            ));
        }
        if effective {
            let want = oracle::expected(&chain, target, p_obs);
            if let Some((clause, detail)) = oracle::diff(after, &want, "") {
                return Err(viol(&clause, format!("node {n} after import({target}) [highest before: {h_before:?}]: {detail}")));
            }
            let fresh = self.reference(n, target)?;
            let floor = p_obs.max(fresh.lowest().unwrap_or(first));
            if let Some((clause, detail)) = oracle::diff(&oracle::above(after, floor), &oracle::above(&fresh, floor), "fresh-") {
                return Err(viol(&clause, format!("node {n} after import({target}) vs fresh node importing the canonical chain once (compared from block {floor}): {detail}")));
            }
            self.nodes[n].stale = false;
            self.hit("sim_imports_checked_effective");
        } else if !self.nodes[n].stale {
            let h = h_before.unwrap_or(0);
            let want = oracle::expected(&chain, h, p_obs);
            if after.blocks != want.blocks || after.txs != want.txs {
                let (clause, detail) = oracle::diff(
                    &Snapshot { roots: vec![], legacy_roots: vec![], ..after.clone() },
                    &Snapshot { roots: vec![], legacy_roots: vec![], ..want.clone() },
                    "noop-",
                )
                .unwrap();
                return Err(viol(&clause, format!("node {n} after import({target}) with highest stored block {h}: {detail}")));
            }
            // roots: at least those of a fresh import up to `target`, at most those of the highest stored block
            let upper = oracle::expected(&chain, h, p_obs);
            let lower = oracle::expected(&chain, target, p_obs);
            for (got, up, lo, what) in [
                (&after.roots, &upper.roots, &lower.roots, "noop-range-roots-differ"),
                (&after.legacy_roots, &upper.legacy_roots, &lower.legacy_roots, "noop-legacy-range-roots-differ"),
            ] {
                if let Some(r) = got.iter().find(|r| !up.contains(r)) {
                    return Err(viol(what, format!("node {n} after import({target}) (highest stored {h}): stored root {r:?} is not the root of that range of the canonical chain")));
                }
                if let Some(r) = lo.iter().find(|r| !got.contains(r)) {
                    return Err(viol(what, format!("node {n} after import({target}) (highest stored {h}): root {r:?} of a complete range at or below the target is missing")));
                }
            }
            self.hit("sim_imports_checked_noop");
        } else {
            self.hit("probe_noop_import_on_stale_node");
            if self.cfg.neut_noop_on_stale {
                self.hit("neutralised_noop_import_on_stale_node");
                return Ok(());
            }
            // judged by the statement: what the node holds up to the target must be canonical
            let want = oracle::expected(&chain, target, p_obs);
            let mut got = after.clone();
            got.blocks.retain(|b| b.0 <= target);
            let keep: BTreeSet<String> = got.blocks.iter().map(|b| b.2.clone()).collect();
            got.txs.retain(|t| keep.contains(&t.1));
            got.roots.retain(|r| r.1 - 1 <= target);
            got.legacy_roots.retain(|r| r.1 - 1 <= target);
            if let Some((clause, detail)) = oracle::diff(&got, &want, "stale-") {
                return Err(viol(&clause, format!("node {n} after import({target}) (highest stored {h_before:?}, blocks at or below the target were rolled back since): {detail}")));
            }
        }
        self.checked_imports += 1;
        Ok(())
    }

    /// One import on node `n` (plain or through a signable builder). Returns the root offered
    /// for signing when asked through a builder and judged comparable.
    fn do_import(
        &mut self,
        n: usize,
        target: u64,
        via: Via,
        fault: &Option<Fault>,
        mid_fork: &Option<MidFork>,
    ) -> Result<Option<String>, Viol> {
        let tip = self.tip();
        let mut target = target;
        if tip.is_none_or(|t| target > t) {
            self.hit("probe_target_above_tip");
        }
        // a signable builder is only asked where the model has a root to compare with
        let mut via = via;
        if let Via::Sign(legacy) = via {
            let chain = self.server.lock().unwrap().chain.clone();
            let aligned = (target + 1) % RANGE == 0;
            if (legacy && !aligned) || tip.is_none_or(|t| target > t) || oracle::sign_root(&chain, target, legacy).is_none() {
                via = Via::Plain;
            }
        }
        let before = Snapshot::read(&self.nodes[n].db);
        if self.legacy_roots_pending(n, &before) && before.highest().is_some_and(|h| target < h) {
            self.hit("probe_prune_while_legacy_roots_pending");
            if self.cfg.neut_prune_before_legacy {
                self.hit("neutralised_prune_while_legacy_roots_pending");
                target = before.highest().unwrap_or(target);
                via = Via::Plain;
            }
        }
        if let Via::Sign(false) = via {
            // known finding: partial beacon inside a block range the node has already completed
            let depth = before.highest().map_or(target, |h| h.max(target));
            if (target + 1) % RANGE != 0 && depth >= range_start(target) + RANGE - 1 {
                self.hit("probe_partial_beacon_in_complete_range");
                if self.cfg.neut_sign_depth {
                    self.hit("neutralised_partial_beacon_in_complete_range");
                    via = Via::Plain;
                }
            }
        }
        if matches!(via, Via::Sign(_))
            && self.nodes[n].stale
            && before.highest().is_some_and(|h| target <= h)
            && self.cfg.neut_noop_on_stale
        {
            // nothing would be judged (see `neut_noop_on_stale`): the node offers a root of the
            // abandoned branch, or fails to build one
            self.hit("probe_sign_on_stale_node");
            via = Via::Plain;
        }
        let (fail_at, crash, reader_err_at) = match fault {
            Some(Fault::DbCrash { k }) => (Some(*k), true, None),
            Some(Fault::DbTransient { k }) => (Some(*k), false, None),
            Some(Fault::ReaderErr { k }) => (None, false, Some(*k)),
            None => (None, false, None),
        };
        let stats_before = {
            let mut s = self.server.lock().unwrap();
            s.begin_import(
                n,
                target,
                ImportFaults {
                    reader_err_at,
                    mid_fork: mid_fork.as_ref().map(|m| (m.at_call, m.depth, m.new_len, m.seed)),
                },
            );
            s.stats.clone()
        };
        hook().arm(fail_at, crash);
        let live = self.nodes[n].live.as_ref().expect("node is live");
        let res: Result<Option<String>, anyhow::Error> = match via {
            Via::Plain => live.import(target).map(|_| None),
            Via::Sign(legacy) => live.sign(target, legacy).map(Some),
        };
        let (statements, db_fired) = hook().disarm();
        let (reader_calls, stats_after, forked_to) = {
            let mut s = self.server.lock().unwrap();
            let calls = s.calls;
            s.end_import();
            (calls, s.stats.clone(), s.chain.clone())
        };
        let _ = forked_to;
        self.nodes[n].last_statements = statements;
        self.nodes[n].last_reader_calls = reader_calls;
        self.nodes[n].last_target = Some(target);
        let reader_fired = stats_after.reader_errors_fired > stats_before.reader_errors_fired;
        let timeout_fired = stats_after.reader_timeouts > stats_before.reader_timeouts;
        let mid_fired = stats_after.mid_forks_fired > stats_before.mid_forks_fired;
        if db_fired {
            self.hit(if crash { "fault_db_crash" } else { "fault_db_transient" });
        }
        if reader_fired {
            self.hit("fault_reader_error");
        }
        if timeout_fired {
            self.hit("fault_reader_timeout_no_agency");
        }
        if stats_after.mid_forks_back_to_scan_start > stats_before.mid_forks_back_to_scan_start {
            self.hit("probe_fork_during_import_back_to_scan_start");
        }
        if mid_fired {
            self.hit("probe_fork_during_import");
            // a fork in the middle of the import affects every node like any fork (the importing
            // node too if it did not get to apply the roll-back)
            self.mark_stale_after_fork();
        }
        if db_fired || reader_fired || timeout_fired {
            self.faults_fired += 1;
        }
        if stats_after.rollbacks_delivered > stats_before.rollbacks_delivered {
            self.hit("probe_rollback_delivered_to_nonempty_store");
        }
        if stats_after.rollback_below_first_stored > stats_before.rollback_below_first_stored {
            // everything the node stores is above the roll-back point and must go away; the chain is
            // re-imported from that point
            self.hit("probe_rollback_below_first_stored_block");
        }
        if stats_after.intersect_not_found > stats_before.intersect_not_found {
            self.hit("probe_intersect_not_found");
        }
        if stats_after.intersect_skipped_no_agency > stats_before.intersect_skipped_no_agency {
            self.hit("probe_intersect_skipped_no_agency");
        }
        if db_fired && crash {
            // the process died: only the durable state survives
            self.restart(n);
        }
        let after = Snapshot::read(&self.nodes[n].db);
        self.snaps[n] = after.clone();
        let fault_tag = if db_fired && crash {
            "crash"
        } else if db_fired {
            "dberr"
        } else if reader_fired {
            "readererr"
        } else if timeout_fired {
            "timeout"
        } else {
            "-"
        };
        let h_before = before.highest();
        let eff = if h_before.is_none_or(|h| target > h) { "eff" } else if self.nodes[n].stale { "stale" } else { "noop" };
        self.invariants(n, &after)?;
        match res {
            Err(e) => {
                self.log.push(format!("import n{n} t{target} -> err [{fault_tag}] highest={:?}", after.highest()));
                self.fp.add(&format!("I{n}:err:{eff}:{fault_tag}:{}", mid_fired as u8));
                self.hit("sim_imports_failed");
                if !(db_fired || reader_fired || timeout_fired) {
                    return Err(viol(
                        "import-error-without-fault",
                        format!("node {n}: import({target}) failed although no fault was injected: {e:#}").replace('\n', " "),
                    ));
                }
                if !(db_fired && crash) {
                    // An import that fails and is retried by the same process is outside the
                    // property's histories: the failure is a process stop, the node is restarted
                    // (only the durable state survives). Shadow executions keep the process.
                    if self.cfg.shadow_no_restart_after_failure {
                        self.nodes[n].last_import_failed = true;
                    } else {
                        self.restart(n);
                        self.hit("sim_restarts_after_failed_import");
                    }
                }
                Ok(None)
            }
            Ok(root) => {
                self.log.push(format!(
                    "import n{n} t{target} -> ok [{fault_tag}] {eff} highest={:?} roots={} legacy={}",
                    after.highest(),
                    after.roots.len(),
                    after.legacy_roots.len()
                ));
                self.fp.add(&format!("I{n}:ok:{eff}:{fault_tag}:{}:{}", mid_fired as u8, matches!(via, Via::Sign(_)) as u8));
                self.hit("sim_imports_ok");
                self.nodes[n].last_import_failed = false;
                let was_stale = self.nodes[n].stale;
                self.check_import(n, target, &before, &after)?;
                let node = &mut self.nodes[n];
                node.tmax = Some(node.tmax.map_or(target, |t| t.max(target)));
                if was_stale && !node.stale {
                    self.hit("probe_converged_after_fork");
                }
                // the root offered for signing
                let Some(root) = root else { return Ok(None) };
                let Via::Sign(legacy) = via else { return Ok(None) };
                if self.nodes[n].stale {
                    self.hit("probe_sign_on_stale_node");
                    if self.cfg.neut_noop_on_stale {
                        return Ok(None);
                    }
                }
                let depth = after.highest().unwrap_or(0);
                let chain = self.server.lock().unwrap().chain.clone();
                let want = oracle::sign_root(&chain, target, legacy);
                self.hit("sim_sign_roots_checked");
                if want.as_deref() != Some(root.as_str()) {
                    return Err(viol(
                        "signable-root-differs-from-chain",
                        format!(
                            "node {n} (imported up to {depth}) offers root {root} for {} beacon {target}; the canonical chain up to the beacon gives {:?}",
                            if legacy { "CardanoTransactions" } else { "CardanoBlocksTransactions" },
                            want
                        ),
                    ));
                }
                Ok(Some(root))
            }
        }
    }

    /// A pruning node holds new block-range roots but no legacy root although the blocks it stores
    /// contain transactions in a complete range: the legacy importer has not run yet (interrupted
    /// import); pruning now would use the new roots alone as threshold.
    fn legacy_roots_pending(&self, n: usize, snap: &Snapshot) -> bool {
        if self.cfg.prune_min_keep.is_none() || !snap.legacy_roots.is_empty() || snap.roots.is_empty() {
            return false;
        }
        let numbers: BTreeMap<&String, u64> = snap.blocks.iter().map(|b| (&b.2, b.0)).collect();
        let _ = n;
        snap.txs.iter().any(|t| {
            numbers.get(&t.1).is_some_and(|num| snap.roots.iter().any(|r| r.0 <= *num && *num < r.1))
        })
    }

    fn mark_stale_after_fork(&mut self) {
        let versions_last = self.server.lock().unwrap().versions.last().cloned().unwrap_or_default();
        for n in 0..self.nodes.len() {
            let snap = Snapshot::read(&self.nodes[n].db);
            let affected = snap.blocks.iter().any(|b| !versions_last.contains(&hex::decode(&b.2).unwrap_or_default()));
            if affected {
                self.nodes[n].stale = true;
            }
            self.snaps[n] = snap;
        }
    }

    pub fn exec(&mut self, ev: &Event) -> Result<(), Viol> {
        match ev {
            Event::Grow { count, seed } => {
                let mut s = self.server.lock().unwrap();
                let room = MAX_BLOCKS.saturating_sub(s.chain.len() as u64);
                let count = (*count).min(room);
                if count > 0 {
                    s.grow(count, *seed);
                }
                let tip = s.tip_number();
                drop(s);
                self.log.push(format!("grow {count} -> tip {tip:?}"));
                self.fp.add("G");
                *self.counters.entry("sim_blocks".into()).or_default() += count;
                Ok(())
            }
            Event::Fork { depth, new_len, seed } => {
                let (fp, depth) = {
                    let mut s = self.server.lock().unwrap();
                    let (d, nl) = s.clamp_fork(*depth, *new_len);
                    if d == 0 {
                        drop(s);
                        self.log.push("fork skipped (outside envelope)".into());
                        return Ok(());
                    }
                    let fp = s.fork(*depth, *new_len, *seed);
                    *self.counters.entry("sim_blocks".into()).or_default() += nl;
                    (fp, d)
                };
                self.mark_stale_after_fork();
                self.log.push(format!("fork depth {depth} -> common block {fp:?}, tip {:?}", self.tip()));
                self.fp.add("F");
                self.hit("sim_forks");
                match fp {
                    None => self.hit("probe_fork_to_origin"),
                    Some(f) if (f + 1) % RANGE == 0 || f % RANGE == 0 => self.hit("probe_fork_at_range_boundary"),
                    _ => {}
                }
                Ok(())
            }
            Event::Import { node, target, fault, mid_fork } => {
                if *node >= self.nodes.len() {
                    return Ok(());
                }
                self.do_import(*node, *target, Via::Plain, fault, mid_fork).map(|_| ())
            }
            Event::Sign { node, beacon, legacy } => {
                if *node >= self.nodes.len() {
                    return Ok(());
                }
                self.do_import(*node, *beacon, Via::Sign(*legacy), &None, &None).map(|_| ())
            }
            Event::SignAll { beacon, legacy } => {
                let mut roots: Vec<(usize, String)> = vec![];
                for n in 0..self.nodes.len() {
                    if let Some(r) = self.do_import(n, *beacon, Via::Sign(*legacy), &None, &None)? {
                        roots.push((n, r));
                    }
                }
                if roots.len() >= 2 {
                    self.hit("sim_sign_roots_compared_between_nodes");
                    if roots.iter().any(|(_, r)| r != &roots[0].1) {
                        return Err(viol(
                            "signable-root-differs-between-nodes",
                            format!("beacon {beacon}: nodes offer different roots for signing: {roots:?}"),
                        ));
                    }
                }
                Ok(())
            }
            Event::Restart { node } => {
                if *node >= self.nodes.len() {
                    return Ok(());
                }
                self.restart(*node);
                let snap = Snapshot::read(&self.nodes[*node].db);
                self.invariants(*node, &snap)?;
                self.snaps[*node] = snap;
                self.log.push(format!("restart n{node}"));
                self.fp.add(&format!("R{node}"));
                self.hit("sim_restarts");
                Ok(())
            }
            Event::Prune { node, keep } => {
                if *node >= self.nodes.len() {
                    return Ok(());
                }
                let n = *node;
                if self.cfg.prune_min_keep.is_none_or(|k| *keep < k) {
                    self.log.push("prune skipped (outside envelope)".into());
                    return Ok(());
                }
                let before = Snapshot::read(&self.nodes[n].db);
                if self.legacy_roots_pending(n, &before) {
                    self.hit("probe_prune_while_legacy_roots_pending");
                    if self.cfg.neut_prune_before_legacy {
                        self.hit("neutralised_prune_while_legacy_roots_pending");
                        self.log.push("prune skipped (legacy roots pending)".into());
                        return Ok(());
                    }
                }
                let res = self.nodes[n].live.as_ref().expect("live").prune(*keep);
                let after = Snapshot::read(&self.nodes[n].db);
                self.snaps[n] = after.clone();
                if let Err(e) = res {
                    return Err(viol("prune-failed", format!("node {n}: prune({keep}) failed without fault: {e:#}")));
                }
                let thr = oracle::prune_threshold(&before, *keep);
                let mut want = before.clone();
                if let Some(thr) = thr {
                    want = oracle::above(&before, thr);
                    let node = &mut self.nodes[n];
                    node.floor_allowed = node.floor_allowed.max(thr);
                }
                if let Some((clause, detail)) = oracle::diff(&after, &want, "prune-") {
                    return Err(viol(&clause, format!("node {n} prune(keep={keep}) threshold {thr:?}: {detail}")));
                }
                self.invariants(n, &after)?;
                self.log.push(format!("prune n{n} keep {keep} thr {thr:?} lowest {:?}", after.lowest()));
                self.fp.add(&format!("P{n}"));
                self.hit("sim_prunes");
                if after.blocks.len() < before.blocks.len() {
                    self.hit("probe_prune_removed_blocks");
                }
                Ok(())
            }
        }
    }

    /// Abstract state: per node (position relative to tip, stale, pruned, last import failed, connection new).
    pub fn abstract_state(&self) -> u64 {
        let mut f = Fingerprint::new();
        let s = self.server.lock().unwrap();
        let tip = s.tip_number();
        f.add_u64(s.versions.len().min(4) as u64);
        for (n, node) in self.nodes.iter().enumerate() {
            let snap = &self.snaps[n];
            let pos = match (snap.highest(), tip) {
                (None, _) => 0,
                (Some(h), Some(t)) if h == t => 1,
                (Some(h), Some(t)) if h + RANGE > t => 2,
                _ => 3,
            };
            f.add_u64(pos);
            f.add_u64(node.stale as u64);
            f.add_u64((snap.lowest().unwrap_or(0) > s.first_number) as u64);
            f.add_u64(node.last_import_failed as u64);
            f.add_u64(s.conns[n].fresh as u64);
            f.add_u64(s.conns[n].must_reply as u64);
            f.add_u64(snap.highest().map(|h| (h + 1) % RANGE == 0).unwrap_or(false) as u64);
        }
        f.value()
    }
}

#[derive(Default)]
pub struct Outcome {
    pub violation: Option<Viol>,
    pub counters: BTreeMap<String, u64>,
    pub states: Vec<u64>,
    pub fingerprint: u64,
    pub digest: u64,
    pub log: Vec<String>,
    pub checked_imports: u64,
    pub faults_fired: u64,
    pub rollbacks: u64,
    /// (statements, reader calls) of the import-like event at index i
    pub import_costs: BTreeMap<usize, (u64, u64)>,
}

/// Execute a history, then (if `quiesce`) the quiescence phase: faults stopped, the chain grows a
/// little, every node imports up to the tip (at most 2 calls), equality must hold, and all nodes
/// must offer the same root at the tip. `next` yields the events: from a recorded trace (replay,
/// minimisation, attribution) or from the generator (which sees the state reached so far).
pub fn execute_with(
    cfg: &Config,
    mut next: impl FnMut(&World, usize) -> Option<Event>,
    quiesce: bool,
) -> (Vec<Event>, Outcome) {
    let mut w = World::new(cfg);
    let mut out = Outcome::default();
    let mut violation = None;
    let mut trace: Vec<Event> = vec![];
    loop {
        let i = trace.len();
        let Some(ev) = next(&w, i) else { break };
        w.event_index = i;
        let r = w.exec(&ev);
        if let Event::Import { node, .. } | Event::Sign { node, .. } = &ev
            && *node < w.nodes.len()
        {
            out.import_costs.insert(i, (w.nodes[*node].last_statements, w.nodes[*node].last_reader_calls));
        }
        trace.push(ev);
        if let Err(mut v) = r {
            v.at_event = i;
            violation = Some(v);
            break;
        }
        let st = w.abstract_state();
        w.states.insert(st);
    }
    if violation.is_none() && quiesce {
        violation = quiescence(&mut w, trace.len()).err();
    }
    // digest of the log and of the final durable states
    let mut d = Fingerprint::new();
    for l in &w.log {
        d.add(l);
    }
    for n in 0..w.nodes.len() {
        let s = Snapshot::read(&w.nodes[n].db);
        for b in &s.blocks {
            d.add_u64(b.0).add_u64(b.1).add(&b.2);
        }
        for t in &s.txs {
            d.add(&t.0).add(&t.1);
        }
        for r in s.roots.iter().chain(s.legacy_roots.iter()) {
            d.add_u64(r.0).add_u64(r.1).add(&r.2);
        }
    }
    if let Some(v) = &violation {
        d.add(&v.clause);
    }
    let stats = w.server.lock().unwrap().stats.clone();
    out.rollbacks = stats.rollbacks_delivered;
    out.violation = violation;
    out.counters = std::mem::take(&mut w.counters);
    out.states = w.states.iter().copied().collect();
    out.fingerprint = w.fp.value();
    out.digest = d.value();
    out.checked_imports = w.checked_imports;
    out.faults_fired = w.faults_fired;
    out.log = std::mem::take(&mut w.log);
    // close every database before the scratch directory goes away
    for n in w.nodes.iter_mut() {
        n.live = None;
    }
    (trace, out)
}

pub fn execute(cfg: &Config, trace: &[Event], quiesce: bool) -> Outcome {
    execute_with(cfg, |_, i| trace.get(i).cloned(), quiesce).1
}

fn quiescence(w: &mut World, at: usize) -> Result<(), Viol> {
    let fix = |mut v: Viol| {
        v.at_event = at;
        v
    };
    w.log.push("-- quiescence".into());
    // no fault from here on; new blocks arrive
    {
        // (not through `exec`: the cap on the chain length must not stop the chain here)
        let mut s = w.server.lock().unwrap();
        s.grow(3, 0x51e5ce);
        let tip = s.tip_number();
        drop(s);
        w.log.push(format!("grow 3 -> tip {tip:?}"));
    }
    let Some(tip) = w.tip() else { return Ok(()) };
    for n in 0..w.nodes.len() {
        let mut ok = false;
        for _attempt in 0..2 {
            let fails_before = w.counters.get("sim_imports_failed").copied().unwrap_or(0);
            w.do_import(n, tip, Via::Plain, &None, &None).map_err(fix)?;
            let fails_after = w.counters.get("sim_imports_failed").copied().unwrap_or(0);
            if fails_after == fails_before {
                ok = true;
                break;
            }
        }
        if !ok {
            return Err(fix(viol("liveness-import-failed", format!("node {n}: import(tip={tip}) did not succeed within 2 calls after faults stopped"))));
        }
        if w.nodes[n].stale {
            return Err(fix(viol("liveness-not-converged", format!("node {n}: still not following the canonical chain after import(tip={tip})"))));
        }
    }
    // all nodes offer the same roots at the tip
    w.exec(&Event::SignAll { beacon: tip, legacy: false }).map_err(fix)?;
    if tip >= RANGE {
        let aligned = tip / RANGE * RANGE - 1;
        w.exec(&Event::SignAll { beacon: aligned, legacy: true }).map_err(fix)?;
    }
    Ok(())
}

// ---------------------------------------------------------------------------------------------
// generation

#[derive(Clone, Debug)]
pub struct GenParams {
    pub steps: usize,
    pub p_db_crash: f64,
    pub p_db_transient: f64,
    pub p_reader_err: f64,
    pub p_mid_fork: f64,
    pub fault_free: bool,
}

pub fn gen_config(rng: &mut Rng) -> (Config, GenParams) {
    let two = rng.chance(0.65);
    let mut nodes = vec![];
    let prune_min_keep = if rng.chance(0.35) { Some(*rng.pick(&[15u64, 20, 30, 45, 60])) } else { None };
    for _ in 0..(if two { 2 } else { 1 }) {
        let prune_keep = match prune_min_keep {
            Some(k) if rng.chance(0.6) => Some(k + *rng.pick(&[0u64, 0, 15, 7])),
            _ => None,
        };
        nodes.push(NodeCfg {
            pool_size: if rng.chance(0.6) { 1 } else { 3 },
            wal: rng.chance(0.3),
            max_roll_forwards: *rng.pick(&[1usize, 2, 7, 100]),
            prune_keep,
            chunk: if rng.chance(0.2) { Some(*rng.pick(&[5u64, 15, 40])) } else { None },
        });
    }
    let fault_free = rng.chance(0.2);
    let tx_weights = *rng.pick(&[[3u32, 3, 2, 1], [1, 0, 0, 0], [12, 1, 0, 0], [1, 2, 2, 2], [30, 1, 1, 0]]);
    let cfg = Config {
        nodes,
        first_number: if rng.chance(0.5) { 0 } else { 1 },
        first_slot: if rng.chance(0.25) { 0 } else { rng.range(1, 60) },
        tx_weights,
        agency: !fault_free && rng.chance(0.25),
        shadow_no_restart_after_failure: false,
        neut_sign_depth: rng.chance(0.88),
        neut_noop_on_stale: rng.chance(0.9),
        neut_prune_before_legacy: rng.chance(0.85),
        prune_min_keep,
    };
    let mut cfg = cfg;
    // harness debugging only (never set by ./check): force knobs, e.g. SIM_IMPORT_FORCE=agency=1,neut_all=1
    if let Ok(force) = std::env::var("SIM_IMPORT_FORCE") {
        for kv in force.split(',') {
            match kv.trim() {
                "agency=1" => cfg.agency = true,
                "agency=0" => cfg.agency = false,
                "neut_all=1" => {
                    cfg.neut_sign_depth = true;
                    cfg.neut_noop_on_stale = true;
                    cfg.neut_prune_before_legacy = true;
                    for n in cfg.nodes.iter_mut() {
                        n.chunk = None;
                    }
                }
                "neut_all=0" => {
                    cfg.neut_sign_depth = false;
                    cfg.neut_noop_on_stale = false;
                    cfg.neut_prune_before_legacy = false;
                }
                _ => {}
            }
        }
    }
    let rate = |rng: &mut Rng, on: f64| if !fault_free && rng.chance(on) { rng.log_uniform(0.04, 0.35) } else { 0.0 };
    let params = GenParams {
        steps: rng.range(10, 30) as usize,
        p_db_crash: rate(rng, 0.6),
        p_db_transient: rate(rng, 0.6),
        p_reader_err: rate(rng, 0.5),
        p_mid_fork: if rng.chance(0.5) { rng.log_uniform(0.08, 0.4) } else { 0.0 },
        fault_free,
    };
    (cfg, params)
}

fn pick_fork(rng: &mut Rng, w: &World) -> (u64, u64) {
    let s = w.server.lock().unwrap();
    let len = s.chain.len() as u64;
    let first = s.first_number;
    let tip = s.tip_number().unwrap_or(0);
    drop(s);
    // depth from a fork point (number of the last common block); None = origin
    let depth_for = |fork_point: i64| -> u64 {
        let fp = fork_point.max(first as i64 - 1);
        (tip as i64 - fp).clamp(1, len as i64) as u64
    };
    let depth = match rng.weighted(&[30, 30, 22, 14, 4]) {
        0 => rng.range(1, 5).min(len),
        1 => {
            // a block-range boundary +-1
            let k = rng.range(0, tip / RANGE) as i64;
            depth_for(k * RANGE as i64 - 1 + rng.range(0, 2) as i64 - 1)
        }
        2 => {
            // relative to what a node stores
            let n = rng.index(w.nodes.len());
            let snap = &w.snaps[n];
            let anchor = if rng.chance(0.6) { snap.highest() } else { snap.lowest() };
            match anchor {
                Some(a) => depth_for(a as i64 + rng.range(0, 4) as i64 - 2),
                None => rng.range(1, len.max(1)),
            }
        }
        3 => rng.range(1, len.max(1)),
        _ => len,
    };
    let extra = match rng.weighted(&[15, 50, 35]) {
        0 => 0,
        1 => rng.range(1, 4),
        _ => rng.range(5, 25),
    };
    let mut depth = depth.max(1);
    if let Some(k) = w.cfg.prune_min_keep {
        let m = k.saturating_sub(14).max(1);
        if depth > m {
            depth = rng.range(1, m);
        }
    }
    (depth, depth + extra)
}

fn pick_target(rng: &mut Rng, w: &World, n: usize) -> u64 {
    let tip = w.tip().unwrap_or(0);
    let h = w.snaps[n].highest();
    match rng.weighted(&[24, 28, 16, 8, 8, 16]) {
        0 => tip,
        1 => {
            let lo = h.unwrap_or(0).min(tip);
            rng.range(lo, tip)
        }
        2 => {
            let k = rng.range(0, tip / RANGE + 1);
            (k * RANGE + rng.range(0, 2)).saturating_sub(2).min(tip + 3)
        }
        3 => w.nodes[n].last_target.unwrap_or(tip),
        4 => match h {
            Some(h) if h > 0 => rng.range(0, h),
            _ => tip,
        },
        _ => tip + rng.range(1, 40),
    }
}

fn pick_fault(rng: &mut Rng, p: &GenParams, w: &World, n: usize) -> Option<Fault> {
    let stm = w.nodes[n].last_statements.max(12);
    let calls = w.nodes[n].last_reader_calls.max(4);
    if p.p_db_crash > 0.0 && rng.chance(p.p_db_crash) {
        return Some(Fault::DbCrash { k: rng.below(stm * 3 / 2) });
    }
    if p.p_db_transient > 0.0 && rng.chance(p.p_db_transient) {
        return Some(Fault::DbTransient { k: rng.below(stm * 3 / 2) });
    }
    if p.p_reader_err > 0.0 && rng.chance(p.p_reader_err) {
        return Some(Fault::ReaderErr { k: rng.below(calls * 5 / 4) });
    }
    None
}

pub fn gen_event(rng: &mut Rng, p: &GenParams, w: &World) -> Event {
    let tip = w.tip();
    if tip.is_none() {
        return Event::Grow { count: rng.range(1, 40), seed: rng.next_u64() };
    }
    let tip = tip.unwrap();
    let nn = w.nodes.len();
    match rng.weighted(&[22, 15, 34, 8, if nn > 1 { 7 } else { 0 }, 9, 5]) {
        0 => {
            let count = if rng.chance(0.3) { rng.range(1, 3) } else { rng.range(1, 40) };
            Event::Grow { count, seed: rng.next_u64() }
        }
        1 => {
            let (depth, new_len) = pick_fork(rng, w);
            Event::Fork { depth, new_len, seed: rng.next_u64() }
        }
        2 => {
            let node = rng.index(nn);
            let target = pick_target(rng, w, node);
            let fault = pick_fault(rng, p, w, node);
            let mid_fork = if p.p_mid_fork > 0.0 && rng.chance(p.p_mid_fork) {
                let calls = w.nodes[node].last_reader_calls.max(6);
                let h = w.snaps[node].highest();
                let span = target.min(tip).saturating_sub(h.unwrap_or(0));
                if span >= 3 && rng.chance(0.55) {
                    // aimed: when call k is answered the read pointer is about k-1 blocks past the
                    // scan's start; fork a few blocks behind it so that the roll-back lands inside
                    // the streamer's buffer (or just before it)
                    let k = rng.range(2, span.min(60));
                    let back = rng.range(1, 4);
                    let pointer = h.map_or(w.cfg.first_number + k - 2, |h| h + k - 1);
                    let ancestor = pointer.saturating_sub(back);
                    let depth = tip.saturating_sub(ancestor).max(1);
                    Some(MidFork { at_call: k, depth, new_len: depth + rng.range(0, 6), seed: rng.next_u64() })
                } else {
                    let (depth, new_len) = pick_fork(rng, w);
                    Some(MidFork { at_call: rng.below(calls * 5 / 4), depth, new_len, seed: rng.next_u64() })
                }
            } else {
                None
            };
            Event::Import { node, target, fault, mid_fork }
        }
        3 | 4 => {
            let legacy = rng.chance(0.4);
            let all = nn > 1 && rng.chance(0.5);
            let mut beacon = match rng.weighted(&[35, 30, 15, 20]) {
                0 => tip,
                1 => rng.range(0, tip),
                2 => {
                    let h = w.snaps[rng.index(nn)].highest().unwrap_or(tip);
                    h.min(tip)
                }
                _ => {
                    // inside the last, still incomplete block range of a node: blocks beyond the
                    // beacon are stored but the range has no cached root yet
                    let h = w.snaps[rng.index(nn)].highest().unwrap_or(tip).min(tip);
                    let r0 = range_start(h);
                    if h > r0 { rng.range(r0, h - 1) } else { h }
                }
            };
            if legacy || rng.chance(0.3) {
                beacon = ((beacon + 1) / RANGE * RANGE).saturating_sub(1);
                if beacon < RANGE - 1 {
                    beacon = RANGE - 1;
                }
            }
            if all { Event::SignAll { beacon, legacy } } else { Event::Sign { node: rng.index(nn), beacon, legacy } }
        }
        5 => Event::Restart { node: rng.index(nn) },
        _ => match w.cfg.prune_min_keep {
            Some(k) => Event::Prune { node: rng.index(nn), keep: k + *rng.pick(&[0u64, 0, 15, 30]) },
            None => Event::Restart { node: rng.index(nn) },
        },
    }
}

/// Generate and execute a history in one pass (each event is drawn knowing the state reached).
pub fn generate_and_execute(rng: &mut Rng, cfg: &Config, p: &GenParams, quiesce: bool) -> (Vec<Event>, Outcome) {
    let first = Event::Grow { count: rng.range(5, 60), seed: rng.next_u64() };
    let steps = p.steps;
    execute_with(
        cfg,
        |w, i| {
            if i == 0 {
                Some(first.clone())
            } else if i < steps {
                Some(gen_event(rng, p, w))
            } else {
                None
            }
        },
        quiesce,
    )
}
