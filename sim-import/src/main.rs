//! E2 import-sim: the real chain importer (blocks / transactions importer, block-range importers,
//! pruning and chunking decorators), real block scanner + streamer, real SQLite repository on a
//! file-backed database and the real transaction signable builders, against a chain-sync server
//! model with forks. Serves C13.
mod model;
mod node;
mod oracle;
mod sim;

use std::sync::OnceLock;

use serde_json::{Value, json};
use sim_core::batch::{self, Engine, Plan, RunCtx, RunReport, Tier, Violation};
use sim_core::findings::Findings;
use sim_core::{Fingerprint, Rng};

use sim::{Config, Event, Fault, GenParams, Outcome};

pub const PROPERTY: &str = "C13";

/// Known-finding triggers and how the harness neutralises each of them (DESIGN.md section 5:
/// attribution is counterfactual — a violation is attributed to a finding only if the same trace
/// with that trigger neutralised shows no violation at all).
const FINDINGS: &[&str] = &[
    // narrow neutralisations first, the broad one (which changes what later events do) last
    "C13-signable-root-depends-on-import-depth",
    "C13-no-rescan-when-target-not-above-stored",
    "C13-prune-before-legacy-roots",
    "C13-chunked-import-skips-range-roots",
];

fn neutralise(cfg: &Config, finding: &str) -> Option<Config> {
    let mut c = cfg.clone();
    match finding {
        "C13-signable-root-depends-on-import-depth" if !cfg.neut_sign_depth => c.neut_sign_depth = true,
        "C13-no-rescan-when-target-not-above-stored" if !cfg.neut_noop_on_stale => c.neut_noop_on_stale = true,
        "C13-prune-before-legacy-roots" if !cfg.neut_prune_before_legacy => c.neut_prune_before_legacy = true,
        "C13-chunked-import-skips-range-roots" if cfg.nodes.iter().any(|n| n.chunk.is_some()) => {
            for n in c.nodes.iter_mut() {
                n.chunk = None;
            }
        }
        _ => return None,
    }
    Some(c)
}

/// Non-judged observation (never a violation, never a finding): what would have happened had the
/// nodes whose import returned an error kept running instead of being restarted (the importer's
/// in-memory `last_polled_point` and the chain-sync connection then survive the failed import and
/// can lag behind / run ahead of the store). Same trace, every known-finding trigger neutralised.
fn observe_without_restart(report: &mut RunReport, cfg: &Config, trace: &[Event]) {
    let mut c = cfg.clone();
    c.shadow_no_restart_after_failure = true;
    c.neut_sign_depth = true;
    c.neut_noop_on_stale = true;
    c.neut_prune_before_legacy = true;
    for n in c.nodes.iter_mut() {
        n.chunk = None;
    }
    let mut base = c.clone();
    base.shadow_no_restart_after_failure = false;
    report.hit("observation_stale_resume_point_shadow_runs");
    if sim::execute(&base, trace, true).violation.is_some() {
        return; // the restarted variant is not clean either: nothing to compare with
    }
    if let Some(v) = sim::execute(&c, trace, true).violation {
        report.hit("observation_stale_resume_point_diverged");
        report.hit(&format!("observation_stale_resume_point_{}", v.clause.replace('-', "_")));
    }
}

/// Execute the trace and attribute what it shows. A violation is attributed to a finding iff the
/// same trace with (only, in addition to those already attributed) that finding's trigger
/// neutralised no longer shows it: no violation at all, or the first violation is now a later one
/// (later event, or another clause at the same event). In the latter case that violation is
/// diagnosed in turn, with the neutralisation kept, so one run can show several findings; each
/// gets its own entry and every one of them must be attributed for the run to count as explained.
fn diagnose(cfg: &Config, trace: &[Event], first: Option<Outcome>) -> Vec<Violation> {
    let mut cur = cfg.clone();
    let mut out = first.unwrap_or_else(|| sim::execute(&cur, trace, true));
    let mut result: Vec<Violation> = vec![];
    for _round in 0..FINDINGS.len() + 1 {
        let Some(v) = out.violation.clone() else { break };
        let is_gone = |o: &Outcome| match &o.violation {
            None => true,
            Some(v2) => v2.at_event > v.at_event || (v2.at_event == v.at_event && v2.clause != v.clause),
        };
        let mut attributed: Option<(Vec<String>, Config, Outcome)> = None;
        for f in FINDINGS {
            let Some(c) = neutralise(&cur, f) else { continue };
            let o = sim::execute(&c, trace, true);
            if is_gone(&o) {
                attributed = Some((vec![f.to_string()], c, o));
                break;
            }
        }
        if attributed.is_none() {
            // two entangled triggers (neutralising one arms the other): try pairs
            'pairs: for (i, f) in FINDINGS.iter().enumerate() {
                let Some(c1) = neutralise(&cur, f) else { continue };
                for g in &FINDINGS[i + 1..] {
                    let Some(c2) = neutralise(&c1, g) else { continue };
                    let o = sim::execute(&c2, trace, true);
                    if is_gone(&o) {
                        attributed = Some((vec![f.to_string(), g.to_string()], c2, o));
                        break 'pairs;
                    }
                }
            }
        }
        match attributed {
            Some((fs, c, o)) => {
                for f in fs {
                    result.push(Violation {
                        property: PROPERTY.into(),
                        clause: v.clause.clone(),
                        detail: v.detail.clone(),
                        finding: Some(f),
                    });
                }
                cur = c;
                out = o;
            }
            None => {
                result.push(Violation { property: PROPERTY.into(), clause: v.clause, detail: v.detail, finding: None });
                break;
            }
        }
    }
    result
}

fn minimise(cfg: &Config, trace: &[Event], clause: &str) -> Vec<Event> {
    let fails = |cand: &[Event]| {
        sim::execute(cfg, cand, true).violation.is_some_and(|v| v.clause == clause)
    };
    let mut cur = sim_core::ddmin::ddmin(trace.to_vec(), fails, 160);
    // simplify: drop faults / mid-forks that are not needed
    for i in 0..cur.len() {
        if let Event::Import { node, target, fault, mid_fork } = cur[i].clone() {
            if fault.is_some() {
                let mut cand = cur.clone();
                cand[i] = Event::Import { node, target, fault: None, mid_fork: mid_fork.clone() };
                if fails(&cand) {
                    cur = cand;
                }
            }
            if let Event::Import { node, target, fault, mid_fork: Some(_) } = cur[i].clone() {
                let mut cand = cur.clone();
                cand[i] = Event::Import { node, target, fault, mid_fork: None };
                if fails(&cand) {
                    cur = cand;
                }
            }
        }
    }
    cur
}

struct ImportEngine;

fn is_enumeration_run(run: u64) -> bool {
    run % 25 == 24
}

fn fill_report(report: &mut RunReport, out: &Outcome) {
    for (k, v) in &out.counters {
        report.count(k, *v);
    }
    report.states = out.states.clone();
}

fn handle_violation(report: &mut RunReport, cfg: &Config, trace: &[Event], out: Outcome) {
    let Some(v) = out.violation.clone() else { return };
    let findings = Findings::load();
    let mut violations = diagnose(cfg, trace, Some(out));
    let all_known =
        violations.iter().all(|x| x.finding.as_deref().is_some_and(|id| findings.is_known(PROPERTY, id)));
    let mut final_trace = trace.to_vec();
    // minimisation is expensive (up to ~200 re-executions): a worker process minimises only the first
    // few violations it reports, the others keep their full trace (still replayable)
    static MINIMISED: std::sync::atomic::AtomicU64 = std::sync::atomic::AtomicU64::new(0);
    if !all_known && MINIMISED.fetch_add(1, std::sync::atomic::Ordering::SeqCst) < 3 {
        // something will be reported: minimise on the first violation, diagnose the minimised trace
        let min = minimise(cfg, trace, &v.clause);
        let vs = diagnose(cfg, &min, None);
        if vs.first().is_some_and(|x| x.clause == v.clause) {
            violations = vs;
            final_trace = min;
        }
    }
    report.violations.extend(violations);
    report.replay = Some(json!({"config": cfg, "trace": final_trace, "quiesce": true}));
}

impl ImportEngine {
    fn normal_run(&self, ctx: &RunCtx, rng: &mut Rng) -> RunReport {
        let mut report = RunReport::new(ctx.run);
        let (cfg, params) = sim::gen_config(rng);
        let (trace, out) = sim::generate_and_execute(rng, &cfg, &params, true);
        fill_report(&mut report, &out);
        let injecting = !params.fault_free
            && (params.p_db_crash > 0.0 || params.p_db_transient > 0.0 || params.p_reader_err > 0.0 || cfg.agency);
        report.nontrivial = out.checked_imports >= 1 && out.rollbacks >= 1 && (!injecting || out.faults_fired >= 1);
        report.fingerprint = out.fingerprint;
        report.digest = out.digest;
        report.hit(if injecting { "runs_fault_injecting" } else { "runs_fault_free" });
        if ctx.want_sample {
            report.sample = Some(json!({"run": ctx.run, "config": cfg, "trace": trace, "log": out.log}));
        }
        // shadow observation in a fifth of the clean runs in which an import failed without a crash
        let observe = rng.chance(0.2);
        let failed_imports = out.counters.get("sim_restarts_after_failed_import").copied().unwrap_or(0);
        if observe && failed_imports > 0 && out.violation.is_none() {
            observe_without_restart(&mut report, &cfg, &trace);
        }
        handle_violation(&mut report, &cfg, &trace, out);
        report
    }

    /// Fault enumeration: a short fault-free history, then every DB statement of one of its imports
    /// as a crash point (and as a transient error), and every chain-sync call as a reader error.
    fn enumeration_run(&self, ctx: &RunCtx, rng: &mut Rng) -> RunReport {
        let mut report = RunReport::new(ctx.run);
        let (mut cfg, mut params) = sim::gen_config(rng);
        cfg.agency = false;
        cfg.neut_sign_depth = true;
        cfg.neut_noop_on_stale = true;
        cfg.neut_prune_before_legacy = rng.chance(0.85);
        params = GenParams {
            steps: rng.range(6, 12) as usize,
            p_db_crash: 0.0,
            p_db_transient: 0.0,
            p_reader_err: 0.0,
            p_mid_fork: params.p_mid_fork,
            fault_free: true,
        };
        let (base_trace, base) = sim::generate_and_execute(rng, &cfg, &params, true);
        fill_report(&mut report, &base);
        report.hit("runs_fault_enumeration");
        let mut digest = Fingerprint::new();
        digest.add_u64(base.digest);
        let mut fp = Fingerprint::new();
        fp.add_u64(base.fingerprint).add("enum");
        if base.violation.is_some() {
            handle_violation(&mut report, &cfg, &base_trace, base);
            report.fingerprint = fp.value();
            report.digest = digest.value();
            return report;
        }
        // the import to attack: prefer one that came after a fork
        let mut candidates: Vec<usize> = base_trace
            .iter()
            .enumerate()
            .filter(|(i, e)| matches!(e, Event::Import { .. }) && base.import_costs.get(i).is_some_and(|c| c.0 > 0))
            .map(|(i, _)| i)
            .collect();
        let after_fork: Vec<usize> = candidates
            .iter()
            .copied()
            .filter(|i| base_trace[..*i].iter().any(|e| matches!(e, Event::Fork { .. })))
            .collect();
        if !after_fork.is_empty() && rng.chance(0.8) {
            candidates = after_fork;
        }
        // prefer imports that do real work (a no-op import has a handful of statements)
        let most = candidates.iter().map(|i| base.import_costs[i].0).max().unwrap_or(0);
        candidates.retain(|i| base.import_costs[i].0 * 3 >= most);
        let mut fired = 0u64;
        if !candidates.is_empty() {
            let j = *rng.pick(&candidates);
            let (stmts, calls) = base.import_costs[&j];
            let points = |n: u64, all_below: u64, sampled: u64| -> Vec<u64> {
                if n <= all_below + sampled {
                    (0..n).collect()
                } else {
                    let mut v: Vec<u64> = (0..all_below).collect();
                    for i in 0..sampled {
                        v.push(all_below + (n - all_below) * i / sampled);
                    }
                    v.dedup();
                    v
                }
            };
            let (full, sampled) = match ctx.tier {
                Tier::Quick => (16, 20),
                Tier::Thorough => (60, 60),
            };
            let mut variants: Vec<Fault> = vec![];
            for k in points(stmts, full, sampled) {
                variants.push(Fault::DbCrash { k });
            }
            for k in points(stmts, full / 2, sampled / 2) {
                variants.push(Fault::DbTransient { k });
            }
            for k in points(calls, full / 2, sampled / 2) {
                variants.push(Fault::ReaderErr { k });
            }
            for f in variants {
                let mut t = base_trace.clone();
                if let Event::Import { fault, .. } = &mut t[j] {
                    *fault = Some(f.clone());
                }
                let o = sim::execute(&cfg, &t, true);
                digest.add_u64(o.digest);
                fired += o.faults_fired;
                for (k, v) in &o.counters {
                    if k.starts_with("fault_") || k.starts_with("probe_") || k.starts_with("neutralised_") {
                        report.count(k, *v);
                    }
                }
                report.hit(match f {
                    Fault::DbCrash { .. } => "sim_crash_points_enumerated",
                    Fault::DbTransient { .. } => "sim_transient_points_enumerated",
                    Fault::ReaderErr { .. } => "sim_reader_error_points_enumerated",
                });
                report.states.extend(o.states.iter().copied());
                if o.violation.is_some() {
                    handle_violation(&mut report, &cfg, &t, o);
                    break;
                }
            }
        }
        report.states.sort_unstable();
        report.states.dedup();
        report.nontrivial = base.checked_imports >= 1 && fired >= 1;
        report.fingerprint = fp.value();
        report.digest = digest.value();
        if ctx.want_sample {
            report.sample = Some(json!({"run": ctx.run, "mode": "fault enumeration", "config": cfg, "trace": base_trace, "log": base.log}));
        }
        report
    }
}

impl Engine for ImportEngine {
    fn name(&self) -> &'static str {
        "import-sim"
    }

    fn plan(&self, property: &str, tier: Tier) -> Option<Plan> {
        if property != PROPERTY {
            return None;
        }
        Some(Plan {
            runs: match tier {
                Tier::Quick => 1600,
                Tier::Thorough => 50_000,
            },
            level: "exploration",
            rule: "one run = one seeded history of 10-30 events (grow / fork / import / sign / restart / prune, with DB crash, transient DB error, reader error and fork-during-import attached to imports) over 1-2 nodes plus a quiescence phase; a node whose import returned an error is restarted at once (the failure is a process stop); every 25th run is a fault-enumeration run (a short fault-free history, then every hooked DB statement of one of its imports tried as crash point and as transient error, every chain-sync call as reader error; large imports sampled). A run is non-trivial iff at least one successful import was checked against the oracle AND a roll-back was delivered to a node with a non-empty store AND, in fault-injecting configurations, at least one fault fired inside an import. distinct = distinct hash of the sequence of (event kind, node, outcome ok/err, scanning/no-op/stale, fault kind fired, fork during import). Counters observation_stale_resume_point_* are a non-judged shadow re-execution (same trace, failed nodes NOT restarted) of a fifth of the clean runs with a failed import.".into(),
            assumptions: vec![
                "the Cardano node behaves as the chain-sync model S1-S6 in src/model.rs (PallasChainReader itself is not executed)".into(),
                "a chain switch never goes to a shorter chain (the block number of the tip never decreases)".into(),
                "runs in which any node prunes: forks are at most keep-14 blocks deep (production: keep = k >= deepest roll-back); a pruned node cannot rebuild the root of a block range it no longer stores".into(),
                "a first block sitting at slot 0 is never replaced by a fork (ChainScannedBlocks::RollBackward(SlotNumber) cannot tell origin from slot 0)".into(),
                "legacy CardanoTransactions beacons are block-range aligned (15k-1), as produced by CardanoTransactionsSigningConfig::compute_block_number_to_be_signed".into(),
                "ChainDataImporterByChunk.import(0) on an empty store is a no-op (block number 0 arrives with the first target >= 1): observed and counted, not judged".into(),
                "an import that fails (transient DB error, reader error) is not retried by the same process: the harness restarts the node before anything else happens to it (the statement's histories contain process restarts and crash points, not in-process retries)".into(),
                "the triggers of the four known findings (REPORT.md) are neutralised in the harness in ~85-90 % of the runs each and left active in the others, where a violation must be attributed counterfactually or fails the check".into(),
                "durability below SQLite's commit is out of scope (a crash is a process death at a statement boundary)".into(),
            ],
            real_components: vec![
                "mithril-cardano-node-chain: CardanoChainDataImporter (BlocksTransactionsImporter, BlockRangeImporter incl. legacy), ChainDataImporterWithPruner, ChainDataImporterByChunk, CardanoBlockScanner, ChainReaderBlockStreamer".into(),
                "mithril-persistence: CardanoTransactionRepository + all its queries, migrations, ConnectionBuilder::open_file, SqliteConnectionPool, statement hook (cfg mithril_verif)".into(),
                "mithril-signer: SignerCardanoChainDataRepository and SignerChainDataImporter (the two adapter files, #[path]-compiled from the working tree)".into(),
                "mithril-common: CardanoTransactionsSignableBuilder, CardanoBlocksTransactionsSignableBuilder, BlockRange, MKTree / MKMap".into(),
            ],
            stub_components: vec![
                "Cardano node + PallasChainReader: chain-sync server model behind the ChainBlockReader trait (src/model.rs)".into(),
            ],
            worker_death_is_violation: false,
            time_cap_s: match tier {
                Tier::Quick => 900,
                Tier::Thorough => 14_400,
            },
        })
    }

    fn run(&self, ctx: &RunCtx) -> RunReport {
        static SELF_TEST: OnceLock<()> = OnceLock::new();
        SELF_TEST.get_or_init(model::self_test);
        let mut rng = Rng::for_run(ctx.seed, PROPERTY, ctx.run);
        if is_enumeration_run(ctx.run) { self.enumeration_run(ctx, &mut rng) } else { self.normal_run(ctx, &mut rng) }
    }

    fn replay(&self, doc: &Value) -> RunReport {
        let mut report = RunReport::new(0);
        let cfg: Config = match serde_json::from_value(doc["config"].clone()) {
            Ok(c) => c,
            Err(e) => {
                eprintln!("HARNESS-ERROR: bad config in replay file: {e}");
                std::process::exit(2)
            }
        };
        let trace: Vec<Event> = match serde_json::from_value(doc["trace"].clone()) {
            Ok(t) => t,
            Err(e) => {
                eprintln!("HARNESS-ERROR: bad trace in replay file: {e}");
                std::process::exit(2)
            }
        };
        let quiesce = doc["quiesce"].as_bool().unwrap_or(true);
        let out = sim::execute(&cfg, &trace, quiesce);
        for l in &out.log {
            eprintln!("  {l}");
        }
        report.digest = out.digest;
        report.fingerprint = out.fingerprint;
        if let Some(v) = &out.violation {
            eprintln!("  => [{}] at event {}: {}", v.clause, v.at_event, v.detail);
            report.violations = diagnose(&cfg, &trace, Some(out));
        }
        report
    }
}

fn main() {
    let args: Vec<String> = std::env::args().collect();
    if args.get(1).map(String::as_str) == Some("model-selftest") {
        model::self_test();
        println!("model self-test: ok");
        return;
    }
    // repo code panics on some SQLite errors inside the importer's blocking task (reported to the
    // caller as an error): keep those quiet; panics of the harness itself (main thread) are shown
    let default_hook = std::panic::take_hook();
    std::panic::set_hook(Box::new(move |info| {
        if std::thread::current().name() == Some("main") {
            default_hook(info);
        }
    }));
    batch::main(&ImportEngine)
}
