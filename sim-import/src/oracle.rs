//! Independent reference model of what a node must store and offer for signing, written from
//! the property statement: the canonical chain as a `Vec<Block>`, own block-range arithmetic,
//! the repository's Merkle tree / map *types* only as hash containers.
use std::collections::{BTreeMap, BTreeSet};

use mithril_common::crypto_helper::{MKMap, MKMapNode, MKTree, MKTreeNode, MKTreeStoreInMemory};
use mithril_common::entities::{
    BlockNumber, BlockRange, CardanoBlock, CardanoBlockTransactionMkTreeNode, CardanoTransaction, SlotNumber,
};

use crate::model::{Block, RANGE};
use crate::node::Snapshot;

/// `[start, start+15)` is complete at `upto` iff its last block number is `<= upto`.
pub fn complete_range_starts(upto: u64) -> impl Iterator<Item = u64> {
    let n = (upto + 1) / RANGE; // number of complete ranges
    (0..n).map(|k| k * RANGE)
}

fn new_root_of(blocks: &[&Block]) -> Option<String> {
    if blocks.is_empty() {
        return None;
    }
    let mut nodes: BTreeSet<CardanoBlockTransactionMkTreeNode> = BTreeSet::new();
    for b in blocks {
        nodes.insert(
            CardanoBlock::new(b.hash_hex(), BlockNumber(b.number), SlotNumber(b.slot)).into(),
        );
        for t in &b.txs {
            nodes.insert(
                CardanoTransaction::new(t.clone(), BlockNumber(b.number), SlotNumber(b.slot), b.hash_hex())
                    .into(),
            );
        }
    }
    let root = MKTree::<MKTreeStoreInMemory>::new_from_iter(nodes)
        .and_then(|t| t.compute_root())
        .expect("model merkle tree");
    Some(root.to_hex())
}

fn legacy_root_of(blocks: &[&Block]) -> Option<String> {
    let mut txs: Vec<(u64, &String)> = blocks.iter().flat_map(|b| b.txs.iter().map(|t| (b.number, t))).collect();
    if txs.is_empty() {
        return None;
    }
    txs.sort();
    let leaves: Vec<MKTreeNode> = txs.iter().map(|(_, t)| MKTreeNode::new(t.as_bytes().to_vec())).collect();
    let root = MKTree::<MKTreeStoreInMemory>::new_from_iter(leaves)
        .and_then(|t| t.compute_root())
        .expect("model merkle tree");
    Some(root.to_hex())
}

fn in_range<'a>(chain: &'a [Block], lo: u64, hi_excl: u64, upto: u64) -> Vec<&'a Block> {
    chain
        .iter()
        .filter(|b| b.number >= lo && b.number < hi_excl && b.number <= upto)
        .collect()
}

/// What a node that imported `chain` up to `upto` must hold (blocks restricted to `>= floor`).
pub fn expected(chain: &[Block], upto: u64, floor: u64) -> Snapshot {
    let mut snap = Snapshot::default();
    for b in chain.iter().filter(|b| b.number <= upto && b.number >= floor) {
        snap.blocks.push((b.number, b.slot, b.hash_hex()));
        for t in &b.txs {
            snap.txs.push((t.clone(), b.hash_hex()));
        }
    }
    snap.blocks.sort_by(|a, b| (a.0, &a.2).cmp(&(b.0, &b.2)));
    snap.txs.sort();
    // a range root exists only for a *complete* range: complete with respect to the blocks the
    // chain has up to the target (a target beyond the tip completes nothing)
    let Some(reached) = chain.iter().filter(|b| b.number <= upto).map(|b| b.number).max() else {
        return snap;
    };
    for start in complete_range_starts(reached.min(upto)) {
        let blocks = in_range(chain, start, start + RANGE, upto);
        if let Some(r) = new_root_of(&blocks) {
            snap.roots.push((start, start + RANGE, r));
        }
        if let Some(r) = legacy_root_of(&blocks) {
            snap.legacy_roots.push((start, start + RANGE, r));
        }
    }
    snap
}

fn map_root(entries: BTreeMap<u64, String>) -> Option<String> {
    if entries.is_empty() {
        return None;
    }
    let it = entries.into_iter().map(|(start, root)| {
        (
            BlockRange::from_block_number(BlockNumber(start)),
            MKMapNode::<BlockRange, MKTreeStoreInMemory>::TreeNode(MKTreeNode::from_hex(&root).expect("hex root")),
        )
    });
    let map: MKMap<BlockRange, MKMapNode<BlockRange, MKTreeStoreInMemory>, MKTreeStoreInMemory> =
        MKMap::new_from_iter(it).expect("model merkle map");
    map.compute_root().ok().map(|r| r.to_hex())
}

/// The Merkle root a node must offer for signing at `beacon`: a function of the canonical chain
/// up to the beacon only. `None` = nothing to sign (no data up to the beacon).
pub fn sign_root(chain: &[Block], beacon: u64, legacy: bool) -> Option<String> {
    let mut entries = BTreeMap::new();
    for start in complete_range_starts(beacon) {
        let blocks = in_range(chain, start, start + RANGE, beacon);
        let r = if legacy { legacy_root_of(&blocks) } else { new_root_of(&blocks) };
        if let Some(r) = r {
            entries.insert(start, r);
        }
    }
    if !legacy && (beacon + 1) % RANGE != 0 {
        let start = beacon / RANGE * RANGE;
        let blocks = in_range(chain, start, start + RANGE, beacon);
        if let Some(r) = new_root_of(&blocks) {
            entries.insert(start, r);
        }
    }
    map_root(entries)
}

fn first_diff<T: PartialEq + std::fmt::Debug>(got: &[T], want: &[T]) -> String {
    let n = got.len().min(want.len());
    for i in 0..n {
        if got[i] != want[i] {
            return format!("index {i}: stored {:?} expected {:?} (stored {} rows, expected {})", got[i], want[i], got.len(), want.len());
        }
    }
    if got.len() > want.len() {
        format!("{} extra stored rows, first {:?} (expected {} rows)", got.len() - want.len(), got[n], want.len())
    } else if want.len() > got.len() {
        format!("{} missing rows, first {:?} (stored {} rows)", want.len() - got.len(), want[n], got.len())
    } else {
        "equal".into()
    }
}

/// Compare a stored snapshot with an expectation; returns (clause, detail) of the first difference.
pub fn diff(got: &Snapshot, want: &Snapshot, what: &str) -> Option<(String, String)> {
    if got.blocks != want.blocks {
        return Some((format!("{what}blocks-differ"), first_diff(&got.blocks, &want.blocks)));
    }
    if got.txs != want.txs {
        return Some((format!("{what}transactions-differ"), first_diff(&got.txs, &want.txs)));
    }
    if got.roots != want.roots {
        return Some((format!("{what}range-roots-differ"), first_diff(&got.roots, &want.roots)));
    }
    if got.legacy_roots != want.legacy_roots {
        return Some((
            format!("{what}legacy-range-roots-differ"),
            first_diff(&got.legacy_roots, &want.legacy_roots),
        ));
    }
    None
}

/// Restrict the block / transaction part of a snapshot to block numbers `>= floor`.
pub fn above(s: &Snapshot, floor: u64) -> Snapshot {
    let mut out = s.clone();
    out.blocks.retain(|b| b.0 >= floor);
    let keep: BTreeSet<&String> = out.blocks.iter().map(|b| &b.2).collect();
    out.txs.retain(|t| keep.contains(&t.1));
    out
}

/// Prune threshold a correct pruner applies: `min(max start new, max start legacy) - keep`
/// (whichever exists when only one does).
pub fn prune_threshold(s: &Snapshot, keep: u64) -> Option<u64> {
    let a = s.roots.iter().map(|r| r.0).max();
    let b = s.legacy_roots.iter().map(|r| r.0).max();
    let h = match (a, b) {
        (Some(a), Some(b)) => Some(a.min(b)),
        (Some(a), None) => Some(a),
        (None, Some(b)) => Some(b),
        (None, None) => None,
    };
    h.map(|h| h.saturating_sub(keep))
}
