//! A simulated importer node: the repository's real import stack over a file-backed SQLite
//! database, wired exactly as `mithril-signer` wires it in production (same decorators, same
//! adapters — the two adapter files are compiled from the signer's source tree by `#[path]`).
use std::path::{Path, PathBuf};
use std::sync::atomic::{AtomicBool, AtomicI64, AtomicU64, Ordering};
use std::sync::{Arc, OnceLock};

use mithril_cardano_node_chain::chain_importer::{
    CardanoChainDataImporter, ChainDataImporter, ChainDataImporterByChunk, ChainDataImporterWithPruner,
};
use mithril_cardano_node_chain::chain_scanner::CardanoBlockScanner;
use mithril_common::StdResult;
use mithril_common::crypto_helper::MKTreeStoreInMemory;
use mithril_common::entities::{BlockNumber, BlockNumberOffset, ProtocolMessagePartKey};
use mithril_common::signable_builder::{
    CardanoBlocksTransactionsSignableBuilder, CardanoTransactionsSignableBuilder, SignableBuilder,
};
use mithril_persistence::database::cardano_transaction_migration::get_migrations;
use mithril_persistence::sqlite::{ConnectionBuilder, ConnectionOptions, SqliteConnectionPool};

use crate::model::{Server, SimChainReader};

#[allow(dead_code)]
#[path = "/repo/mithril-signer/src/database/repository/cardano_transaction_repository.rs"]
mod signer_repository;
#[allow(dead_code)]
#[path = "/repo/mithril-signer/src/services/chain_data/signer_importer.rs"]
mod signer_importer;

pub use signer_importer::SignerChainDataImporter;
pub use signer_repository::SignerCardanoChainDataRepository;

pub fn runtime() -> &'static tokio::runtime::Runtime {
    static RT: OnceLock<tokio::runtime::Runtime> = OnceLock::new();
    RT.get_or_init(|| {
        tokio::runtime::Builder::new_current_thread()
            .max_blocking_threads(2)
            .enable_time()
            .build()
            .expect("tokio runtime")
    })
}

fn logger() -> slog::Logger {
    slog::Logger::root(slog::Discard, slog::o!())
}

// ---------------------------------------------------------------------------------------------
// statement hook (H2)

pub struct Hook {
    armed: AtomicBool,
    count: AtomicU64,
    fail_at: AtomicI64,
    crash_mode: AtomicBool,
    crashed: AtomicBool,
    fired: AtomicBool,
}

pub fn hook() -> &'static Arc<Hook> {
    static HOOK: OnceLock<Arc<Hook>> = OnceLock::new();
    HOOK.get_or_init(|| {
        let h = Arc::new(Hook {
            armed: AtomicBool::new(false),
            count: AtomicU64::new(0),
            fail_at: AtomicI64::new(-1),
            crash_mode: AtomicBool::new(false),
            crashed: AtomicBool::new(false),
            fired: AtomicBool::new(false),
        });
        let h2 = h.clone();
        mithril_persistence::sqlite::verif_hook::set_statement_hook(Some(Arc::new(move |_sql: &str| {
            if !h2.armed.load(Ordering::SeqCst) {
                return Ok(());
            }
            let idx = h2.count.fetch_add(1, Ordering::SeqCst) as i64;
            if h2.crashed.load(Ordering::SeqCst) {
                return Err("sim: process is dead".to_string());
            }
            if h2.fail_at.load(Ordering::SeqCst) == idx {
                h2.fired.store(true, Ordering::SeqCst);
                if h2.crash_mode.load(Ordering::SeqCst) {
                    h2.crashed.store(true, Ordering::SeqCst);
                    return Err("sim: crash".to_string());
                }
                return Err("sim: disk I/O error".to_string());
            }
            Ok(())
        })));
        h
    })
}

impl Hook {
    /// Start counting statements; fail statement `fail_at` (0-based) if given.
    pub fn arm(&self, fail_at: Option<u64>, crash: bool) {
        self.count.store(0, Ordering::SeqCst);
        self.fail_at.store(fail_at.map(|k| k as i64).unwrap_or(-1), Ordering::SeqCst);
        self.crash_mode.store(crash, Ordering::SeqCst);
        self.crashed.store(false, Ordering::SeqCst);
        self.fired.store(false, Ordering::SeqCst);
        self.armed.store(true, Ordering::SeqCst);
    }
    /// Stop; returns (statements seen, fault fired).
    pub fn disarm(&self) -> (u64, bool) {
        self.armed.store(false, Ordering::SeqCst);
        (self.count.load(Ordering::SeqCst), self.fired.load(Ordering::SeqCst))
    }
}

// ---------------------------------------------------------------------------------------------

#[derive(Clone, Debug, serde::Serialize, serde::Deserialize, PartialEq)]
pub struct NodeCfg {
    pub pool_size: usize,
    pub wal: bool,
    pub max_roll_forwards: usize,
    pub prune_keep: Option<u64>,
    pub chunk: Option<u64>,
}

pub struct Live {
    #[allow(dead_code)]
    pub pool: Arc<SqliteConnectionPool>,
    pub repo: Arc<SignerCardanoChainDataRepository>,
    pub importer: Arc<dyn ChainDataImporter>,
    pub legacy_builder: CardanoTransactionsSignableBuilder<MKTreeStoreInMemory>,
    pub new_builder: CardanoBlocksTransactionsSignableBuilder<MKTreeStoreInMemory>,
}

/// Create an empty, fully migrated database file that fresh databases are copied from.
pub fn make_template(path: &Path) -> StdResult<()> {
    let c = ConnectionBuilder::open_file(path)
        .with_migrations(get_migrations())
        .with_options(&[ConnectionOptions::EnableForeignKeys])
        .build()?;
    drop(c);
    Ok(())
}

pub fn open_live(db: &Path, cfg: &NodeCfg, server: &Server, node: usize) -> StdResult<Live> {
    let mut options = vec![ConnectionOptions::EnableForeignKeys];
    if cfg.wal {
        options.push(ConnectionOptions::EnableWriteAheadLog);
    }
    let pool = Arc::new(
        ConnectionBuilder::open_file(db)
            .with_migrations(get_migrations())
            .with_options(&options)
            .build_pool(cfg.pool_size)?,
    );
    let repo = Arc::new(SignerCardanoChainDataRepository::new(pool.clone()));
    let reader = SimChainReader { server: server.clone(), node };
    let scanner = Arc::new(CardanoBlockScanner::new(
        Arc::new(tokio::sync::Mutex::new(reader)),
        cfg.max_roll_forwards,
        logger(),
    ));
    let base = Arc::new(CardanoChainDataImporter::new(scanner, repo.clone(), logger()));
    let with_pruner: Arc<dyn ChainDataImporter> = Arc::new(ChainDataImporterWithPruner::new(
        cfg.prune_keep.map(BlockNumber),
        repo.clone(),
        base,
        logger(),
    ));
    let importer: Arc<dyn ChainDataImporter> = match cfg.chunk {
        Some(c) => Arc::new(ChainDataImporterByChunk::new(
            repo.clone(),
            with_pruner,
            BlockNumber(c.max(1)),
            logger(),
        )),
        None => with_pruner,
    };
    let adapter = Arc::new(SignerChainDataImporter::new(importer.clone()));
    let legacy_builder =
        CardanoTransactionsSignableBuilder::<MKTreeStoreInMemory>::new(adapter.clone(), repo.clone());
    let new_builder =
        CardanoBlocksTransactionsSignableBuilder::<MKTreeStoreInMemory>::new(adapter, repo.clone());
    Ok(Live { pool, repo, importer, legacy_builder, new_builder })
}

impl Live {
    pub fn import(&self, target: u64) -> StdResult<()> {
        let importer = self.importer.clone();
        runtime().block_on(async move { importer.import(BlockNumber(target)).await })
    }

    /// `compute_protocol_message(beacon)` of the real signable builder: imports up to the beacon,
    /// then returns the Merkle root it offers for signing.
    pub fn sign(&self, beacon: u64, legacy: bool) -> StdResult<String> {
        runtime().block_on(async {
            if legacy {
                let m = self.legacy_builder.compute_protocol_message(BlockNumber(beacon)).await?;
                m.get_message_part(&ProtocolMessagePartKey::CardanoTransactionsMerkleRoot)
                    .cloned()
                    .ok_or_else(|| anyhow::anyhow!("no merkle root in protocol message"))
            } else {
                let m = self
                    .new_builder
                    .compute_protocol_message((BlockNumber(beacon), BlockNumberOffset(0)))
                    .await?;
                m.get_message_part(&ProtocolMessagePartKey::CardanoBlocksTransactionsMerkleRoot)
                    .cloned()
                    .ok_or_else(|| anyhow::anyhow!("no merkle root in protocol message"))
            }
        })
    }

    pub fn prune(&self, keep: u64) -> StdResult<()> {
        runtime().block_on(async { self.repo.prune_transaction(BlockNumber(keep)).await })
    }
}

// ---------------------------------------------------------------------------------------------
// observation of the durable state: plain SQL on a separate connection (not through the
// repository under test, not through the statement hook)

#[derive(Clone, Debug, Default, PartialEq, Eq)]
pub struct Snapshot {
    /// (number, slot, hash) ordered by number, hash
    pub blocks: Vec<(u64, u64, String)>,
    /// (transaction hash, block hash) ordered by transaction hash
    pub txs: Vec<(String, String)>,
    /// (start, end, root) ordered by start, end
    pub roots: Vec<(u64, u64, String)>,
    pub legacy_roots: Vec<(u64, u64, String)>,
}

impl Snapshot {
    pub fn read(db: &Path) -> Snapshot {
        let conn = sqlite::Connection::open(db).expect("open db for observation");
        let mut snap = Snapshot::default();
        let mut st = conn
            .prepare("select block_number, slot_number, block_hash from cardano_block order by block_number, block_hash")
            .expect("prepare");
        while let Ok(sqlite::State::Row) = st.next() {
            snap.blocks.push((
                st.read::<i64, _>(0).unwrap() as u64,
                st.read::<i64, _>(1).unwrap() as u64,
                st.read::<String, _>(2).unwrap(),
            ));
        }
        let mut st = conn
            .prepare("select transaction_hash, block_hash from cardano_tx order by transaction_hash")
            .expect("prepare");
        while let Ok(sqlite::State::Row) = st.next() {
            snap.txs.push((st.read::<String, _>(0).unwrap(), st.read::<String, _>(1).unwrap()));
        }
        for (table, legacy) in [("block_range_root", false), ("block_range_root_legacy", true)] {
            let mut st = conn
                .prepare(format!("select start, end, merkle_root from {table} order by start, end"))
                .expect("prepare");
            while let Ok(sqlite::State::Row) = st.next() {
                let row = (
                    st.read::<i64, _>(0).unwrap() as u64,
                    st.read::<i64, _>(1).unwrap() as u64,
                    st.read::<String, _>(2).unwrap(),
                );
                if legacy { snap.legacy_roots.push(row) } else { snap.roots.push(row) }
            }
        }
        snap
    }

    pub fn highest(&self) -> Option<u64> {
        self.blocks.iter().map(|b| b.0).max()
    }

    pub fn lowest(&self) -> Option<u64> {
        self.blocks.iter().map(|b| b.0).min()
    }
}

pub struct Node {
    pub db: PathBuf,
    pub cfg: NodeCfg,
    pub live: Option<Live>,
    // harness bookkeeping (not visible to the code under test)
    /// a fork removed blocks this node stores and no scanning import succeeded since
    pub stale: bool,
    /// highest target of a successful import
    pub tmax: Option<u64>,
    /// highest prune threshold a correct pruner was ever allowed to apply
    pub floor_allowed: u64,
    pub last_import_failed: bool,
    pub last_target: Option<u64>,
    pub last_statements: u64,
    pub last_reader_calls: u64,
}
