//! The simulated world: one global chain, the real aggregator node, the parties, the network
//! of in-flight messages, and the execution of concrete events.
use std::collections::BTreeMap;
use std::sync::{Arc, Mutex};

use mithril_common::entities::{
    ProtocolMessage, ProtocolParameters, SignedEntityTypeDiscriminants, SignerWithStake,
};
use mithril_common::messages::{EpochSettingsMessage, RegisterSignatureMessageHttp, SignerMessagePart};
use mithril_common::protocol::ToMessage;
use serde::{Deserialize, Serialize};
use sim_core::scratch::Scratch;

use crate::agg::{AggSettings, AggregatorNode};
use crate::chain::ChainView;
use crate::db::{Db, Entity};
use crate::parties::{EpochKey, Party};
use crate::signer::{LinkPolicy, LinkShared, SignerNode};

#[derive(Serialize, Deserialize, Clone, Debug, Default, PartialEq)]
pub struct Faults {
    /// probability weights (0 = kind disabled in this run)
    pub drop: f64,
    pub dup: f64,
    pub corrupt: f64,
    pub restart: f64,
    pub expire: f64,
    pub lag: f64,
    pub epoch_jump: f64,
    pub partial_registration: f64,
    pub reregister: f64,
    pub early_sign: f64,
    pub stale_delivery: f64,
    pub adversary: f64,
    pub chain_down: f64,
    /// operator restarts with another genesis verification key (no new genesis certificate)
    #[serde(default)]
    pub rotate_genesis: f64,
    /// a lagging node learns of the chain's progress in the middle of a cycle
    #[serde(default)]
    pub mid_cycle: f64,
    /// share of signature deliveries that travel through the message queue (DMQ) path
    #[serde(default)]
    pub dmq: f64,
    /// operator restarts the aggregator with other protocol parameters in its configuration
    #[serde(default)]
    pub reconfig: f64,
}

impl Faults {
    pub fn any(&self) -> bool {
        self.drop + self.dup + self.corrupt + self.restart + self.expire + self.lag + self.epoch_jump
            + self.partial_registration + self.reregister + self.early_sign + self.stale_delivery
            + self.adversary + self.chain_down + self.reconfig > 0.0
    }
}

#[derive(Serialize, Deserialize, Clone, Debug, PartialEq)]
pub struct Scenario {
    pub property: String,
    pub seed: u64,
    pub run: u64,
    pub n_parties: usize,
    pub k: u64,
    pub m: u64,
    pub phi_f: f64,
    pub entity_types: Vec<String>,
    pub start_epoch: u64,
    pub stake_profile: String,
    pub stakes_change: bool,
    pub steps: usize,
    pub epochs: u64,
    pub faults: Faults,
}

impl Scenario {
    pub fn parameters(&self) -> ProtocolParameters {
        ProtocolParameters { k: self.k, m: self.m, phi_f: self.phi_f }
    }
}

#[derive(Serialize, Deserialize, Clone, Debug, PartialEq)]
pub enum Damage {
    /// flip one bit of the hex signature at this nibble offset (mod length)
    SigBit(usize),
    /// drop the last claimed lottery index
    DropIndex,
    /// add a lottery index the signer did not win
    AddIndex(u64),
    /// truncate the JSON body at this offset (mod length)
    Truncate(usize),
    /// flip one bit of the JSON body
    BodyBit(usize),
    /// legal re-encoding: the signature claims only a subset of the indexes it won (the index
    /// list embedded in the signature bytes is rewritten, the signature stays valid)
    SubsetIndexes(u64),
    /// legal-looking re-encoding: some of the won indexes are listed twice in the index list
    /// embedded in the signature bytes (every listed index is a real win: the signature verifies)
    RepeatIndexes(u64),
}

#[derive(Serialize, Deserialize, Clone, Debug, PartialEq)]
pub enum ForgeKind {
    /// a copy of message `from` (signed by another party) re-submitted under `as_party`'s name
    CopyUnderName,
    /// same, keeping only a subset of the claimed indexes
    CopyUnderNameSubset,
    /// `as_party`'s name put on its own signature is the honest case; here the adversary puts an
    /// unregistered name on a copied signature
    CopyUnderUnknownName,
}

#[derive(Serialize, Deserialize, Clone, Debug, PartialEq)]
#[serde(tag = "e")]
pub enum Event {
    Tick,
    Background { polls: u32 },
    Epoch { by: u64 },
    Immutable,
    SyncView,
    ChainDown { down: bool },
    Register { id: u32, party: usize, new_key: bool },
    Sign { id: u32, party: usize, early: bool },
    /// a registered party signs the open message with the key (and against the registration)
    /// it holds for the *next* signing epoch — material the aggregator also knows
    SignWithNextKey { id: u32, party: usize },
    Deliver { id: u32, keep: bool, damage: Option<Damage> },
    /// the signature message reaches the aggregator through the message queue instead of HTTP:
    /// payload = (signature, signed entity type), envelope identity = the party named on it
    DeliverDmq { id: u32, keep: bool },
    /// several signature messages arrive in one answer of the DMQ node; at the positions in
    /// `junk_at` (of the resulting batch) it also carries a message of another registered pool for
    /// a beacon this aggregator has no round for (what a pool far ahead, or a confused one, sends).
    /// Messages of an *unknown* signed entity type are not injected: the repository's wire decoder
    /// (`RegisterSignatureMessageDmq::try_from_bytes`) never yields one, only a hand-written
    /// consumer double can
    DeliverDmqBatch { ids: Vec<u32>, junk_at: Vec<usize> },
    Drop { id: u32 },
    Expire,
    Restart,
    /// operator action: restart with these protocol parameters in the configuration file
    Reconfigure { k: u64, m: u64, phi_f: f64 },
    /// operator error: restart with another genesis verification key in the configuration (the
    /// key published to clients from now on) without bootstrapping a new genesis certificate
    RotateGenesisKey,
    Genesis,
    Forge { id: u32, from: u32, kind: ForgeKind, as_party: usize },
    /// C15: the aggregator's next DB statement number `statement` (counted from this event on)
    /// fails; `crash` = every later statement fails too and the node is restarted right after
    /// the event during which it fired
    ArmDbFault { statement: u64, crash: bool },
    /// C20: one cycle of a real signer node's state machine under a link policy
    SignerTick { party: usize, policy: LinkPolicy },
    SignerRestart { party: usize },
    /// the signer's view of the chain catches up
    SignerSyncView { party: usize },
    /// the chain change the aggregator has not seen yet will reach it *inside* one of its next
    /// cycles: after `reads` more reads of its cardano node
    MidCycleSync { reads: u32 },
    /// same for a signer node
    SignerMidCycleSync { party: usize, reads: u32 },
    /// marker: faults have stopped and the quiescence script has run; the oracle evaluates the
    /// bounded-liveness verdict here
    CheckLiveness,
}

impl Event {
    pub fn kind(&self) -> &'static str {
        match self {
            Event::Tick => "tick",
            Event::Background { .. } => "background",
            Event::Epoch { by } => {
                if *by > 1 {
                    "epoch-jump"
                } else {
                    "epoch"
                }
            }
            Event::Immutable => "immutable",
            Event::SyncView => "sync-view",
            Event::ChainDown { .. } => "chain-down",
            Event::Register { .. } => "register",
            Event::SignWithNextKey { .. } => "sign-with-next-epoch-key",
            Event::Sign { early, .. } => {
                if *early {
                    "sign-early"
                } else {
                    "sign"
                }
            }
            Event::Deliver { keep, damage, .. } => match (keep, damage) {
                (_, Some(_)) => "deliver-damaged",
                (true, None) => "deliver-dup",
                (false, None) => "deliver",
            },
            Event::Drop { .. } => "drop",
            Event::Expire => "expire",
            Event::DeliverDmq { .. } => "deliver-dmq",
            Event::DeliverDmqBatch { .. } => "deliver-dmq-batch",
            Event::Restart => "restart",
            Event::Reconfigure { .. } => "reconfigure",
            Event::RotateGenesisKey => "rotate-genesis-key",
            Event::Genesis => "genesis",
            Event::Forge { .. } => "forge",
            Event::ArmDbFault { crash, .. } => {
                if *crash {
                    "arm-crash"
                } else {
                    "arm-db-error"
                }
            }
            Event::CheckLiveness => "check-liveness",
            Event::SignerTick { policy, .. } => {
                if policy.unreachable {
                    "signer-tick-unreachable"
                } else if policy.stale_epoch_settings > 0 {
                    "signer-tick-stale-settings"
                } else if policy.registration > 0 || policy.signature > 0 {
                    "signer-tick-link-fault"
                } else {
                    "signer-tick"
                }
            }
            Event::SignerRestart { .. } => "signer-restart",
            Event::SignerSyncView { .. } => "signer-sync-view",
            Event::MidCycleSync { .. } => "mid-cycle-sync",
            Event::SignerMidCycleSync { .. } => "signer-mid-cycle-sync",
        }
    }
}

#[derive(Clone, Debug)]
pub enum MsgKind {
    Registration { party: usize, recording_epoch: u64, key_index: usize },
    Signature {
        entity: Entity,
        /// who really produced the signature
        producer: usize,
        producer_recording_epoch: u64,
        /// the party id written on the message
        claimed: String,
        indexes: Vec<u64>,
        signature_hex: String,
        signed_message: String,
        forged: Option<ForgeKind>,
    },
}

#[derive(Clone, Debug)]
pub struct Msg {
    pub id: u32,
    pub kind: MsgKind,
    pub body: String,
    pub created_step: usize,
    pub created_epoch: u64,
    pub deliveries: u32,
}

/// What happened when a message reached the aggregator.
#[derive(Clone, Debug)]
pub struct Delivery {
    pub step: usize,
    pub msg: Msg,
    pub damaged: bool,
    pub status: u16,
    pub response: String,
    /// body as delivered (after damage)
    pub body: String,
    pub agg_epoch_view: u64,
    /// for an acknowledged registration: the epoch the aggregator's epoch service worked in right
    /// after the delivery (its `/epoch-settings`), i.e. the registration round then open is the
    /// one recording for this epoch + 1
    pub agg_service_epoch: Option<u64>,
    /// delivered in a message-queue batch that also carried messages of other pools with an
    /// unknown signed entity type
    pub batch_junk: bool,
}

#[derive(Clone, Debug, Default)]
pub struct Applied {
    pub enabled: bool,
    pub note: String,
}

pub struct World {
    pub sc: Scenario,
    pub scratch: Scratch,
    pub step: usize,
    // global chain
    pub epoch: u64,
    pub immutable: u64,
    pub block: u64,
    pub agg: AggregatorNode,
    pub agg_view: Arc<Mutex<ChainView>>,
    pub parties: Vec<Party>,
    /// every key a party generated: (party, recording epoch) -> keys in generation order
    pub keys: BTreeMap<(usize, u64), Vec<EpochKey>>,
    pub inflight: BTreeMap<u32, Msg>,
    pub deliveries: Vec<Delivery>,
    pub genesis_done: bool,
    pub counters: BTreeMap<String, u64>,
    /// last tick outcome (label, error)
    pub last_tick: (String, Option<String>),
    pub tick_log: Vec<(usize, String, Option<String>)>,
    pub restarts_at: Vec<usize>,
    /// (party, entity) pairs already signed (light signers sign an open message once)
    pub signed: BTreeMap<(usize, Entity), u32>,
    pub registered_sent: BTreeMap<(usize, u64), u32>,
    pub db_fault: Arc<Mutex<DbFaultState>>,
    pub crashes_at: Vec<usize>,
    /// write statements issued by the aggregator during each applied event (when recording)
    pub statements_by_step: Vec<(usize, Vec<String>)>,
    pub liveness_requested: bool,
    /// number of `CheckLiveness` markers seen (= quiescence phases completed)
    pub liveness_markers: usize,
    pub db_faults_counted: usize,
    /// (party, entity) pairs for which the party won no lottery
    pub lost_lotteries: std::collections::BTreeSet<(usize, Entity)>,
    /// C20: real signer nodes (empty when signers are light actors)
    pub signers: Vec<SignerNode>,
    pub link: std::sync::Arc<LinkShared>,
    pub signer_ticks: Vec<(usize, usize, String, Option<String>)>,
    pub quiescence_register_attempts: BTreeMap<(usize, u64), u32>,
    /// protocol parameters the (light) signers learned from the aggregator's
    /// `/protocol-configuration/{epoch}` route, by epoch-settings index
    pub learned_params: BTreeMap<u64, ProtocolParameters>,
}

/// State of the statement-level fault hook (C15).
#[derive(Default, Debug)]
pub struct DbFaultState {
    pub armed: Option<(u64, bool)>,
    pub seen: u64,
    pub crashed: bool,
    pub fired: Vec<String>,
    /// write statements seen (normalised label), recorded when `record` is set
    pub record: bool,
    pub log: Vec<String>,
}

pub fn normalise_sql(sql: &str) -> String {
    let s = sql.split_whitespace().collect::<Vec<_>>().join(" ").to_lowercase();
    let mut words = s.split(' ');
    let verb = words.next().unwrap_or("");
    let table = match verb {
        "insert" => s.split(" into ").nth(1).and_then(|r| r.split([' ', '(']).next()).unwrap_or(""),
        "update" => s.split(' ').nth(1).unwrap_or(""),
        "delete" => s.split(" from ").nth(1).and_then(|r| r.split(' ').next()).unwrap_or(""),
        "begin" | "commit" => "transaction",
        _ => "",
    };
    let verb = if s.starts_with("insert or replace") || s.starts_with("insert or ignore") || s.contains(" on conflict") {
        "upsert"
    } else {
        verb
    };
    format!("{verb} {table}")
}

pub fn is_write(sql: &str) -> bool {
    let s = sql.trim_start().to_lowercase();
    s.starts_with("insert") || s.starts_with("update") || s.starts_with("delete") || s.starts_with("commit")
        || s.starts_with("begin")
}

pub fn stake_for(sc: &Scenario, party: usize, recording_epoch: u64) -> u64 {
    let base = match sc.stake_profile.as_str() {
        "uniform" => 1000,
        "geometric" => 200u64 << (party.min(10) as u32),
        "whale" => {
            if party == 0 {
                50_000
            } else {
                500 + 10 * party as u64
            }
        }
        // one party with next to nothing
        _ => {
            if party == sc.n_parties - 1 {
                1
            } else {
                1000 + 100 * party as u64
            }
        }
    };
    if sc.stakes_change {
        // every epoch has a distinct stake distribution (hence distinct key sets / AVKs)
        base + (recording_epoch * 7 + party as u64 * 3) % 97
    } else {
        base
    }
}

impl World {
    pub fn new(sc: Scenario) -> World {
        let scratch = Scratch::new("net");
        let parties = crate::parties::make_parties(sc.n_parties);
        let epoch = sc.start_epoch;
        let mut w_stakes = BTreeMap::new();
        for (i, p) in parties.iter().enumerate() {
            w_stakes.insert(p.party_id.clone(), stake_for(&sc, i, epoch + 1));
        }
        let view = Arc::new(Mutex::new(ChainView { epoch, immutable: 1, block: 100, stakes: w_stakes, down: false, pending: None }));
        let entity_types = sc
            .entity_types
            .iter()
            .map(|t| match t.as_str() {
                "CSD" => SignedEntityTypeDiscriminants::CardanoStakeDistribution,
                "CDB" => SignedEntityTypeDiscriminants::CardanoDatabase,
                "CTX" => SignedEntityTypeDiscriminants::CardanoTransactions,
                "CBTX" => SignedEntityTypeDiscriminants::CardanoBlocksTransactions,
                other => panic!("unknown entity type {other}"),
            })
            .collect();
        let agg = AggregatorNode::new(
            scratch.sub("aggregator"),
            view.clone(),
            AggSettings { protocol_parameters: sc.parameters(), entity_types, dmq_dedup: true, genesis_vk_hex: None },
        );
        let db_fault: Arc<Mutex<DbFaultState>> = Default::default();
        let link = std::sync::Arc::new(LinkShared {
            routes: Default::default(),
            calls: Default::default(),
            step: Mutex::new(0),
            epoch_settings_history: Default::default(),
        });
        World {
            sc,
            scratch,
            step: 0,
            epoch,
            immutable: 1,
            block: 100,
            agg,
            agg_view: view,
            parties,
            keys: BTreeMap::new(),
            inflight: BTreeMap::new(),
            deliveries: vec![],
            genesis_done: false,
            counters: BTreeMap::new(),
            last_tick: ("down".into(), None),
            tick_log: vec![],
            restarts_at: vec![],
            signed: BTreeMap::new(),
            registered_sent: BTreeMap::new(),
            db_fault,
            crashes_at: vec![],
            statements_by_step: vec![],
            liveness_requested: false,
            liveness_markers: 0,
            db_faults_counted: 0,
            lost_lotteries: Default::default(),
            signers: vec![],
            link,
            signer_ticks: vec![],
            quiescence_register_attempts: BTreeMap::new(),
            learned_params: BTreeMap::new(),
        }
    }

    pub fn install_db_hook(&self) {
        let state = self.db_fault.clone();
        mithril_persistence::sqlite::verif_hook::set_statement_hook(Some(Arc::new(move |sql: &str| {
            let mut st = state.lock().unwrap();
            if !is_write(sql) {
                return if st.crashed { Err("simulated crash: process is gone".into()) } else { Ok(()) };
            }
            if st.crashed {
                return Err("simulated crash: process is gone".into());
            }
            if st.record {
                let label = normalise_sql(sql);
                st.log.push(label);
            }
            st.seen += 1;
            if let Some((at, crash)) = st.armed
                && st.seen == at
            {
                st.armed = None;
                let label = normalise_sql(sql);
                st.fired.push(label.clone());
                if crash {
                    st.crashed = true;
                    return Err(format!("simulated crash before statement `{label}`"));
                }
                return Err(format!("simulated disk I/O error on statement `{label}`"));
            }
            Ok(())
        })));
    }

    /// Start (or restart) the aggregator process and publish its route filter to the signers' link.
    pub fn start_aggregator(&mut self) -> anyhow::Result<()> {
        *self.link.routes.lock().unwrap() = None;
        self.agg.start()?;
        *self.link.routes.lock().unwrap() = self.agg.inner.as_ref().map(|i| i.routes.clone());
        Ok(())
    }

    pub fn stop_aggregator(&mut self) {
        *self.link.routes.lock().unwrap() = None;
        self.agg.stop();
    }

    /// C20: create one real signer node per party (each with its own chain view and directory).
    pub fn spawn_signer_nodes(&mut self) -> anyhow::Result<()> {
        for (i, p) in self.parties.clone().into_iter().enumerate() {
            let view = Arc::new(Mutex::new(self.agg_view.lock().unwrap().clone()));
            let dir = self.scratch.sub(&format!("signer-{i}"));
            let mut node = SignerNode::new(p, i, dir, view, self.link.clone());
            node.start()?;
            self.signers.push(node);
        }
        Ok(())
    }

    /// Protocol parameters stored by the aggregator under epoch-settings index `index` (raw row).
    pub fn stored_parameters(&self, index: u64) -> Option<ProtocolParameters> {
        let db = self.db()?;
        db.epoch_settings().into_iter().find(|(i, _)| *i == index).and_then(|(_, json)| serde_json::from_str(&json).ok())
    }

    /// What a registering signer uses: the parameters the aggregator serves for the recording
    /// epoch; when it cannot be asked (down, not published yet) the most recent ones it knows.
    fn registration_parameters(&mut self, recording_epoch: u64) -> (ProtocolParameters, bool) {
        if self.agg.is_up() {
            let (status, body) = self.agg.http("GET", &format!("/aggregator/protocol-configuration/{recording_epoch}"), None);
            if status == 200
                && let Ok(v) = serde_json::from_str::<serde_json::Value>(&body)
                && let Ok(p) = serde_json::from_value::<ProtocolParameters>(v["protocol_parameters"].clone())
            {
                self.learned_params.insert(recording_epoch, p.clone());
                return (p, true);
            }
            self.hit("probe_registration_parameters_not_served");
        }
        let last_known = self
            .learned_params
            .range(..=recording_epoch)
            .next_back()
            .map(|(_, p)| p.clone())
            .unwrap_or_else(|| self.sc.parameters());
        (last_known, false)
    }

    fn sync_signer_view(&mut self, party: usize) {
        let stakes = self.stakes_for_recording_epoch(self.epoch + 1);
        let mut v = self.signers[party].view.lock().unwrap();
        v.epoch = self.epoch;
        v.immutable = self.immutable;
        v.block = self.block;
        v.stakes = stakes;
        v.pending = None;
    }

    pub fn signer_view_is_synced(&self, party: usize) -> bool {
        let v = self.signers[party].view.lock().unwrap();
        v.epoch == self.epoch && v.immutable == self.immutable && v.block == self.block
    }

    pub fn hit(&mut self, key: &str) {
        *self.counters.entry(key.to_string()).or_default() += 1;
    }

    pub fn db(&self) -> Option<Db> {
        Db::open(&self.agg.dir.join("stores/aggregator.sqlite3")).ok()
    }

    pub fn stakes_for_recording_epoch(&self, recording_epoch: u64) -> BTreeMap<String, u64> {
        self.parties
            .iter()
            .enumerate()
            .map(|(i, p)| (p.party_id.clone(), stake_for(&self.sc, i, recording_epoch)))
            .collect()
    }

    fn sync_view(&mut self) {
        let stakes = self.stakes_for_recording_epoch(self.epoch + 1);
        let mut v = self.agg_view.lock().unwrap();
        v.epoch = self.epoch;
        v.immutable = self.immutable;
        v.block = self.block;
        v.stakes = stakes;
        v.pending = None;
    }

    /// Arm a mid-cycle change: after `reads` more reads of its cardano node, `view` shows the
    /// chain as it is now.
    fn arm_mid_cycle_sync(&self, view: &crate::chain::SharedView, reads: u32) {
        let stakes = self.stakes_for_recording_epoch(self.epoch + 1);
        let mut v = view.lock().unwrap();
        let mut next = v.clone();
        next.epoch = self.epoch;
        next.immutable = self.immutable;
        next.block = self.block;
        next.stakes = stakes;
        next.pending = None;
        v.pending = Some((reads, Box::new(next)));
    }

    /// A party signs an open message once; it signs again only if its message was lost.
    pub fn can_sign(&self, party: usize, entity: &Entity) -> bool {
        match self.signed.get(&(party, entity.clone())) {
            None => true,
            Some(id) => {
                !self.lost_lotteries.contains(&(party, entity.clone()))
                    && !self.inflight.contains_key(id)
                    && !self.deliveries.iter().any(|d| d.msg.id == *id)
            }
        }
    }

    pub fn view_epoch(&self) -> u64 {
        self.agg_view.lock().unwrap().epoch
    }

    pub fn view_is_synced(&self) -> bool {
        let v = self.agg_view.lock().unwrap();
        v.epoch == self.epoch && v.immutable == self.immutable && v.block == self.block
    }

    /// Signers in force for signing during `epoch`, as the aggregator publishes them
    /// (`/epoch-settings`, JSON in the loop) with stakes from the chain.
    pub fn published_signers(&mut self) -> Option<(u64, Vec<SignerWithStake>, Vec<SignerWithStake>)> {
        if !self.agg.is_up() {
            return None;
        }
        let (status, body) = self.agg.http("GET", "/aggregator/epoch-settings", None);
        if status != 200 {
            return None;
        }
        let msg: EpochSettingsMessage = serde_json::from_str(&body).ok()?;
        let epoch = *msg.epoch;
        let attach = |parts: Vec<SignerMessagePart>, stakes: BTreeMap<String, u64>| -> Option<Vec<SignerWithStake>> {
            let signers = SignerMessagePart::try_into_signers(parts).ok()?;
            Some(
                signers
                    .into_iter()
                    .map(|s| {
                        let stake = stakes.get(&s.party_id).copied().unwrap_or(0);
                        SignerWithStake::from_signer(s, stake)
                    })
                    .collect(),
            )
        };
        if epoch == 0 {
            return None;
        }
        let current = attach(msg.current_signers, self.stakes_for_recording_epoch(epoch - 1))?;
        let next = attach(msg.next_signers, self.stakes_for_recording_epoch(epoch))?;
        Some((epoch, current, next))
    }

    /// The open message a signer would sign now: the most recently opened round, if it is neither
    /// certified nor expired (the aggregator works on one round at a time; an older uncertified
    /// round has been superseded by a later beacon).
    pub fn current_open_message(&self) -> Option<crate::db::OpenMessageRow> {
        let db = self.db()?;
        db.open_messages().into_iter().max_by_key(|om| om.rowid).filter(|om| !om.is_certified && !om.is_expired)
    }

    pub fn apply(&mut self, ev: &Event) -> Applied {
        self.step += 1;
        let before = self.db_fault.lock().unwrap().log.len();
        let r = self.apply_inner(ev);
        {
            let st = self.db_fault.lock().unwrap();
            if st.record && st.log.len() > before {
                self.statements_by_step.push((self.step, st.log[before..].to_vec()));
            }
        }
        if r.enabled {
            self.hit(&format!("ev_{}", ev.kind()));
        }
        // a crash armed by the statement hook fired during this event: the process is gone,
        // restart it on its directory
        let (crashed, fired) = {
            let st = self.db_fault.lock().unwrap();
            (st.crashed, st.fired.len())
        };
        if fired > self.db_faults_counted {
            self.db_faults_counted = fired;
            if !crashed {
                self.hit("fault_db_error_on_statement");
            }
        }
        if crashed {
            self.hit("fault_crash_at_statement");
            self.crashes_at.push(self.step);
            self.stop_aggregator();
            {
                let mut st = self.db_fault.lock().unwrap();
                st.crashed = false;
                st.armed = None;
            }
            if let Err(e) = self.start_aggregator() {
                return Applied { enabled: true, note: format!("{} ; restart after crash FAILED: {e:#}", r.note) };
            }
            self.restarts_at.push(self.step);
        }
        r
    }

    fn apply_inner(&mut self, ev: &Event) -> Applied {
        let ok = |note: String| Applied { enabled: true, note };
        let skip = |note: &str| Applied { enabled: false, note: note.to_string() };
        match ev {
            Event::Tick => {
                if !self.agg.is_up() {
                    return skip("aggregator down");
                }
                let (label, err) = self.agg.tick();
                if std::mem::take(&mut self.agg.cycle_waited_for_artifact) {
                    self.hit("probe_cycle_waited_for_the_artifact_task");
                }
                if label == "hung" {
                    // a process whose state machine is stuck gets restarted by its operator
                    self.hit("probe_cycle_hung_aggregator_restarted");
                    self.stop_aggregator();
                    if let Err(e) = self.start_aggregator() {
                        return ok(format!("-> hung ; restart FAILED: {e:#}"));
                    }
                    self.restarts_at.push(self.step);
                }
                self.last_tick = (label.clone(), err.clone());
                self.tick_log.push((self.step, label.clone(), err.clone()));
                ok(format!("-> {label}{}", err.as_ref().map(|e| format!(" ERR {}", first_line(e))).unwrap_or_default()))
            }
            Event::Background { polls } => {
                if !self.agg.is_up() {
                    return skip("aggregator down");
                }
                if !self.agg.run_background(*polls) {
                    self.hit("probe_background_task_did_not_finish");
                    return ok("background task still running".into());
                }
                ok(String::new())
            }
            Event::Epoch { by } => {
                self.epoch += by;
                if *by > 1 {
                    self.hit("fault_epoch_jump");
                }
                ok(format!("chain epoch {}", self.epoch))
            }
            Event::Immutable => {
                self.immutable += 1;
                self.block += 20;
                ok(format!("immutable {}", self.immutable))
            }
            Event::SyncView => {
                if self.view_is_synced() {
                    return skip("already in sync");
                }
                self.sync_view();
                ok(format!("aggregator sees epoch {} immutable {}", self.epoch, self.immutable))
            }
            Event::ChainDown { down } => {
                let mut v = self.agg_view.lock().unwrap();
                if v.down == *down {
                    return skip("no change");
                }
                v.down = *down;
                drop(v);
                if *down {
                    self.hit("fault_chain_observer_down");
                }
                ok(String::new())
            }
            Event::Register { id, party, new_key } => {
                if *party >= self.parties.len() {
                    return skip("no such party");
                }
                let recording_epoch = self.epoch + 1;
                let stake = stake_for(&self.sc, *party, recording_epoch);
                // where the operator re-configures the protocol parameters a party only creates a key
                // once the aggregator has told it the parameters of the round (as the real signer);
                // elsewhere the parameters never change and the last known ones are exact
                let reconfigured_world = self.sc.faults.reconfig > 0.0;
                let already_has_key = self.keys.get(&(*party, recording_epoch)).is_some_and(|k| !k.is_empty()) && !*new_key;
                let params = match self.registration_parameters(recording_epoch) {
                    (p, true) => p,
                    (p, false) if !reconfigured_world || already_has_key => p,
                    _ => return skip("the aggregator has not published the parameters of this registration round yet"),
                };
                let seed = self.sc.seed ^ self.sc.run.wrapping_mul(0x9E37);
                let entry = self.keys.entry((*party, recording_epoch)).or_default();
                if entry.is_empty() || *new_key {
                    let generation = entry.len() as u64;
                    let key = self.parties[*party].generate_key(
                        seed.wrapping_add(generation * 1_000_003),
                        recording_epoch,
                        stake,
                        &params,
                    );
                    entry.push(key);
                }
                let key_index = entry.len() - 1;
                let body = serde_json::to_string(&entry[key_index].registration_message()).expect("json");
                self.inflight.insert(
                    *id,
                    Msg {
                        id: *id,
                        kind: MsgKind::Registration { party: *party, recording_epoch, key_index },
                        body,
                        created_step: self.step,
                        created_epoch: self.epoch,
                        deliveries: 0,
                    },
                );
                *self.registered_sent.entry((*party, recording_epoch)).or_default() += 1;
                if *id > 1_000_000 {
                    *self.quiescence_register_attempts.entry((*party, recording_epoch)).or_default() += 1;
                }
                ok(format!("party {party} registers for epoch {recording_epoch} (key #{key_index})"))
            }
            Event::Sign { id, party, early } => self.apply_sign(*id, *party, *early, false),
            Event::SignWithNextKey { id, party } => self.apply_sign(*id, *party, false, true),
            Event::Deliver { id, keep, damage } => {
                if !self.agg.is_up() {
                    return skip("aggregator down");
                }
                let Some(msg) = self.inflight.get(id).cloned() else { return skip("no such message") };
                let (path, body) = match &msg.kind {
                    MsgKind::Registration { .. } => ("/aggregator/register-signer", msg.body.clone()),
                    MsgKind::Signature { .. } => ("/aggregator/register-signatures", msg.body.clone()),
                };
                let body = match damage {
                    None => body,
                    Some(d) => {
                        self.hit("fault_message_damaged");
                        damage_body(&body, d)
                    }
                };
                if *keep {
                    self.hit("fault_message_duplicated");
                    self.inflight.get_mut(id).unwrap().deliveries += 1;
                } else {
                    self.inflight.remove(id);
                }
                if msg.created_epoch < self.epoch {
                    self.hit("fault_message_delayed_across_epoch");
                }
                let (status, response) = self.agg.http("POST", path, Some(&body));
                let agg_epoch_view = self.view_epoch();
                let agg_service_epoch = if status == 201 && matches!(msg.kind, MsgKind::Registration { .. }) {
                    let (s2, b2) = self.agg.http("GET", "/aggregator/epoch-settings", None);
                    if s2 == 200 { serde_json::from_str::<serde_json::Value>(&b2).ok().and_then(|v| v["epoch"].as_u64()) } else { None }
                } else {
                    None
                };
                let note = format!("msg {id} -> {status}");
                self.hit(&format!("http_{status}"));
                if status == 599 {
                    self.hit("probe_route_handler_panicked");
                }
                self.deliveries.push(Delivery {
                    step: self.step,
                    msg,
                    damaged: damage.is_some(),
                    status,
                    response,
                    body,
                    agg_epoch_view,
                    agg_service_epoch,
                    batch_junk: false,
                });
                ok(note)
            }
            Event::DeliverDmq { id, keep } => {
                use mithril_common::crypto_helper::ProtocolSingleSignature;
                use mithril_common::messages::RegisterSignatureMessageDmq;
                if !self.agg.is_up() {
                    return skip("aggregator down");
                }
                let Some(msg) = self.inflight.get(id).cloned() else { return skip("no such message") };
                let MsgKind::Signature { entity, claimed, signature_hex, .. } = &msg.kind else {
                    return skip("registrations do not travel through the message queue");
                };
                let Ok(signature): Result<ProtocolSingleSignature, _> = signature_hex.clone().try_into() else {
                    return skip("undecodable signature");
                };
                let message = RegisterSignatureMessageDmq { signed_entity_type: entity.to_real().into(), signature };
                if *keep {
                    self.hit("fault_message_duplicated");
                    self.inflight.get_mut(id).unwrap().deliveries += 1;
                } else {
                    self.inflight.remove(id);
                }
                if msg.created_epoch < self.epoch {
                    self.hit("fault_message_delayed_across_epoch");
                }
                let err = self.agg.dmq_deliver(message, claimed.clone());
                self.hit("ev_delivered_through_message_queue");
                if err.as_deref().is_some_and(|e| e.starts_with("PANIC")) {
                    self.hit("probe_signature_processor_panicked");
                }
                let agg_epoch_view = self.view_epoch();
                let note = format!("msg {id} -> dmq{}", err.as_ref().map(|e| format!(" ERR {}", first_line(e))).unwrap_or_default());
                // the undamaged HTTP-form body stands for the payload in the delivery log
                let body = msg.body.clone();
                self.deliveries.push(Delivery { step: self.step, msg, damaged: false, status: 0, response: err.unwrap_or_default(), body, agg_epoch_view, agg_service_epoch: None, batch_junk: false });
                ok(note)
            }
            Event::DeliverDmqBatch { ids, junk_at } => {
                use mithril_common::crypto_helper::ProtocolSingleSignature;
                use mithril_common::messages::{RegisterSignatureMessageDmq, SignedEntityTypeMessage};
                if !self.agg.is_up() {
                    return skip("aggregator down");
                }
                let mut batch: Vec<(RegisterSignatureMessageDmq, String)> = vec![];
                let mut delivered: Vec<Msg> = vec![];
                for id in ids {
                    let Some(msg) = self.inflight.get(id).cloned() else { continue };
                    let MsgKind::Signature { entity, claimed, signature_hex, .. } = &msg.kind else { continue };
                    let Ok(signature): Result<ProtocolSingleSignature, _> = signature_hex.clone().try_into() else { continue };
                    batch.push((RegisterSignatureMessageDmq { signed_entity_type: entity.to_real().into(), signature }, claimed.clone()));
                    self.inflight.remove(id);
                    delivered.push(msg);
                }
                if batch.is_empty() {
                    return skip("no such messages");
                }
                // messages for a beacon without a round: payload = some signature of the batch,
                // sender = a registered pool other than that signature's
                let mut junk = 0;
                for (n, at) in junk_at.iter().enumerate() {
                    let (template, owner) = batch[n % batch.len()].clone();
                    let sender = self.parties.iter().map(|p| p.party_id.clone()).find(|p| *p != owner).unwrap_or(owner);
                    let at = (*at).min(batch.len());
                    let nowhere = mithril_common::entities::SignedEntityType::MithrilStakeDistribution(mithril_common::entities::Epoch(self.epoch + 7 + n as u64));
                    batch.insert(at, (RegisterSignatureMessageDmq { signed_entity_type: SignedEntityTypeMessage::from(nowhere), signature: template.signature }, sender));
                    junk += 1;
                }
                let size = batch.len();
                let err = self.agg.dmq_deliver_batch(batch);
                self.hit("ev_delivered_through_message_queue_batch");
                if junk > 0 {
                    self.hit("fault_dmq_batch_with_messages_for_beacons_without_round");
                }
                let agg_epoch_view = self.view_epoch();
                let note = format!("{} messages ({junk} for beacons without a round) -> dmq{}", size, err.as_ref().map(|e| format!(" ERR {}", first_line(e))).unwrap_or_default());
                for msg in delivered {
                    if msg.created_epoch < self.epoch {
                        self.hit("fault_message_delayed_across_epoch");
                    }
                    let body = msg.body.clone();
                    self.deliveries.push(Delivery { step: self.step, msg, damaged: false, status: 0, response: err.clone().unwrap_or_default(), body, agg_epoch_view, agg_service_epoch: None, batch_junk: junk > 0 });
                }
                ok(note)
            }
            Event::Drop { id } => {
                if self.inflight.remove(id).is_none() {
                    return skip("no such message");
                }
                self.hit("fault_message_dropped");
                ok(String::new())
            }
            Event::Expire => {
                if !self.agg.is_up() {
                    return skip("aggregator down");
                }
                let Some(om) = self.current_open_message() else { return skip("no open message") };
                let entity = om.entity.to_real();
                let inner = self.agg.inner.as_ref().unwrap();
                let repo = inner.open_message_repository.clone();
                let done = self.agg.block_on(async move {
                    let Ok(Some(mut record)) = repo.get_open_message(&entity).await else { return false };
                    record.expires_at = Some(chrono::Utc::now() - chrono::Duration::seconds(5));
                    repo.update_open_message(&record).await.is_ok()
                });
                if !done {
                    return skip("could not update open message");
                }
                self.hit("fault_open_message_expired");
                ok(format!("open message {} expires", om.entity.label()))
            }
            Event::Restart => {
                self.stop_aggregator();
                if let Err(e) = self.start_aggregator() {
                    return ok(format!("restart FAILED: {e:#}"));
                }
                self.restarts_at.push(self.step);
                self.hit("fault_restart_between_events");
                ok(String::new())
            }
            Event::Reconfigure { k, m, phi_f } => {
                let new = ProtocolParameters { k: *k, m: *m, phi_f: *phi_f };
                if self.agg.settings.protocol_parameters == new {
                    return skip("same parameters");
                }
                self.stop_aggregator();
                self.agg.settings.protocol_parameters = new;
                if let Err(e) = self.start_aggregator() {
                    return ok(format!("restart FAILED: {e:#}"));
                }
                self.restarts_at.push(self.step);
                self.hit("fault_restart_with_other_protocol_parameters");
                ok(format!("configuration now k={k} m={m} phi_f={phi_f}"))
            }
            Event::RotateGenesisKey => {
                if self.agg.settings.genesis_vk_hex.is_some() {
                    return skip("already rotated");
                }
                let other = mithril_common::crypto_helper::GenesisSigner::from_ed25519(
                    mithril_common::crypto_helper::GenesisEd25519Signer::create_test_signer(crate::parties::SeedRng(sim_core::Rng::new(99))),
                );
                let hex = other.create_verifier().to_ed25519_verification_key().to_json_hex().expect("genesis vk");
                self.stop_aggregator();
                self.agg.settings.genesis_vk_hex = Some(hex);
                if let Err(e) = self.start_aggregator() {
                    return ok(format!("restart FAILED: {e:#}"));
                }
                self.restarts_at.push(self.step);
                self.hit("fault_restart_with_other_genesis_verification_key");
                ok(String::new())
            }
            Event::Genesis => {
                if !self.agg.is_up() {
                    return skip("aggregator down");
                }
                match self.genesis() {
                    Ok(n) => {
                        self.genesis_done = true;
                        ok(format!("genesis certificate for epoch {} over {n} signers", self.view_epoch()))
                    }
                    Err(e) => skip(&format!("genesis not possible: {e:#}")),
                }
            }
            Event::Forge { id, from, kind, as_party } => {
                let Some(src) = self.inflight.get(from).cloned().or_else(|| {
                    // signatures are public once sent: also those already delivered
                    self.deliveries.iter().rev().find(|d| d.msg.id == *from).map(|d| d.msg.clone())
                }) else {
                    return skip("no such source message");
                };
                let MsgKind::Signature { entity, producer, producer_recording_epoch, indexes, signature_hex, signed_message, claimed, .. } =
                    src.kind.clone()
                else {
                    return skip("source is not a signature");
                };
                let name = match kind {
                    ForgeKind::CopyUnderUnknownName => "pool1unknownunknownunknownunknownunknownunknownunknown00".to_string(),
                    _ => {
                        if *as_party >= self.parties.len() {
                            return skip("no such party");
                        }
                        self.parties[*as_party].party_id.clone()
                    }
                };
                if name == claimed {
                    return skip("same name: not a forgery");
                }
                let idx = match kind {
                    ForgeKind::CopyUnderNameSubset if indexes.len() > 1 => indexes[..indexes.len() / 2].to_vec(),
                    _ => indexes.clone(),
                };
                let body = serde_json::json!({
                    "entity_type": serde_json::to_value(mithril_common::messages::SignedEntityTypeMessage::from(entity.to_real())).unwrap(),
                    "party_id": name,
                    "signature": signature_hex,
                    "indexes": idx,
                    "signed_message": signed_message,
                })
                .to_string();
                self.inflight.insert(
                    *id,
                    Msg {
                        id: *id,
                        kind: MsgKind::Signature {
                            entity,
                            producer,
                            producer_recording_epoch,
                            claimed: name,
                            indexes: idx,
                            signature_hex,
                            signed_message,
                            forged: Some(kind.clone()),
                        },
                        body,
                        created_step: self.step,
                        created_epoch: self.epoch,
                        deliveries: 0,
                    },
                );
                self.hit("fault_adversary_forged_message");
                ok(format!("forged from msg {from} as party {as_party} ({kind:?})"))
            }
            Event::ArmDbFault { statement, crash } => {
                let mut st = self.db_fault.lock().unwrap();
                st.seen = 0;
                st.armed = Some((*statement, *crash));
                ok(String::new())
            }
            Event::SignerTick { party, policy } => {
                if *party >= self.signers.len() || !self.signers[*party].is_up() {
                    return skip("no such signer node");
                }
                *self.link.step.lock().unwrap() = self.step;
                let seed = self.sc.seed ^ (self.sc.run << 20) ^ ((*party as u64) << 12) ^ self.step as u64;
                let calls_before = self.link.calls.lock().unwrap().len();
                let (label, err) = self.signers[*party].tick(policy, seed);
                self.signer_ticks.push((self.step, *party, label.clone(), err.clone()));
                let new_calls: Vec<(&'static str, Option<u16>, &'static str)> =
                    self.link.calls.lock().unwrap()[calls_before..].iter().map(|c| (c.kind, c.status, c.fault)).collect();
                for (kind, status, fault) in &new_calls {
                    if !fault.is_empty() {
                        self.hit(&format!("fault_link_{}", fault.replace('-', "_")));
                    }
                    if *kind == "register-signatures" && matches!(status, Some(201 | 202)) {
                        self.hit("probe_signature_accepted_from_real_signer");
                    }
                }
                ok(format!(
                    "signer {party} -> {label}{} calls {:?}",
                    err.as_ref().map(|e| format!(" ERR {}", first_line(e))).unwrap_or_default(),
                    new_calls.iter().map(|(k, s, f)| format!("{k}:{}{}", s.map(|s| s.to_string()).unwrap_or("-".into()), if f.is_empty() { String::new() } else { format!("!{f}") })).collect::<Vec<_>>()
                ))
            }
            Event::MidCycleSync { reads } => {
                if self.view_is_synced() {
                    return skip("already in sync");
                }
                self.arm_mid_cycle_sync(&self.agg_view.clone(), *reads);
                self.hit("fault_chain_moves_inside_aggregator_cycle");
                ok(format!("the aggregator will see epoch {} immutable {} after {reads} more reads", self.epoch, self.immutable))
            }
            Event::SignerMidCycleSync { party, reads } => {
                if *party >= self.signers.len() || self.signer_view_is_synced(*party) {
                    return skip("already in sync");
                }
                self.arm_mid_cycle_sync(&self.signers[*party].view.clone(), *reads);
                self.hit("fault_chain_moves_inside_signer_cycle");
                ok(format!("signer {party} will see epoch {} immutable {} after {reads} more reads", self.epoch, self.immutable))
            }
            Event::SignerRestart { party } => {
                if *party >= self.signers.len() {
                    return skip("no such signer node");
                }
                if let Err(e) = self.signers[*party].start() {
                    return ok(format!("signer restart FAILED: {e:#}"));
                }
                self.hit("fault_signer_restart");
                ok(String::new())
            }
            Event::SignerSyncView { party } => {
                if *party >= self.signers.len() || self.signer_view_is_synced(*party) {
                    return skip("already in sync");
                }
                self.sync_signer_view(*party);
                ok(format!("signer {party} sees epoch {} immutable {}", self.epoch, self.immutable))
            }
            Event::CheckLiveness => {
                self.liveness_requested = true;
                self.liveness_markers += 1;
                ok(format!("end of quiescence phase {}", self.liveness_markers))
            }
        }
    }

    fn apply_sign(&mut self, id: u32, party: usize, early: bool, next_key: bool) -> Applied {
        let skip = |note: &str| Applied { enabled: false, note: note.to_string() };
        if party >= self.parties.len() {
            return skip("no such party");
        }
        let Some((epoch, current, next)) = self.published_signers() else { return skip("no epoch settings") };
        // which entity and message
        let (entity, message): (Entity, String) = if early {
            // the beacon the aggregator will open next for CardanoDatabase, computed by the
            // aggregator's own signable builder (stand-in for the signer's identical computation)
            let entity = Entity::Cdb { epoch: self.view_epoch(), immutable: self.agg_view.lock().unwrap().immutable };
            let inner = self.agg.inner.as_ref().unwrap();
            let svc = inner.deps.signable_builder_service.clone();
            let real = entity.to_real();
            let Ok(pm) = self.agg.block_on(async move { svc.compute_protocol_message(real).await }) else {
                return skip("cannot compute protocol message");
            };
            (entity, pm.to_message())
        } else {
            let Some(om) = self.current_open_message() else { return skip("no open message") };
            let Ok(pm) = serde_json::from_str::<ProtocolMessage>(&om.protocol_message_json) else {
                return skip("unreadable protocol message");
            };
            (om.entity, pm.to_message())
        };
        if !next_key && !self.can_sign(party, &entity) {
            return skip("already signed");
        }
        let (recording_epoch, current) = if next_key { (epoch, next) } else { (epoch - 1, current) };
        let party_id = self.parties[party].party_id.clone();
        // the party uses the key whose verification key the aggregator publishes for it
        let Some(published) = current.iter().find(|s| s.party_id == party_id) else {
            return skip("party not among the signers of this epoch");
        };
        let published_vk = published.verification_key_for_concatenation.to_json_hex().unwrap_or_default();
        let Some(key) = self.keys.get(&(party, recording_epoch)).and_then(|ks| {
            ks.iter().find(|k| k.signer.verification_key_for_concatenation.to_json_hex().unwrap_or_default() == published_vk)
        }) else {
            return skip("party holds no key matching the published one");
        };
        let params = key.parameters.clone();
        let sig = match key.sign(&current, &params, &message) {
            Ok(Some(sig)) => sig,
            Ok(None) if next_key => return skip("lost all lotteries"),
            Ok(None) => {
                self.signed.insert((party, entity.clone()), id);
                self.lost_lotteries.insert((party, entity));
                self.hit("probe_signer_lost_all_lotteries");
                return Applied { enabled: true, note: "lost all lotteries".into() };
            }
            Err(e) => return skip(&format!("cannot sign: {e:#}")),
        };
        let signature_hex: String = sig.signature.clone().try_into().expect("signature hex");
        let http = RegisterSignatureMessageHttp {
            signed_entity_type: entity.to_real().into(),
            party_id: party_id.clone(),
            signature: signature_hex.clone(),
            won_indexes: sig.won_indexes.clone(),
            signed_message: message.clone(),
        };
        let body = serde_json::to_string(&http).expect("json");
        self.inflight.insert(
            id,
            Msg {
                id,
                kind: MsgKind::Signature {
                    entity: entity.clone(),
                    producer: party,
                    producer_recording_epoch: recording_epoch,
                    claimed: party_id,
                    indexes: sig.won_indexes.clone(),
                    signature_hex,
                    signed_message: message,
                    forged: None,
                },
                body,
                created_step: self.step,
                created_epoch: self.epoch,
                deliveries: 0,
            },
        );
        if next_key {
            self.hit("fault_adversary_signs_with_next_epoch_key");
        } else {
            self.signed.insert((party, entity.clone()), id);
        }
        if early {
            self.hit("probe_signed_before_open_message");
        }
        Applied { enabled: true, note: format!("party {party} signs {} ({} indexes)", entity.label(), sig.won_indexes.len()) }
    }

    /// Operator action: bootstrap a genesis certificate at the aggregator's current epoch over the
    /// signers recorded for the *next* signing epoch (what the repository's genesis tool does).
    fn genesis(&mut self) -> anyhow::Result<usize> {
        use mithril_common::certificate_chain::CertificateGenesisProducer;
        use mithril_common::crypto_helper::GenesisSigner;
        use mithril_common::entities::{CertificateSignature, Epoch, SupportedEra};
        use mithril_common::protocol::SignerBuilder;
        let (epoch, _current, next) =
            self.published_signers().ok_or_else(|| anyhow::anyhow!("no epoch settings published"))?;
        anyhow::ensure!(!next.is_empty(), "no signer registered for the next epoch");
        // the genesis tool takes the epoch service's *next* protocol parameters
        let params = self.stored_parameters(epoch).unwrap_or_else(|| self.sc.parameters());
        let avk = SignerBuilder::new(&next, &params)?.compute_aggregate_verification_key();
        let producer = CertificateGenesisProducer::new();
        let era = SupportedEra::Pythagoras;
        let msg = producer.create_genesis_protocol_message(&params, &avk, &Epoch(epoch), era)?;
        let sig = GenesisSigner::create_deterministic_signer().sign(
            &msg,
            era,
            &mut crate::parties::SeedRng(sim_core::Rng::new(7)),
        )?;
        let CertificateSignature::GenesisSignature(sig) = sig else { anyhow::bail!("unexpected genesis signature kind") };
        let cert = producer.create_legacy_genesis_certificate(params, "devnet", Epoch(epoch), avk, sig, era)?;
        let inner = self.agg.inner.as_ref().unwrap();
        let repo = inner.deps.certificate_repository.clone();
        self.agg.block_on(async move { repo.create_certificate(cert).await })?;
        Ok(next.len())
    }
}

pub fn first_line(s: &str) -> String {
    let l = s.lines().next().unwrap_or("");
    l.chars().take(160).collect()
}

fn damage_body(body: &str, d: &Damage) -> String {
    match d {
        Damage::Truncate(o) => {
            let cut = if body.is_empty() { 0 } else { o % body.len() };
            let mut cut = cut;
            while !body.is_char_boundary(cut) {
                cut -= 1;
            }
            body[..cut].to_string()
        }
        Damage::BodyBit(o) => {
            let mut b = body.as_bytes().to_vec();
            if !b.is_empty() {
                let i = o % b.len();
                b[i] ^= 1 << (o % 7);
            }
            String::from_utf8_lossy(&b).to_string()
        }
        Damage::SigBit(o) => {
            let Ok(mut v) = serde_json::from_str::<serde_json::Value>(body) else { return body.to_string() };
            // signatures and verification keys both travel as hex strings
            for field in ["signature", "verification_key"] {
                if let Some(s) = v.get(field).and_then(|s| s.as_str()) {
                    let mut chars: Vec<char> = s.chars().collect();
                    if !chars.is_empty() {
                        let i = o % chars.len();
                        let x = chars[i].to_digit(16).unwrap_or(0);
                        chars[i] = char::from_digit(x ^ (1 << (o % 4)), 16).unwrap_or('0');
                        v[field] = serde_json::Value::String(chars.into_iter().collect());
                    }
                }
            }
            v.to_string()
        }
        Damage::SubsetIndexes(seed) => {
            use mithril_common::crypto_helper::ProtocolSingleSignature;
            let Ok(mut v) = serde_json::from_str::<serde_json::Value>(body) else { return body.to_string() };
            let Some(hex) = v.get("signature").and_then(|s| s.as_str()).map(|s| s.to_string()) else { return body.to_string() };
            let Ok(sig): Result<ProtocolSingleSignature, _> = hex.try_into() else { return body.to_string() };
            let mut inner = sig.into_inner();
            let all = inner.get_concatenation_signature_indices();
            let mut r = sim_core::Rng::new(*seed);
            let kept: Vec<u64> = all.iter().copied().filter(|_| r.chance(0.5)).collect();
            let kept = if kept.is_empty() { all[..1.min(all.len())].to_vec() } else { kept };
            inner.set_concatenation_signature_indices(&kept);
            let Ok(new_hex) = ProtocolSingleSignature::new(inner).to_json_hex() else { return body.to_string() };
            v["signature"] = serde_json::Value::String(new_hex);
            v["indexes"] = serde_json::json!(kept);
            v.to_string()
        }
        Damage::RepeatIndexes(seed) => {
            use mithril_common::crypto_helper::ProtocolSingleSignature;
            let Ok(mut v) = serde_json::from_str::<serde_json::Value>(body) else { return body.to_string() };
            let Some(hex) = v.get("signature").and_then(|s| s.as_str()).map(|s| s.to_string()) else { return body.to_string() };
            let Ok(sig): Result<ProtocolSingleSignature, _> = hex.try_into() else { return body.to_string() };
            let mut inner = sig.into_inner();
            let all = inner.get_concatenation_signature_indices();
            let mut r = sim_core::Rng::new(*seed);
            let mut listed: Vec<u64> = vec![];
            for i in &all {
                listed.push(*i);
                if r.chance(0.6) {
                    listed.push(*i);
                }
            }
            if listed.len() == all.len() && !all.is_empty() {
                listed.insert(0, all[0]);
            }
            inner.set_concatenation_signature_indices(&listed);
            let Ok(new_hex) = ProtocolSingleSignature::new(inner).to_json_hex() else { return body.to_string() };
            v["signature"] = serde_json::Value::String(new_hex);
            v["indexes"] = serde_json::json!(listed);
            v.to_string()
        }
        Damage::DropIndex => {
            let Ok(mut v) = serde_json::from_str::<serde_json::Value>(body) else { return body.to_string() };
            if let Some(a) = v.get_mut("indexes").and_then(|a| a.as_array_mut()) {
                a.pop();
            }
            v.to_string()
        }
        Damage::AddIndex(x) => {
            let Ok(mut v) = serde_json::from_str::<serde_json::Value>(body) else { return body.to_string() };
            if let Some(a) = v.get_mut("indexes").and_then(|a| a.as_array_mut()) {
                a.push(serde_json::json!(x));
            }
            v.to_string()
        }
    }
}
