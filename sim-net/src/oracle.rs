//! Oracles: invariants evaluated after every event on the observable state (raw DB rows, HTTP
//! responses, state label), history checks, bounded liveness. Reference model is independent
//! of the code it judges: who registered what (from acknowledged deliveries), who really
//! produced which signature (known by construction), own chaining / recount rules.
use std::collections::{BTreeMap, BTreeSet};
use std::sync::Arc;

use async_trait::async_trait;
use mithril_client::certificate_client::{
    CertificateAggregatorRequest, CertificateClient, MithrilCertificateVerifier,
};
use mithril_client::feedback::FeedbackSender;
use mithril_client::{MithrilCertificate, MithrilCertificateListItem, MithrilResult};
use mithril_common::crypto_helper::{ProtocolAggregateVerificationKey, ProtocolSingleSignature};
use mithril_common::entities::{ProtocolMessage, SignerWithStake};
use mithril_common::protocol::{SignerBuilder, ToMessage};
use warp::filters::BoxedFilter;

use crate::db::{CertificateRow, Entity};
use crate::world::{MsgKind, World};

#[derive(Clone, Debug)]
pub struct Found {
    pub clause: String,
    pub detail: String,
    pub step: usize,
}

/// Fetches certificates from the aggregator's own `/certificate/{hash}` route (JSON in the loop).
struct RouteRequester {
    routes: BoxedFilter<(warp::reply::Response,)>,
}

#[async_trait]
impl CertificateAggregatorRequest for RouteRequester {
    async fn list_latest(&self) -> MithrilResult<Vec<MithrilCertificateListItem>> {
        let resp = warp::test::request().method("GET").path("/aggregator/certificates").reply(&self.routes).await;
        Ok(serde_json::from_slice(resp.body())?)
    }

    async fn get_by_hash(&self, hash: &str) -> MithrilResult<Option<MithrilCertificate>> {
        let resp = warp::test::request()
            .method("GET")
            .path(&format!("/aggregator/certificate/{hash}"))
            .reply(&self.routes)
            .await;
        match resp.status().as_u16() {
            200 => Ok(Some(serde_json::from_slice(resp.body())?)),
            404 => Ok(None),
            s => anyhow::bail!("aggregator answered {s} for certificate {hash}"),
        }
    }
}

/// A violation whose trigger is the one recorded for a known finding (`known-findings.json`):
/// it is reported apart, the run goes on so that anything else is still seen.
#[derive(Clone, Debug)]
pub struct KnownHit {
    pub finding: String,
    pub clause: String,
    pub detail: String,
    pub step: usize,
    /// id of the message whose delivery was not recorded
    pub msg_id: u32,
    /// the party whose contribution it is
    pub producer: usize,
    /// the trigger of the known finding C16-dmq-dedup-ignores-sender is present
    pub dedup_trigger: bool,
    /// another party had submitted a copy of this payload before
    pub foreign_copy_before: bool,
}

pub struct Oracle {
    pub property: String,
    pub found: Vec<Found>,
    pub known_hits: Vec<KnownHit>,
    /// certificates in first-seen order
    pub certs: Vec<CertificateRow>,
    cert_seen_step: BTreeMap<String, usize>,
    /// genesis verification key in the operator's configuration when the certificate was sealed
    cert_genesis_vk: BTreeMap<String, Option<String>>,
    verified: BTreeSet<String>,
    /// single-signature rows seen: (open message id, party) -> (signature, producer party if known)
    rows: BTreeMap<(String, String), String>,
    /// open message id -> (entity, message, closed?)
    open_messages: BTreeMap<String, (Entity, String, bool)>,
    pub states: BTreeSet<u64>,
    pub probes: BTreeMap<String, u64>,
    avk_cache: BTreeMap<u64, Option<String>>,
    restarts_checked: usize,
    sig_cache: BTreeMap<(String, String, String), Option<Vec<u64>>>,
    probed: BTreeSet<Entity>,
    liveness_checked: usize,
    liveness_excused: bool,
    c20_calls_seen: usize,
    c20_ticks_seen: usize,
    c16_deliveries_seen: usize,
    registrations_seen: usize,
    tx_roots_checked: BTreeSet<String>,
    tx_reference: BTreeMap<u64, Option<String>>,
    /// honest signatures delivered before their round opened (buffered), waiting for it:
    /// (message id, producer, entity, signed message, signature, delivery step, junk / copies around)
    c16_early: Vec<(u32, usize, Entity, String, String, usize, bool, bool)>,
    c16_open_seen: BTreeSet<String>,
    c06_epochs_done: BTreeSet<u64>,
    c06_artifacts_done: BTreeSet<String>,
    pub avk_by_epoch: BTreeMap<u64, String>,
    /// protocol parameters the aggregator published, by epoch-settings index (first value seen
    /// in its `epoch_setting` table); index i is in force for signing epoch i + 1
    pub in_force: BTreeMap<u64, mithril_common::entities::ProtocolParameters>,
}

impl Oracle {
    pub fn new(property: &str) -> Oracle {
        Oracle {
            property: property.to_string(),
            found: vec![],
            known_hits: vec![],
            certs: vec![],
            cert_seen_step: BTreeMap::new(),
            cert_genesis_vk: BTreeMap::new(),
            verified: BTreeSet::new(),
            rows: BTreeMap::new(),
            open_messages: BTreeMap::new(),
            states: BTreeSet::new(),
            probes: BTreeMap::new(),
            avk_cache: BTreeMap::new(),
            restarts_checked: 0,
            sig_cache: BTreeMap::new(),
            probed: BTreeSet::new(),
            liveness_checked: 0,
            liveness_excused: false,
            c20_calls_seen: 0,
            c20_ticks_seen: 0,
            c16_deliveries_seen: 0,
            registrations_seen: 0,
            tx_roots_checked: BTreeSet::new(),
            tx_reference: BTreeMap::new(),
            c16_early: vec![],
            c16_open_seen: BTreeSet::new(),
            c06_epochs_done: BTreeSet::new(),
            c06_artifacts_done: BTreeSet::new(),
            avk_by_epoch: BTreeMap::new(),
            in_force: BTreeMap::new(),
        }
    }

    fn report(&mut self, step: usize, clause: &str, detail: String) {
        if !self.found.iter().any(|f| f.clause == clause) {
            self.found.push(Found { clause: clause.to_string(), detail, step });
        }
    }

    fn probe(&mut self, key: &str) {
        *self.probes.entry(key.to_string()).or_default() += 1;
    }

    fn is(&self, p: &str) -> bool {
        self.property == p
    }

    // ------------------------------------------------------------------ model

    /// protocol parameters in force for *signing* epoch `epoch`: what the aggregator published
    /// for the registration round that produced this epoch's signers
    pub fn params(&self, w: &World, epoch: u64) -> mithril_common::entities::ProtocolParameters {
        epoch.checked_sub(1).and_then(|i| self.in_force.get(&i).cloned()).unwrap_or_else(|| w.sc.parameters())
    }

    fn observe_epoch_settings(&mut self, w: &World, db: &crate::db::Db, step: usize) {
        for (index, json) in db.epoch_settings() {
            let Ok(p) = serde_json::from_str::<mithril_common::entities::ProtocolParameters>(&json) else { continue };
            match self.in_force.get(&index).cloned() {
                None => {
                    if p != w.sc.parameters() {
                        self.probe("epoch_settings_with_reconfigured_parameters");
                    }
                    self.in_force.insert(index, p);
                }
                Some(old) if old != p => {
                    self.probe("epoch_settings_rewritten");
                    if self.is("C14") {
                        self.report(step, "parameters-in-force", format!(
                            "the protocol parameters published for epoch-settings index {index} (signing epoch {}) changed from {old:?} to {p:?} after they had been published", index + 1));
                    }
                }
                _ => {}
            }
        }
    }

    /// key in force for `party` at recording epoch `rec`: the key of the last acknowledged
    /// (201), undamaged registration delivery.
    fn key_in_force<'a>(w: &'a World, party: usize, rec: u64, up_to_step: usize) -> Option<&'a crate::parties::EpochKey> {
        let mut best = None;
        for d in &w.deliveries {
            if d.step > up_to_step {
                break;
            }
            if let MsgKind::Registration { party: p, recording_epoch, key_index } = &d.msg.kind
                && *p == party
                && *recording_epoch == rec
                && d.status == 201
                && !d.damaged
                // acknowledged while the round recording for `rec` was the open one
                && d.agg_service_epoch.is_none_or(|e| e + 1 == rec)
            {
                best = w.keys.get(&(party, rec)).and_then(|ks| ks.get(*key_index));
            }
        }
        best
    }

    /// registered signers (with chain stakes) in force for *signing* epoch `epoch`
    pub fn model_signers(w: &World, epoch: u64, up_to_step: usize) -> Vec<SignerWithStake> {
        if epoch == 0 {
            return vec![];
        }
        let rec = epoch - 1;
        let mut out = vec![];
        for party in 0..w.parties.len() {
            if let Some(k) = Self::key_in_force(w, party, rec, up_to_step) {
                out.push(k.signer_with_stake());
            }
        }
        out
    }

    fn model_avk(&mut self, w: &World, epoch: u64) -> Option<String> {
        if let Some(v) = self.avk_cache.get(&epoch) {
            return v.clone();
        }
        // registrations for recording epoch `epoch - 1` are closed once the chain is at `epoch`
        let signers = Self::model_signers(w, epoch, usize::MAX);
        let v = if signers.is_empty() {
            None
        } else {
            SignerBuilder::new(&signers, &self.params(w, epoch))
                .ok()
                .map(|b| b.compute_aggregate_verification_key())
                .and_then(|avk| avk_hex(&avk))
        };
        if w.epoch >= epoch && w.view_epoch() >= epoch {
            self.avk_cache.insert(epoch, v.clone());
        }
        v
    }

    pub fn same_avk(a: &str, b: &str) -> bool {
        if a == b {
            return true;
        }
        use mithril_common::crypto_helper::ProtocolAggregateVerificationKeyForConcatenation as K;
        let decode = |s: &str| K::from_json_hex(s).or_else(|_| K::try_from(s.to_string())).ok();
        match (decode(a), decode(b)) {
            (Some(x), Some(y)) => x.to_json_hex().ok() == y.to_json_hex().ok(),
            _ => false,
        }
    }

    // ------------------------------------------------------------------ checks

    pub fn check(&mut self, w: &mut World) {
        let Some(db) = w.db() else { return };
        let step = w.step;
        self.observe_epoch_settings(w, &db, step);
        // the signers registered for an epoch are those acknowledged while the round recording
        // for it was open: an acknowledgement for the round of another epoch changes a set that
        // is closed (or not opened yet)
        if self.is("C14") {
            let from = self.registrations_seen;
            self.registrations_seen = w.deliveries.len();
            for d in w.deliveries.iter().skip(from) {
                if let MsgKind::Registration { party, recording_epoch, .. } = &d.msg.kind
                    && d.status == 201
                    && let Some(e) = d.agg_service_epoch
                {
                    self.probe("registration_acknowledgements_checked");
                    if e + 1 != *recording_epoch {
                        self.report(step, "registration-for-other-round-acknowledged", format!(
                            "the aggregator, working in epoch {e} (open registration round: recording epoch {}), acknowledged (201) the registration of party {party} labelled with recording epoch {recording_epoch}: the signer set of an epoch whose round is not the open one was changed",
                            e + 1));
                    }
                }
            }
        }
        let certs = db.certificates();
        let open_messages = db.open_messages();
        let sigs = db.single_signatures();
        let signed_entities = db.signed_entities();

        // abstract state
        {
            let mut fp = sim_core::Fingerprint::new();
            fp.add(&w.agg.state_label());
            let om = open_messages.iter().find(|o| !o.is_certified && !o.is_expired);
            fp.add(om.map(|o| o.entity.kind()).unwrap_or("-"));
            fp.add_u64(om.map(|o| sigs.iter().filter(|s| s.open_message_id == o.id).count() as u64).unwrap_or(0).min(4));
            fp.add_u64((w.inflight.len() as u64).min(3));
            fp.add_u64((w.epoch - w.view_epoch()).min(2));
            fp.add_u64((certs.len() > signed_entities.len() + certs.iter().filter(|c| c.is_genesis).count()) as u64);
            fp.add_u64(db.buffered_signatures_count().min(2) as u64);
            self.states.insert(fp.value());
        }

        // transactions: the root the aggregator offers for signing is the root of the chain up to
        // the beacon (what a signer importing the chain once from scratch computes); judged for
        // C15 (after a stop the importer resumes on what it had stored)
        if self.is("C15") {
            for om in &open_messages {
                let crate::db::Entity::Ctx { block, .. } = &om.entity else { continue };
                if !self.tx_roots_checked.insert(om.id.clone()) {
                    continue;
                }
                let offered = serde_json::from_str::<serde_json::Value>(&om.protocol_message_json)
                    .ok()
                    .and_then(|v| v["message_parts"]["cardano_transactions_merkle_root"].as_str().map(|s| s.to_string()));
                let Some(offered) = offered else { continue };
                let reference = match self.tx_reference.get(block) {
                    Some(r) => r.clone(),
                    None => {
                        let r = crate::signer::reference_transactions_root(w.scratch.path(), *block).ok();
                        self.tx_reference.insert(*block, r.clone());
                        r
                    }
                };
                self.probe("transactions_roots_compared_with_a_fresh_import");
                if let Some(reference) = reference
                    && reference != offered
                {
                    self.report(step, "transactions-root-differs-from-chain", format!(
                        "the message offered for signing for {} carries the transactions Merkle root {} while importing the chain once from scratch up to block {block} gives {}: signers that compute it from the chain cannot sign this round",
                        om.entity.label(), short(&offered), short(&reference)));
                }
            }
        }
        // track open messages (for the C16 conservation clause)
        for om in &open_messages {
            let pm: Option<ProtocolMessage> = serde_json::from_str(&om.protocol_message_json).ok();
            let message = pm.map(|p| p.to_message()).unwrap_or_default();
            self.open_messages.insert(om.id.clone(), (om.entity.clone(), message, om.is_certified || om.is_expired));
        }
        let live_ids: BTreeSet<&String> = open_messages.iter().map(|o| &o.id).collect();
        let gone: Vec<String> = self.open_messages.keys().filter(|id| !live_ids.contains(id)).cloned().collect();
        for id in gone {
            if let Some(e) = self.open_messages.get_mut(&id) {
                e.2 = true; // cleaned at epoch change: round closed
            }
        }

        // ---------------- new certificates
        let known: BTreeSet<String> = self.certs.iter().map(|c| c.hash.clone()).collect();
        let new: Vec<CertificateRow> = certs.iter().filter(|c| !known.contains(&c.hash)).cloned().collect();
        for c in &new {
            self.cert_seen_step.insert(c.hash.clone(), step);
            self.cert_genesis_vk.insert(c.hash.clone(), w.agg.settings.genesis_vk_hex.clone());
            self.certs.push(c.clone());
        }
        if self.is("C14") || self.is("C15") || self.is("C16") || self.is("C02") || self.is("C06") {
            // a stored certificate must never disappear or change
            for c in &self.certs.clone() {
                if !certs.iter().any(|x| x.hash == c.hash) {
                    self.report(step, "certificate-vanished", format!("certificate {} of epoch {} is no longer stored", short(&c.hash), c.epoch));
                }
            }
        }
        for c in &new {
            if c.is_genesis {
                continue;
            }
            self.probe("certificates_sealed");
            if let Some(e) = &c.entity {
                self.probe(&format!("certificates_sealed_{}", e.kind()));
            }
            if self.is("C14") {
                self.check_new_certificate_c14(w, c, &certs, step);
            }
            if self.is("C16") {
                self.check_certificate_signers_c16(w, c, step);
            }
            if self.is("C06") {
                self.check_avk_c06(w, c, step);
            }
            if self.is("C02")
                && let Some(entity) = c.entity.clone()
            {
                self.clerk_probe_c02(w, &entity, step);
            }
        }
        // C02: probe also rounds that close without a certificate (expired / superseded)
        if self.is("C02") {
            let closed_now: Vec<Entity> = self
                .open_messages
                .iter()
                .filter(|(_, v)| v.2)
                .map(|(_, v)| v.0.clone())
                .filter(|e| !self.probed.contains(e))
                .collect();
            for e in closed_now {
                self.clerk_probe_c02(w, &e, step);
            }
        }
        // C14-5 / C15-b: an entity certified twice, two artifacts for one entity
        if self.is("C14") || self.is("C15") {
            let mut by_entity: BTreeMap<&Entity, Vec<&CertificateRow>> = BTreeMap::new();
            for c in certs.iter().filter(|c| !c.is_genesis) {
                if let Some(e) = &c.entity {
                    by_entity.entry(e).or_default().push(c);
                }
            }
            for (e, cs) in by_entity {
                if cs.len() > 1 && self.is("C14") {
                    self.report(step, "certified-twice", format!("{} has {} certificates ({})", e.label(), cs.len(), cs.iter().map(|c| short(&c.hash)).collect::<Vec<_>>().join(", ")));
                }
            }
            let mut arts: BTreeMap<&Entity, usize> = BTreeMap::new();
            for s in &signed_entities {
                *arts.entry(&s.entity).or_default() += 1;
            }
            for (e, n) in arts {
                if n > 1 {
                    self.report(step, "two-artifacts", format!("{} has {n} signed-entity rows", e.label()));
                }
            }
        }
        // C15-c: every artifact references a stored certificate certifying exactly that entity
        if self.is("C15") || self.is("C14") {
            for s in &signed_entities {
                match certs.iter().find(|c| c.hash == s.certificate_id) {
                    None => self.report(step, "artifact-without-certificate", format!("signed entity {} references certificate {} which is not stored", s.entity.label(), short(&s.certificate_id))),
                    Some(c) if c.entity.as_ref() != Some(&s.entity) => self.report(step, "artifact-wrong-certificate", format!("signed entity {} references certificate {} which certifies {}", s.entity.label(), short(&c.hash), c.entity.as_ref().map(|e| e.label()).unwrap_or("genesis".into()))),
                    _ => {}
                }
            }
        }

        if self.is("C06") {
            self.check_client_path_c06(w, step);
        }
        if self.is("C20") {
            self.check_c20(w, &open_messages, step);
        }

        // ---------------- single-signature rows (C16)
        if self.is("C16") {
            self.check_suppression_c16(w, &open_messages, &sigs, step);
            self.check_rows_c16(w, &open_messages, &sigs, step);
        }

        // ---------------- bounded liveness after quiescence (C15-d)
        if w.liveness_markers > self.liveness_checked {
            self.liveness_checked = w.liveness_markers;
            if self.is("C15") {
                self.check_liveness(w, &certs, &open_messages, &sigs, step);
            }
        }

        // ---------------- chain verification under the client's verifier (C14-1, C15-a)
        if self.is("C14") || self.is("C15") {
            let after_restart = w.restarts_at.len() > self.restarts_checked;
            if after_restart {
                self.restarts_checked = w.restarts_at.len();
                self.verified.clear();
                self.probe("full_reverification_after_restart");
            }
            self.verify_chains(w, step);
        }
    }

    /// End of a quiescence phase (faults stopped; everything delivered; every party registered and
    /// signed whatever was open; the aggregator ticked at least `4 * (#types + 3)` times, the last
    /// five of them with nothing new arriving).
    ///  R1 (every phase): no open round may sit there with a quorum of *stored* valid signatures.
    ///  R2 (phases 2 and 3, i.e. epochs that lie entirely after the faults): every allowed entity
    ///      type is certified for this epoch — unless a round is legitimately waiting for a quorum
    ///      the registered stake did not reach, or the aggregator is blocked by an epoch gap that
    ///      such a quorum-less epoch left behind.
    fn check_liveness(
        &mut self,
        w: &World,
        certs: &[CertificateRow],
        open_messages: &[crate::db::OpenMessageRow],
        sigs: &[crate::db::SingleSignatureRow],
        step: usize,
    ) {
        let phase = w.liveness_markers;
        let e = w.epoch;
        let bound = 4 * (w.sc.entity_types.len() + 3);
        let signers = Self::model_signers(w, e, step);
        let pp = self.params(w, e);
        let last_error = w.last_tick.1.as_deref().map(crate::world::first_line).unwrap_or("none".into());
        // R1
        let mut waiting_without_quorum = false;
        // only the newest open round counts: an older uncertified one has been superseded
        for om in open_messages.iter().max_by_key(|o| o.rowid).filter(|o| !o.is_certified && !o.is_expired) {
            let message = self.open_messages.get(&om.id).map(|x| x.1.clone()).unwrap_or_default();
            let mut union: BTreeSet<u64> = BTreeSet::new();
            for s in sigs.iter().filter(|s| s.open_message_id == om.id) {
                let body = serde_json::json!({"signature": s.signature}).to_string();
                if let Some(ix) = self.delivered_valid_indexes(&pp, &signers, &s.signer_id, &body, &message) {
                    union.extend(ix.into_iter().filter(|i| *i < pp.m));
                }
            }
            // what the aggregator acknowledged as registered (201) for this very entity also counts:
            // a signer signs a beacon once, an acknowledged signature must not be lost
            let mut acknowledged: BTreeSet<u64> = BTreeSet::new();
            for d in &w.deliveries {
                if let MsgKind::Signature { entity, producer, .. } = &d.msg.kind
                    && *entity == om.entity
                    && d.status == 201
                {
                    let pid = w.parties[*producer].party_id.clone();
                    if let Some(ix) = self.delivered_valid_indexes(&pp, &signers, &pid, &d.body, &message) {
                        acknowledged.extend(ix.into_iter().filter(|i| *i < pp.m));
                    }
                }
            }
            if union.len() as u64 >= pp.k && om.entity.signing_epoch() == e {
                self.report(step, "no-progress-after-faults", format!(
                    "faults have stopped; the signatures stored for {} cover {} lottery indexes (k = {}), yet it is still not certified after at least {bound} further ticks (quiescence phase {phase}); state '{}', last tick error: {last_error}",
                    om.entity.label(), union.len(), pp.k, w.last_tick.0));
                return;
            }
            if acknowledged.len() as u64 >= pp.k && om.entity.signing_epoch() == e {
                self.report(step, "no-progress-after-faults", format!(
                    "faults have stopped; the aggregator acknowledged (201) signatures for {} covering {} lottery indexes (k = {}) but only {} are still stored and the round is not certified after at least {bound} further ticks (quiescence phase {phase}); state '{}', last tick error: {last_error}",
                    om.entity.label(), acknowledged.len(), pp.k, union.len(), w.last_tick.0));
                return;
            }
            waiting_without_quorum = true;
        }
        let mut kinds = vec!["MSD".to_string()];
        kinds.extend(w.sc.entity_types.iter().cloned());
        let certified: BTreeSet<&str> = certs.iter().filter_map(|c| c.entity.as_ref()).filter(|x| x.signing_epoch() == e).map(|x| x.kind()).collect();
        let missing: Vec<&String> = kinds.iter().filter(|k| !certified.contains(k.as_str())).collect();
        if missing.is_empty() {
            self.probe("liveness_epoch_fully_certified");
            self.liveness_excused = false;
            return;
        }
        if waiting_without_quorum {
            self.probe("liveness_round_waits_for_unreachable_quorum");
            self.liveness_excused = true;
            return;
        }
        if phase == 1 {
            // the epoch in which the faults happened: interrupted rounds may have been cut short
            // (expired, superseded); later epochs tell whether the aggregator recovers
            if certified.is_empty() {
                self.report(step, "no-progress-after-faults", format!(
                    "faults have stopped, all parties registered and sign, yet epoch {e} ends (quiescence phase 1, at least {bound} ticks) without any certificate and without any open round; state '{}', last tick error: {last_error}",
                    w.last_tick.0));
                return;
            }
            self.probe("liveness_fault_epoch_incomplete");
            self.liveness_excused = false;
            return;
        }
        if w.last_tick.0 == "blocked-epoch-gap" && self.liveness_excused {
            self.probe("liveness_blocked_by_quorumless_epoch");
            return;
        }
        self.report(step, "no-progress-after-faults", format!(
            "faults stopped before epoch {e} began, all parties registered and sign, yet at the end of quiescence phase {phase} epoch {e} has no certificate for {} and no round is open; state '{}', last tick error: {last_error}",
            missing.iter().map(|s| s.as_str()).collect::<Vec<_>>().join(", "), w.last_tick.0));
    }

    fn verify_chains(&mut self, w: &mut World, step: usize) {
        if !w.agg.is_up() {
            return;
        }
        let todo: Vec<CertificateRow> = self.certs.iter().filter(|c| !self.verified.contains(&c.hash)).cloned().collect();
        if todo.is_empty() {
            return;
        }
        let routes = w.agg.inner.as_ref().unwrap().routes.clone();
        let requester: Arc<dyn CertificateAggregatorRequest> = Arc::new(RouteRequester { routes });
        // a client is configured with the genesis verification key the operator publishes; each
        // certificate is judged under the key that was in the aggregator's configuration when it
        // was sealed (an operator who later puts another key in the configuration does not make
        // the aggregator responsible for what it sealed before)
        let default_vk = mithril_common::crypto_helper::GenesisSigner::create_deterministic_signer()
            .create_verifier()
            .to_ed25519_verification_key()
            .to_json_hex()
            .expect("genesis vk");
        let mut clients: BTreeMap<String, CertificateClient> = BTreeMap::new();
        for c in &todo {
            let vk = self.cert_genesis_vk.get(&c.hash).cloned().flatten().unwrap_or_else(|| default_vk.clone());
            if clients.contains_key(&vk) {
                continue;
            }
            let verifier = match MithrilCertificateVerifier::new(requester.clone(), &vk, FeedbackSender::new(&[]), None, crate::agg::logger()) {
                Ok(v) => Arc::new(v),
                Err(e) => {
                    self.report(step, "harness", format!("cannot build client verifier: {e:#}"));
                    return;
                }
            };
            clients.insert(vk, CertificateClient::new(requester.clone(), verifier, crate::agg::logger()));
        }
        for c in todo {
            let vk = self.cert_genesis_vk.get(&c.hash).cloned().flatten().unwrap_or_else(|| default_vk.clone());
            let client = &clients[&vk];
            let res = w.agg.block_on(client.verify_chain(&c.hash));
            self.probe("client_chain_verifications");
            match res {
                Ok(_) => {
                    self.verified.insert(c.hash.clone());
                }
                Err(e) => {
                    self.report(
                        step,
                        "chain-verify",
                        format!(
                            "stored certificate {} ({}, epoch {}) does not verify with its chain under the client verifier: {}",
                            short(&c.hash),
                            c.entity.as_ref().map(|e| e.label()).unwrap_or("genesis".into()),
                            c.epoch,
                            crate::world::first_line(&format!("{e:#}"))
                        ),
                    );
                    self.verified.insert(c.hash.clone());
                }
            }
        }
    }

    fn check_new_certificate_c14(&mut self, w: &World, c: &CertificateRow, all: &[CertificateRow], step: usize) {
        let Some(entity) = c.entity.clone() else {
            self.report(step, "harness", format!("certificate {} has an unreadable entity", short(&c.hash)));
            return;
        };
        let e = c.epoch;
        // -- C14-2 quorum recount
        let signers = Self::model_signers(w, entity.signing_epoch(), step);
        let pp = self.params(w, entity.signing_epoch());
        let registered: BTreeSet<&str> = signers.iter().map(|s| s.party_id.as_str()).collect();
        let mut union: BTreeSet<u64> = BTreeSet::new();
        let message = self.open_messages.values().find(|x| x.0 == entity).map(|x| x.1.clone()).unwrap_or_default();
        for d in &w.deliveries {
            if let MsgKind::Signature { entity: de, producer, producer_recording_epoch, .. } = &d.msg.kind
                && *de == entity
                && *producer_recording_epoch + 1 == entity.signing_epoch()
                && registered.contains(w.parties[*producer].party_id.as_str())
            {
                // what was actually delivered (possibly damaged in transit), judged under the
                // producer's registered key
                let producer_id = w.parties[*producer].party_id.clone();
                if let Some(indexes) = self.delivered_valid_indexes(&pp, &signers, &producer_id, &d.body, &message) {
                    union.extend(indexes.into_iter().filter(|i| *i < pp.m));
                }
            }
        }
        if (union.len() as u64) < pp.k {
            self.report(step, "quorum", format!(
                "certificate {} for {} was sealed although the signatures delivered for it by signers registered for epoch {} cover only {} distinct lottery indexes (k = {})",
                short(&c.hash), entity.label(), entity.signing_epoch(), union.len(), pp.k));
        }
        // -- C14-3 aggregate key and parameters in force
        match self.model_avk(w, e) {
            Some(model) => {
                if !Self::same_avk(&model, &c.aggregate_verification_key) {
                    self.report(step, "avk-in-force", format!(
                        "certificate {} of epoch {e} carries an aggregate verification key that is not the one derived from the registrations acknowledged for that epoch", short(&c.hash)));
                }
            }
            None => self.report(step, "avk-in-force", format!("certificate {} of epoch {e}: the model has no acknowledged registration for that epoch", short(&c.hash))),
        }
        // the parameters the aggregator published for the registration round of this epoch's
        // signers (epoch-settings index e - 1, first value seen); unknown index (never published
        // while the harness looked): the scenario's initial configuration
        let want = self.params(w, e);
        if e == 0 || !self.in_force.contains_key(&(e - 1)) {
            self.probe("parameters_in_force_unknown_index");
        }
        let cp: serde_json::Value = serde_json::from_str(&c.protocol_parameters_json).unwrap_or_default();
        if cp["k"].as_u64() != Some(want.k) || cp["m"].as_u64() != Some(want.m) || (cp["phi_f"].as_f64().unwrap_or(-1.0) - want.phi_f).abs() > 1e-9 {
            self.report(step, "parameters-in-force", format!("certificate {} of epoch {e} carries protocol parameters {} instead of the ones published for that epoch's signers: k={} m={} phi_f={}", short(&c.hash), c.protocol_parameters_json, want.k, want.m, want.phi_f));
        }
        if want != w.sc.parameters() {
            self.probe("certificate_under_reconfigured_parameters");
        }
        // -- C14-4 parent link
        let first_of = |epoch: u64| all.iter().filter(|x| x.epoch == epoch).min_by_key(|x| x.rowid);
        let expected_parent = match first_of(e) {
            Some(f) if f.hash != c.hash => Some(f),
            _ => {
                if e == 0 {
                    None
                } else {
                    first_of(e - 1)
                }
            }
        };
        match (expected_parent, &c.parent) {
            (Some(p), Some(actual)) if &p.hash == actual => {}
            (Some(p), actual) => self.report(step, "parent-link", format!(
                "certificate {} of epoch {e} links to {} instead of {} (first certificate of epoch {})",
                short(&c.hash), actual.as_deref().map(short).unwrap_or("nothing".into()), short(&p.hash), p.epoch)),
            (None, _) => self.report(step, "epoch-gap", format!(
                "certificate {} of epoch {e} was issued although no certificate exists for epoch {e} or {}", short(&c.hash), e.saturating_sub(1))),
        }
        // -- C14-6 gap: the certificate stored just before it must be of epoch e or e-1
        if let Some(prev) = all.iter().filter(|x| x.rowid < c.rowid).max_by_key(|x| x.rowid)
            && prev.epoch + 1 < e
        {
            self.report(step, "epoch-gap", format!(
                "certificate {} of epoch {e} follows a certificate of epoch {}: an epoch was skipped", short(&c.hash), prev.epoch));
        }
    }

    /// C06: three computation paths (aggregator, signer, client) and every arrival order of the
    /// registrations must give the same aggregate key / total stake / signer slots.
    fn check_avk_c06(&mut self, w: &mut World, c: &CertificateRow, step: usize) {
        let e = c.epoch;
        // (a) aggregator vs model (registrations acknowledged, in party order)
        if let Some(model) = self.model_avk(w, e)
            && !Self::same_avk(&model, &c.aggregate_verification_key)
        {
            self.report(step, "avk-differs-between-nodes", format!(
                "the aggregator's certificate {} of epoch {e} carries an aggregate key different from the one derived from the same registrations", short(&c.hash)));
        }
        if !self.c06_epochs_done.insert(e) {
            return;
        }
        // (b) signer path: the signer list as the aggregator publishes it (JSON in the loop, served
        // order), plus permutations of it
        let params = self.params(w, e);
        if w.view_epoch() == e
            && let Some((pe, current, next)) = w.published_signers()
            && pe == e
            && !current.is_empty()
        {
            let mut orders: Vec<Vec<SignerWithStake>> = vec![current.clone()];
            let mut rev = current.clone();
            rev.reverse();
            orders.push(rev);
            let mut r = sim_core::Rng::for_run(w.sc.seed, "c06-orders", w.sc.run * 97 + e);
            for _ in 0..3 {
                let mut p = current.clone();
                r.shuffle(&mut p);
                orders.push(p);
            }
            // round trip of the signer list through its JSON message form
            let parts = mithril_common::messages::SignerWithStakeMessagePart::from_signers(current.clone());
            if let Ok(text) = serde_json::to_string(&parts)
                && let Ok(back) = serde_json::from_str::<Vec<mithril_common::messages::SignerWithStakeMessagePart>>(&text)
                && let Ok(signers) = mithril_common::messages::SignerWithStakeMessagePart::try_into_signers(back)
            {
                orders.push(signers);
            }
            let mut total_stakes = BTreeSet::new();
            for (i, order) in orders.iter().enumerate() {
                self.probe("c06_signer_path_orders");
                match SignerBuilder::new(order, &params) {
                    Ok(b) => {
                        let avk = b.compute_aggregate_verification_key();
                        total_stakes.insert(avk.to_concatenation_aggregate_verification_key().get_total_stake());
                        let hex = avk_hex(&avk).unwrap_or_default();
                        if !Self::same_avk(&hex, &c.aggregate_verification_key) {
                            self.report(step, "avk-depends-on-order-or-path", format!(
                                "epoch {e}: the aggregate key a signer derives from the published signer list (ordering #{i}: 0 = as served, 1 = reversed, 2-4 = shuffled, 5 = after a JSON round trip) differs from the key in the aggregator's certificate {}", short(&c.hash)));
                        }
                    }
                    Err(err) => self.report(step, "avk-depends-on-order-or-path", format!("epoch {e}: ordering #{i} of the published signers is refused: {err:#}")),
                }
            }
            if total_stakes.len() > 1 {
                self.report(step, "total-stake-depends-on-order", format!("epoch {e}: total stake values {total_stakes:?}"));
            }
            // (b') a key-registration session that sees the arrivals as a duplicating network
            // delivers them: every registration at least once, some again later (refused as
            // already registered, the session goes on), in a seeded order
            {
                use mithril_common::crypto_helper::{ProtocolClerk, ProtocolKeyRegistration, ProtocolStakeDistribution, SignerRegistrationParameters};
                let mut r = sim_core::Rng::for_run(w.sc.seed, "c06-session", w.sc.run * 131 + e);
                for session_no in 0..3 {
                    let mut arrivals: Vec<SignerWithStake> = current.clone();
                    r.shuffle(&mut arrivals);
                    let firsts = arrivals.len();
                    for i in 0..firsts {
                        if r.chance(0.5) {
                            let again = arrivals[i].clone();
                            let at = i + 1 + r.index(arrivals.len() - i);
                            arrivals.insert(at.min(arrivals.len()), again);
                        }
                    }
                    let stake_distribution: ProtocolStakeDistribution = current.iter().map(|s| s.into()).collect();
                    let mut session = ProtocolKeyRegistration::init(&stake_distribution);
                    let mut refused = 0;
                    for s in &arrivals {
                        let res = session.register(SignerRegistrationParameters {
                            party_id: Some(s.party_id.clone()),
                            operational_certificate: s.operational_certificate.clone(),
                            verification_key_signature_for_concatenation: s.verification_key_signature_for_concatenation,
                            kes_evolutions: s.kes_evolutions,
                            verification_key_for_concatenation: s.verification_key_for_concatenation,
                        });
                        if res.is_err() {
                            refused += 1;
                        }
                    }
                    self.probe("c06_registration_sessions");
                    if refused > 0 {
                        self.probe("c06_registration_sessions_with_refused_duplicates");
                    }
                    if refused != arrivals.len() - firsts {
                        self.report(step, "avk-depends-on-order-or-path", format!("epoch {e}: a key-registration session refused {refused} of {} arrivals, {} of them were repeats", arrivals.len(), arrivals.len() - firsts));
                        continue;
                    }
                    let stm_params: mithril_common::crypto_helper::ProtocolParameters = params.clone().into();
                    match session.close(&stm_params) {
                        Ok(closed) => {
                            let avk = ProtocolClerk::new_clerk_from_closed_key_registration(&stm_params, &closed).compute_aggregate_verification_key();
                            total_stakes.insert(avk.to_concatenation_aggregate_verification_key().get_total_stake());
                            let hex = avk_hex(&avk.into()).unwrap_or_default();
                            if !Self::same_avk(&hex, &c.aggregate_verification_key) {
                                self.report(step, "avk-depends-on-arrival-history", format!(
                                    "epoch {e}: a key-registration session that received the same registrations in another order with {refused} repeated (refused) arrivals (session #{session_no}) closes on an aggregate key different from the one in the aggregator's certificate {}", short(&c.hash)));
                            }
                        }
                        Err(err) => self.report(step, "avk-depends-on-arrival-history", format!("epoch {e}: key-registration session does not close: {err:#}")),
                    }
                }
                if total_stakes.len() > 1 {
                    self.report(step, "total-stake-depends-on-order", format!("epoch {e}: total stake values {total_stakes:?} (signer paths and key-registration sessions with repeated arrivals)"));
                }
            }
            // signer slot of each party: the same under two arrival orders
            let message = "c06-slot-probe".to_string();
            for party in 0..w.parties.len() {
                let Some(key) = Self::key_in_force(w, party, e - 1, step).cloned() else { continue };
                let slots: Vec<Option<u64>> = orders[..2]
                    .iter()
                    .map(|order| {
                        SignerBuilder::new(order, &params)
                            .ok()
                            .and_then(|b| b.restore_signer_from_initializer(key.signer.party_id.clone(), key.initializer.clone()).ok())
                            .and_then(|s| s.sign(&message).ok().flatten())
                            .map(|sig| sig.to_protocol_signature().signer_index)
                    })
                    .collect();
                if slots[0].is_some() && slots[1].is_some() && slots[0] != slots[1] {
                    self.report(step, "signer-slot-depends-on-order", format!("epoch {e}: party {party} gets signer slot {:?} or {:?} depending on the order of the signer list", slots[0], slots[1]));
                }
                self.probe("c06_slot_probes");
            }
            // (b'') a (key, stake) pair that is not in the registration has no slot: the party's own
            // key material with another stake (what a node with a lagging or re-read stake
            // distribution holds) is either refused, or - if it is given a signer - whatever that
            // signer produces verifies under the registered pair
            for party in 0..w.parties.len() {
                let Some(key) = Self::key_in_force(w, party, e - 1, step).cloned() else { continue };
                let Ok(mut v) = serde_json::to_value(&key.initializer) else { continue };
                fn bump_stake(v: &mut serde_json::Value) -> bool {
                    match v {
                        serde_json::Value::Object(m) => {
                            let mut done = false;
                            for (k, x) in m.iter_mut() {
                                if k == "stake" && x.is_u64() {
                                    *x = serde_json::json!(x.as_u64().unwrap() * 50 + 7);
                                    done = true;
                                } else {
                                    done |= bump_stake(x);
                                }
                            }
                            done
                        }
                        serde_json::Value::Array(a) => a.iter_mut().any(bump_stake),
                        _ => false,
                    }
                }
                if !bump_stake(&mut v) {
                    self.probe("c06_other_stake_probe_not_applicable");
                    continue;
                }
                let Ok(altered) = serde_json::from_value::<mithril_common::crypto_helper::ProtocolInitializer>(v) else { continue };
                self.probe("c06_other_stake_probes");
                let Ok(builder) = SignerBuilder::new(&current, &params) else { continue };
                if let Ok(signer) = builder.restore_signer_from_initializer(key.signer.party_id.clone(), altered) {
                    self.probe("c06_other_stake_given_a_signer");
                    for n in 0..4 {
                        let message = format!("c06-other-stake-probe-{n}");
                        if let Ok(Some(sig)) = signer.sign(&message) {
                            let hex: String = sig.signature.clone().try_into().unwrap_or_default();
                            if let Err(why) = Self::verify_under_key(&params, &current, &key.signer.party_id, &hex, &[], &message) {
                                self.report(step, "signer-slot-for-unregistered-pair", format!(
                                    "epoch {e}: party {party}'s key with a stake other than the registered one is given signer slot {} and signs, but what it signs does not verify under the registered (key, stake) pair: {}",
                                    sig.to_protocol_signature().signer_index, crate::world::first_line(&why)));
                                break;
                            }
                        }
                    }
                }
            }
            // (c) distinct registration sets give distinct keys (next epoch's set vs this one's)
            if !next.is_empty()
                && let Ok(b) = SignerBuilder::new(&next, &params)
            {
                let next_hex = avk_hex(&b.compute_aggregate_verification_key()).unwrap_or_default();
                let same_set = {
                    let a: BTreeSet<(String, u64)> = current.iter().map(|s| (s.verification_key_for_concatenation.to_json_hex().unwrap_or_default(), s.stake)).collect();
                    let b: BTreeSet<(String, u64)> = next.iter().map(|s| (s.verification_key_for_concatenation.to_json_hex().unwrap_or_default(), s.stake)).collect();
                    a == b
                };
                if !same_set && Self::same_avk(&next_hex, &c.aggregate_verification_key) {
                    self.report(step, "distinct-sets-same-avk", format!("epochs {e} and {} have different registration sets but the same aggregate key", e + 1));
                }
                self.avk_by_epoch.insert(e + 1, next_hex);
            }
        }
        self.avk_by_epoch.insert(e, c.aggregate_verification_key.clone());
    }

    /// C06 client path: the stake-distribution artifact downloaded as JSON, re-computed by the
    /// client's MessageBuilder, must reproduce the message signed in its certificate.
    fn check_client_path_c06(&mut self, w: &mut World, step: usize) {
        if !w.agg.is_up() {
            return;
        }
        let Some(db) = w.db() else { return };
        for se in db.signed_entities() {
            let Entity::Msd(_) = se.entity else { continue };
            if !self.c06_artifacts_done.insert(se.id.clone()) {
                continue;
            }
            let (s1, artifact) = w.agg.http("GET", &format!("/aggregator/artifact/mithril-stake-distribution/{}", se.id), None);
            let (s2, cert) = w.agg.http("GET", &format!("/aggregator/certificate/{}", se.certificate_id), None);
            if s1 != 200 || s2 != 200 {
                continue;
            }
            let (Ok(msd), Ok(cert)) = (
                serde_json::from_str::<mithril_client::MithrilStakeDistribution>(&artifact),
                serde_json::from_str::<mithril_client::MithrilCertificate>(&cert),
            ) else {
                self.report(step, "client-cannot-decode", format!("the client cannot decode the stake distribution artifact {} or its certificate", short(&se.id)));
                continue;
            };
            self.probe("c06_client_path_recomputations");
            match mithril_client::MessageBuilder::new().compute_mithril_stake_distribution_message(&cert, &msd) {
                Ok(message) => {
                    if !cert.match_message(&message) {
                        self.report(step, "client-avk-differs", format!(
                            "the aggregate key the client re-computes from the downloaded stake distribution {} does not reproduce the message signed in certificate {}", se.entity.label(), short(&cert.hash)));
                    }
                }
                Err(e) => self.report(step, "client-avk-differs", format!("the client cannot re-compute the stake distribution message: {e:#}")),
            }
        }
    }

    /// Lottery indexes of the signature carried by a delivered `register-signatures` body, if that
    /// signature verifies for `message` under the key `party_id` registered; `None` otherwise.
    fn delivered_valid_indexes(&mut self, pp: &mithril_common::entities::ProtocolParameters, signers: &[SignerWithStake], party_id: &str, body: &str, message: &str) -> Option<Vec<u64>> {
        let v: serde_json::Value = serde_json::from_str(body).ok()?;
        let sig_hex = v["signature"].as_str()?.to_string();
        let key = (sig_hex.clone(), party_id.to_string(), message.to_string());
        if let Some(r) = self.sig_cache.get(&key) {
            return r.clone();
        }
        let r = match Self::verify_under_key(pp, signers, party_id, &sig_hex, &[], message) {
            Ok(()) => {
                let sig: Option<ProtocolSingleSignature> = sig_hex.clone().try_into().ok();
                sig.map(|s| s.get_concatenation_signature_indices())
            }
            Err(_) => None,
        };
        self.sig_cache.insert(key, r.clone());
        r
    }

    // ---------------------------------------------------------------- C02

    /// Clerk probe: everything the network delivered for this round (every copy, every damaged
    /// body that still decodes, signatures for other messages), in delivery order, handed as it
    /// stands to the real aggregation entry point built from the same closed registration —
    /// for every prefix of the delivery log.
    fn clerk_probe_c02(&mut self, w: &World, entity: &Entity, step: usize) {
        use mithril_common::entities::SingleSignature;
        if !self.probed.insert(entity.clone()) {
            return;
        }
        let Some(message) = self.open_messages.values().find(|x| x.0 == *entity).map(|x| x.1.clone()) else { return };
        let signers = Self::model_signers(w, entity.signing_epoch(), step);
        if signers.is_empty() {
            return;
        }
        let pp = self.params(w, entity.signing_epoch());
        let Ok(builder) = SignerBuilder::new(&signers, &pp) else { return };
        let multi = builder.build_multi_signer();
        let avk = builder.compute_aggregate_verification_key();
        let params: mithril_common::crypto_helper::ProtocolParameters = pp.clone().into();
        // the delivery log of this round (+ what arrived for other messages meanwhile)
        struct Item {
            sig: SingleSignature,
            valid: Option<Vec<u64>>,
            what: String,
        }
        let mut log: Vec<Item> = vec![];
        let first_step = w.deliveries.iter().find(|d| matches!(&d.msg.kind, MsgKind::Signature { entity: e, .. } if e == entity)).map(|d| d.step).unwrap_or(usize::MAX);
        for d in &w.deliveries {
            if d.step < first_step || log.len() >= 18 {
                continue;
            }
            let MsgKind::Signature { entity: de, producer, .. } = &d.msg.kind else { continue };
            let Ok(v) = serde_json::from_str::<serde_json::Value>(&d.body) else { continue };
            let (Some(party), Some(sig_hex)) = (v["party_id"].as_str(), v["signature"].as_str()) else { continue };
            let Ok(psig): Result<ProtocolSingleSignature, _> = sig_hex.to_string().try_into() else { continue };
            let indexes: Vec<u64> = v["indexes"].as_array().map(|a| a.iter().filter_map(|x| x.as_u64()).collect()).unwrap_or_default();
            let producer_id = w.parties[*producer].party_id.clone();
            let valid = if de == entity { self.delivered_valid_indexes(&pp, &signers, &producer_id, &d.body, &message) } else { None };
            // completeness: an honest, undamaged signature of a registered signer verifies
            if de == entity
                && !d.damaged
                && valid.is_none()
                && signers.iter().any(|s| s.party_id == producer_id)
                && matches!(&d.msg.kind, MsgKind::Signature { producer_recording_epoch, .. } if *producer_recording_epoch + 1 == entity.signing_epoch())
                // a party that could not ask the aggregator when it registered (down, or the
                // round's parameters not published yet) and fell back on parameters that were
                // replaced meanwhile is not an honest signer of this round
                && Self::key_in_force(w, *producer, entity.signing_epoch() - 1, step).is_some_and(|k| k.parameters == pp)
            {
                self.report(step, "honest-signature-rejected", format!("a signature produced by registered party {} for {} does not verify under its registered key", short(&producer_id), entity.label()));
            }
            log.push(Item {
                sig: SingleSignature::new(party.to_string(), psig, indexes),
                valid: valid.map(|i| i.into_iter().filter(|x| *x < pp.m).collect()),
                what: format!("{}{}{}", short(&producer_id), if d.damaged { "~damaged" } else { "" }, if de != entity { "~other-message" } else { "" }),
            });
        }
        if log.is_empty() {
            return;
        }
        self.probe("clerk_probes");
        let aggregate = |items: &[&Item]| -> Result<bool, String> {
            let sigs: Vec<SingleSignature> = items.iter().map(|i| i.sig.clone()).collect();
            let input = mithril_stm::AncillaryProofInput::new(None, mithril_stm::AncillaryGenesisData::new());
            match multi.aggregate_single_signatures(&sigs, &message, mithril_common::AggregateSignatureType::Concatenation, input) {
                Ok(res) => Ok(res.multi_signature.verify(message.as_bytes(), &avk, &params, None, None).is_ok()),
                Err(e) => Err(crate::world::first_line(&format!("{e:#}"))),
            }
        };
        let mut succeeded_at: Option<usize> = None;
        for p in 1..=log.len() {
            let items: Vec<&Item> = log[..p].iter().collect();
            let mut union: BTreeSet<u64> = BTreeSet::new();
            for i in &items {
                if let Some(v) = &i.valid {
                    union.extend(v.iter().copied());
                }
            }
            let res = aggregate(&items);
            self.probe("clerk_probe_aggregations");
            let describe = || items.iter().map(|i| i.what.clone()).collect::<Vec<_>>().join(" ");
            match &res {
                Ok(true) => {
                    if succeeded_at.is_none() {
                        succeeded_at = Some(p);
                    }
                }
                Ok(false) => {
                    self.report(step, "aggregate-does-not-verify", format!("aggregation over the first {p} deliveries for {} succeeded but its result does not verify [{}]", entity.label(), describe()));
                }
                Err(e) => {
                    if union.len() as u64 >= pp.k {
                        self.report(step, "quorum-but-aggregation-fails", format!(
                            "the valid signatures among the first {p} deliveries for {} cover {} distinct lottery indexes (k = {}) but aggregation fails: {e} [{}]",
                            entity.label(), union.len(), pp.k, describe()));
                    }
                    if let Some(q) = succeeded_at {
                        self.report(step, "more-material-breaks-aggregation", format!(
                            "aggregation for {} succeeded over the first {q} deliveries and fails over the first {p}: {e} [{}]", entity.label(), describe()));
                    }
                }
            }
        }
        // order independence at the full log (seeded permutation)
        let mut order: Vec<usize> = (0..log.len()).collect();
        let mut r = sim_core::Rng::for_run(w.sc.seed, "c02-permutation", w.sc.run * 131 + step as u64);
        r.shuffle(&mut order);
        let full: Vec<&Item> = log.iter().collect();
        let permuted: Vec<&Item> = order.iter().map(|i| &log[*i]).collect();
        let (a, b) = (aggregate(&full), aggregate(&permuted));
        if a.is_ok() != b.is_ok() || (a.as_ref().ok() != b.as_ref().ok()) {
            self.report(step, "order-dependent-aggregation", format!("aggregation for {} gives {:?} in delivery order and {:?} in another order of the same deliveries", entity.label(), a, b));
        }
        if log.iter().any(|i| i.what.contains('~')) || log.len() > log.iter().map(|i| i.sig.signature.to_json_hex().unwrap_or_default()).collect::<BTreeSet<_>>().len() {
            self.probe("clerk_probe_with_extra_material");
        }

        // Re-encodings and corruptions a relay can apply to what was delivered (the quantifier's
        // "index-subset restriction" and "corruption"), derived from this very delivery log:
        //  (a) every valid signature arrives as several copies, each claiming only a part of the
        //      indexes it won (partition or overlapping cover), in a seeded order;
        //  (b) after the genuine log, copies of valid signatures claiming an index they did not win.
        let reencode = |item: &Item, keep: &[u64]| -> Option<Item> {
            let mut inner = item.sig.signature.clone().into_inner();
            inner.set_concatenation_signature_indices(keep);
            Some(Item {
                sig: SingleSignature::new(item.sig.party_id.clone(), ProtocolSingleSignature::new(inner), keep.to_vec()),
                valid: item.valid.as_ref().map(|v| v.iter().copied().filter(|i| keep.contains(i)).collect()),
                what: format!("{}~part", item.what),
            })
        };
        let mut full_union: BTreeSet<u64> = BTreeSet::new();
        for i in &log {
            if let Some(v) = &i.valid {
                full_union.extend(v.iter().copied());
            }
        }
        // (a)
        let mut parts: Vec<Item> = vec![];
        for item in log.iter().filter(|i| i.valid.as_ref().is_some_and(|v| v.len() >= 2)) {
            let won = item.sig.signature.get_concatenation_signature_indices();
            let n_parts = 2 + r.index(2);
            let overlapping = r.chance(0.5);
            for p in 0..n_parts {
                let mut keep: Vec<u64> = won.iter().copied().enumerate().filter(|(j, _)| j % n_parts == p).map(|(_, x)| x).collect();
                if overlapping && !won.is_empty() {
                    keep.push(won[r.index(won.len())]);
                    keep.sort_unstable();
                    keep.dedup();
                }
                if !keep.is_empty()
                    && let Some(it) = reencode(item, &keep)
                {
                    parts.push(it);
                }
            }
        }
        if !parts.is_empty() {
            // signatures that were not split stay as they are
            for item in log.iter().filter(|i| !i.valid.as_ref().is_some_and(|v| v.len() >= 2)) {
                parts.push(Item { sig: item.sig.clone(), valid: item.valid.clone(), what: item.what.clone() });
            }
            r.shuffle(&mut parts);
            let items: Vec<&Item> = parts.iter().collect();
            let res = aggregate(&items);
            self.probe("clerk_probe_split_copies");
            let describe = items.iter().map(|i| format!("{}{:?}", i.what, i.sig.won_indexes)).collect::<Vec<_>>().join(" ");
            match res {
                Ok(true) => {}
                Ok(false) => self.report(step, "aggregate-does-not-verify", format!("aggregation over index-restricted copies for {} succeeded but its result does not verify [{describe}]", entity.label())),
                Err(e) => {
                    if full_union.len() as u64 >= pp.k {
                        self.report(step, "quorum-but-aggregation-fails", format!(
                            "index-restricted copies of the delivered signatures for {} cover {} distinct lottery indexes (k = {}) but aggregation fails: {e} [{describe}]",
                            entity.label(), full_union.len(), pp.k));
                    }
                }
            }
        }
        // (c) copies that list some of their (really won) indexes twice, delivered before everything
        // else: every listed index is a win, the copies verify, nothing else changes
        {
            let mut with_repeats: Vec<Item> = vec![];
            for item in log.iter().filter(|i| i.valid.as_ref().is_some_and(|v| !v.is_empty())).take(4) {
                let won = item.sig.signature.get_concatenation_signature_indices();
                let mut listed: Vec<u64> = vec![];
                for (j, i) in won.iter().enumerate() {
                    listed.push(*i);
                    if j == 0 || r.chance(0.5) {
                        listed.push(*i);
                    }
                }
                if let Some(mut it) = reencode(item, &listed) {
                    let hex = it.sig.signature.to_json_hex().unwrap_or_default();
                    if Self::verify_under_key(&pp, &signers, &it.sig.party_id, &hex, &[], &message).is_err() {
                        // the library refuses repeated indexes: such a copy is plain invalid material
                        self.probe("clerk_probe_repeated_index_copy_does_not_verify");
                        it.valid = None;
                    }
                    it.what = format!("{}~repeated-indexes", item.what);
                    with_repeats.push(it);
                }
            }
            if !with_repeats.is_empty() {
                for item in log.iter() {
                    with_repeats.push(Item { sig: item.sig.clone(), valid: item.valid.clone(), what: item.what.clone() });
                }
                let items: Vec<&Item> = with_repeats.iter().collect();
                let res = aggregate(&items);
                self.probe("clerk_probe_repeated_index_copies");
                let describe = items.iter().take(6).map(|i| format!("{}{:?}", i.what, i.sig.won_indexes)).collect::<Vec<_>>().join(" ");
                match res {
                    Ok(true) => {}
                    Ok(false) => self.report(step, "aggregate-does-not-verify", format!("aggregation for {} with copies listing indexes twice succeeded but its result does not verify [{describe} ...]", entity.label())),
                    Err(e) => {
                        if full_union.len() as u64 >= pp.k {
                            self.report(step, "quorum-but-aggregation-fails", format!(
                                "the delivered signatures for {} cover {} distinct lottery indexes (k = {}); with copies of them that list some indexes twice delivered first, aggregation fails: {e} [{describe} ...]",
                                entity.label(), full_union.len(), pp.k));
                        }
                    }
                }
            }
        }
        // (d) material that is invalid for this message but wears the index list of a valid
        // signature: signatures the same registered parties made for *other* messages of the epoch
        // (public on the network), re-labelled with the indexes an honest signature won, delivered
        // first. They do not verify; nothing may change.
        {
            let mut foreign: Vec<Item> = vec![];
            let honest: Vec<&Item> = log.iter().filter(|i| i.valid.as_ref().is_some_and(|v| !v.is_empty())).collect();
            if !honest.is_empty() {
                for d in w.deliveries.iter() {
                    if foreign.len() >= 4 {
                        break;
                    }
                    let MsgKind::Signature { entity: de, producer_recording_epoch, .. } = &d.msg.kind else { continue };
                    if de == entity || *producer_recording_epoch + 1 != entity.signing_epoch() || d.damaged {
                        continue;
                    }
                    let Ok(v) = serde_json::from_str::<serde_json::Value>(&d.body) else { continue };
                    let (Some(party), Some(sig_hex)) = (v["party_id"].as_str(), v["signature"].as_str()) else { continue };
                    let Ok(psig): Result<ProtocolSingleSignature, _> = sig_hex.to_string().try_into() else { continue };
                    let target = honest[r.index(honest.len())];
                    let wear = target.sig.signature.get_concatenation_signature_indices();
                    let mut inner = psig.into_inner();
                    inner.set_concatenation_signature_indices(&wear);
                    let relabelled = ProtocolSingleSignature::new(inner);
                    let hex = relabelled.to_json_hex().unwrap_or_default();
                    if Self::verify_under_key(&pp, &signers, party, &hex, &[], &message).is_ok() {
                        continue; // (cannot happen for another message; would be valid material)
                    }
                    foreign.push(Item {
                        sig: SingleSignature::new(party.to_string(), relabelled, wear.clone()),
                        valid: None,
                        what: format!("{}~other-message-wearing-indexes-of-{}", short(party), target.what),
                    });
                }
            }
            if !foreign.is_empty() {
                for item in log.iter() {
                    foreign.push(Item { sig: item.sig.clone(), valid: item.valid.clone(), what: item.what.clone() });
                }
                let items: Vec<&Item> = foreign.iter().collect();
                let res = aggregate(&items);
                self.probe("clerk_probe_foreign_material_wearing_valid_indexes");
                match res {
                    Ok(true) => {}
                    Ok(false) => self.report(step, "aggregate-does-not-verify", format!("aggregation for {} with re-labelled signatures of other messages delivered first succeeded but its result does not verify", entity.label())),
                    Err(e) => {
                        if full_union.len() as u64 >= pp.k {
                            self.report(step, "quorum-but-aggregation-fails", format!(
                                "the delivered signatures for {} cover {} distinct lottery indexes (k = {}); with signatures of other messages re-labelled with the indexes of valid ones delivered first (they do not verify), aggregation fails: {e}",
                                entity.label(), full_union.len(), pp.k));
                        }
                    }
                }
            }
        }
        // (b)
        let genuine_ok = aggregate(&full);
        let mut with_bogus: Vec<Item> = log.iter().map(|i| Item { sig: i.sig.clone(), valid: i.valid.clone(), what: i.what.clone() }).collect();
        let mut added = 0;
        for item in log.iter().filter(|i| i.valid.as_ref().is_some_and(|v| !v.is_empty())).take(3) {
            let won = item.sig.signature.get_concatenation_signature_indices();
            let Some(extra) = (0..pp.m).find(|x| !won.contains(x)) else { continue };
            let mut keep = won.clone();
            keep.push(extra);
            keep.sort_unstable();
            if let Some(mut it) = reencode(item, &keep) {
                // the delivered signature may itself have claimed only a part of its wins: the copy
                // is invalid material only if it really does not verify
                let hex = it.sig.signature.to_json_hex().unwrap_or_default();
                if Self::verify_under_key(&pp, &signers, &it.sig.party_id, &hex, &[], &message).is_ok() {
                    continue;
                }
                it.valid = None;
                it.what = format!("{}~bogus-index", item.what);
                with_bogus.push(it);
                added += 1;
            }
        }
        if added > 0 {
            let items: Vec<&Item> = with_bogus.iter().collect();
            let res = aggregate(&items);
            self.probe("clerk_probe_bogus_index_copies");
            match (&genuine_ok, &res) {
                (Ok(true), Ok(true)) | (Err(_), Err(_)) => {}
                (Ok(true), Ok(false)) => self.report(step, "aggregate-does-not-verify", format!("adding copies that claim a lottery index they did not win makes the aggregate for {} unverifiable", entity.label())),
                (Ok(true), Err(e)) => self.report(step, "more-material-breaks-aggregation", format!("adding copies that claim a lottery index they did not win makes the aggregation for {} fail: {e}", entity.label())),
                (Err(_), Ok(v)) => {
                    if full_union.len() as u64 >= pp.k && *v {
                        // fine: quorum was there
                    } else {
                        self.report(step, "aggregation-without-quorum", format!("aggregation for {} fails on the genuine deliveries and succeeds (verifies: {v}) once copies claiming un-won indexes are added", entity.label()));
                    }
                }
                _ => {}
            }
        }
    }

    // ---------------------------------------------------------------- C16

    fn verify_under_key(pp: &mithril_common::entities::ProtocolParameters, signers: &[SignerWithStake], party_id: &str, signature_hex: &str, indexes: &[u64], message: &str) -> Result<(), String> {
        let Some(me) = signers.iter().find(|s| s.party_id == party_id) else {
            return Err(format!("party {} has no key registered for that epoch", short(party_id)));
        };
        let builder = SignerBuilder::new(signers, pp).map_err(|e| format!("{e:#}"))?;
        let avk = builder.compute_aggregate_verification_key();
        let sig: ProtocolSingleSignature = signature_hex.to_string().try_into().map_err(|e| format!("undecodable signature: {e:#}"))?;
        let _ = indexes;
        let params: mithril_common::crypto_helper::ProtocolParameters = pp.clone().into();
        let vk = me.verification_key_for_concatenation.to_owned().into_inner().vk;
        sig.verify(&params, &vk, &me.stake, &avk, message.as_bytes())
        .map_err(|e| format!("{e:#}"))
    }

    /// (iv) nobody can make another party's contribution disappear: an honest, undamaged signature
    /// of a party registered for the epoch, delivered (HTTP or message queue) while its round is
    /// open at an aggregator working in that epoch, is recorded under that party — whatever
    /// other parties submitted before.
    fn check_suppression_c16(&mut self, w: &World, oms: &[crate::db::OpenMessageRow], sigs: &[crate::db::SingleSignatureRow], step: usize) {
        // (v) a buffered honest signature is recorded when its round opens
        let new_oms: Vec<&crate::db::OpenMessageRow> = oms.iter().filter(|o| !self.c16_open_seen.contains(&o.id)).collect();
        for om in &new_oms {
            let pending = std::mem::take(&mut self.c16_early);
            for (msg_id, producer, entity, signed_message, signature_hex, delivery_step, foreign_around, early_dedup_trigger) in pending {
                if entity.kind() != om.entity.kind() {
                    self.c16_early.push((msg_id, producer, entity, signed_message, signature_hex, delivery_step, foreign_around, early_dedup_trigger));
                    continue;
                }
                let message = serde_json::from_str::<ProtocolMessage>(&om.protocol_message_json).map(|p| p.to_message()).unwrap_or_default();
                let party_id = w.parties[producer].party_id.clone();
                let signers = Self::model_signers(w, entity.signing_epoch(), step);
                let pp = self.params(w, entity.signing_epoch());
                // another round of that type opened first, another message, a restart in between
                // (a freshly restarted aggregator has no signer set when it hands the buffer over),
                // or not an honest signer of this round: not judged
                let restarted_since = w.restarts_at.iter().any(|r| *r >= delivery_step);
                if om.entity != entity
                    || message != signed_message
                    || restarted_since
                    || !signers.iter().any(|s| s.party_id == party_id)
                    || Self::verify_under_key(&pp, &signers, &party_id, &signature_hex, &[], &message).is_err()
                {
                    self.probe("c16_buffered_delivery_not_judged");
                    continue;
                }
                self.probe("c16_buffered_deliveries_judged");
                if sigs.iter().any(|s| s.open_message_id == om.id && s.signer_id == party_id) {
                    continue;
                }
                self.known_hits.push(KnownHit {
                    finding: "C16-dmq-dedup-ignores-sender".into(),
                    clause: "buffered-contribution-lost".into(),
                    detail: format!(
                        "the valid signature of registered party {} for {} was delivered at step {delivery_step} before the round opened (buffered); the round is open now and the signature is not recorded",
                        short(&party_id), entity.label()),
                    step,
                    msg_id,
                    producer,
                    dedup_trigger: early_dedup_trigger,
                    foreign_copy_before: foreign_around,
                });
            }
        }
        for om in oms {
            self.c16_open_seen.insert(om.id.clone());
        }
        let from = self.c16_deliveries_seen;
        self.c16_deliveries_seen = w.deliveries.len();
        for (di, d) in w.deliveries.iter().enumerate().skip(from) {
            let MsgKind::Signature { entity, producer, producer_recording_epoch, claimed, forged: None, signed_message, signature_hex, .. } = &d.msg.kind else { continue };
            let party_id = w.parties[*producer].party_id.clone();
            if d.damaged || *claimed != party_id || *producer_recording_epoch + 1 != entity.signing_epoch() || d.agg_epoch_view != entity.signing_epoch() {
                continue;
            }
            // delivered before its round opened: the aggregator buffers it (HTTP 202, or silently on
            // the message queue); remembered until the next round of that entity type opens
            if !oms.iter().any(|o| o.entity.kind() == entity.kind() && !o.is_certified && !o.is_expired)
                && !oms.iter().any(|o| o.entity == *entity)
                && matches!(d.status, 0 | 202)
            {
                let foreign_around = d.batch_junk
                    || w.deliveries.iter().any(|x| matches!(&x.msg.kind, MsgKind::Signature { signature_hex: h, claimed: c, .. } if h == signature_hex && *c != party_id));
                // trigger of the known finding C16-dmq-dedup-ignores-sender, as below
                let last_start = w.restarts_at.iter().rev().find(|s| **s <= d.step).copied().unwrap_or(0);
                let early_dedup_trigger = d.status == 0
                    && w.deliveries[..di].iter().any(|x| {
                        x.step > last_start
                            && x.status == 0
                            && matches!(&x.msg.kind, MsgKind::Signature { signature_hex: h, entity: e, claimed: c, .. } if h == signature_hex && e == entity && *c != party_id)
                    });
                self.c16_early.push((d.msg.id, *producer, entity.clone(), signed_message.clone(), signature_hex.clone(), d.step, foreign_around, early_dedup_trigger));
                self.probe("c16_honest_deliveries_before_round_opened");
                continue;
            }
            // the round was open before the delivery and still is
            let Some(om) = oms.iter().find(|o| o.entity == *entity && !o.is_certified && !o.is_expired) else { continue };
            let Some((_, message, closed_before)) = self.open_messages.get(&om.id).cloned() else { continue };
            if closed_before || message != *signed_message {
                continue;
            }
            let signers = Self::model_signers(w, entity.signing_epoch(), d.step);
            let pp = self.params(w, entity.signing_epoch());
            if !signers.iter().any(|s| s.party_id == party_id)
                || Self::key_in_force(w, *producer, *producer_recording_epoch, d.step).is_none_or(|k| k.parameters != pp)
                || Self::verify_under_key(&pp, &signers, &party_id, signature_hex, &[], &message).is_err()
            {
                continue;
            }
            self.probe("c16_honest_deliveries_to_open_round");
            if sigs.iter().any(|s| s.open_message_id == om.id && s.signer_id == party_id) {
                continue;
            }
            // an aggregator that has just been restarted has not derived its signer set yet
            let last_restart = w.restarts_at.last().copied().unwrap_or(0);
            let ticked_since = w.tick_log.iter().rev().take_while(|t| t.0 > last_restart).filter(|t| t.1 != "idle" || t.2.is_none()).count();
            if ticked_since < 2 {
                self.probe("c16_refused_by_freshly_restarted_aggregator");
                continue;
            }
            // (earlier in the log: an earlier event, or an earlier position in the same batch)
            let same_payload_before: Vec<String> = w.deliveries[..di]
                .iter()
                .filter_map(|x| match &x.msg.kind {
                    MsgKind::Signature { signature_hex: h, claimed: c, .. } if h == signature_hex && *c != party_id => Some(format!("{} at step {} ({})", short(c), x.step, if x.status == 0 { "message queue".into() } else { format!("HTTP {}", x.status) })),
                    _ => None,
                })
                .collect();
            // known finding C16-dmq-dedup-ignores-sender: the repository's deduplicating DMQ client
            // keys messages by payload only; the same payload delivered earlier through the
            // message queue under another name (since the aggregator last started: the cache is in
            // memory) makes it drop this one
            let last_start = w.restarts_at.iter().rev().find(|s| **s <= d.step).copied().unwrap_or(0);
            let dedup_trigger = d.status == 0
                && w.deliveries[..di].iter().any(|x| {
                    x.step > last_start
                        && x.status == 0
                        && matches!(&x.msg.kind, MsgKind::Signature { signature_hex: h, entity: e, claimed: c, .. } if h == signature_hex && e == entity && *c != party_id)
                });
            // The statement is about what *other parties' submissions* can do to this party's
            // contribution. Whether they caused it is decided by the engine with counterfactual
            // re-runs (same history without the foreign material; then, for the known finding,
            // without the deduplicating client): here the suspect is recorded and the run goes on.
            self.probe("c16_honest_delivery_not_recorded");
            self.known_hits.push(KnownHit {
                finding: "C16-dmq-dedup-ignores-sender".into(),
                clause: "contribution-suppressed".into(),
                detail: format!(
                    "the valid signature of registered party {} for {} reached the aggregator at step {} through {} while the round was open, and is not recorded{}{}",
                    short(&party_id), entity.label(), d.step,
                    if d.status == 0 { "the message queue".to_string() } else { format!("HTTP (status {})", d.status) },
                    if same_payload_before.is_empty() { String::new() } else { format!("; the same payload had been submitted before under another name: {}", same_payload_before.join(", ")) },
                    if d.response.is_empty() { String::new() } else { format!("; response: {}", crate::world::first_line(&d.response)) }),
                step,
                msg_id: d.msg.id,
                producer: *producer,
                dedup_trigger,
                foreign_copy_before: !same_payload_before.is_empty() || d.batch_junk,
            });
        }
    }

    fn check_rows_c16(&mut self, w: &World, oms: &[crate::db::OpenMessageRow], sigs: &[crate::db::SingleSignatureRow], step: usize) {
        let mut current: BTreeMap<(String, String), String> = BTreeMap::new();
        for s in sigs {
            current.insert((s.open_message_id.clone(), s.signer_id.clone()), s.signature.clone());
        }
        // (i) every row verifies under the key its party registered
        for s in sigs {
            let key = (s.open_message_id.clone(), s.signer_id.clone());
            if self.rows.get(&key) == Some(&s.signature) {
                continue; // already judged
            }
            let Some(om) = oms.iter().find(|o| o.id == s.open_message_id) else { continue };
            let message = self.open_messages.get(&om.id).map(|x| x.1.clone()).unwrap_or_default();
            let signers = Self::model_signers(w, om.entity.signing_epoch(), step);
            let pp = self.params(w, om.entity.signing_epoch());
            self.probe("signature_rows_judged");
            if let Err(why) = Self::verify_under_key(&pp, &signers, &s.signer_id, &s.signature, &s.lottery_indexes, &message) {
                // who really made it?
                let producer = w.deliveries.iter().find_map(|d| match &d.msg.kind {
                    MsgKind::Signature { signature_hex, producer, .. } if *signature_hex == s.signature => Some(*producer),
                    _ => None,
                });
                self.report(step, "misattributed-signature", format!(
                    "the aggregator recorded under party {} a signature for {} that does not verify against that party's registered key ({}){}",
                    short(&s.signer_id), om.entity.label(), crate::world::first_line(&why),
                    producer.map(|p| format!("; it was produced by party {} ({})", p, short(&w.parties[p].party_id))).unwrap_or_default()));
            }
        }
        // (ii) one signature recorded under two names
        let mut by_sig: BTreeMap<(&String, &String), Vec<&String>> = BTreeMap::new();
        for s in sigs {
            by_sig.entry((&s.open_message_id, &s.signature)).or_default().push(&s.signer_id);
        }
        for ((_, _), names) in by_sig {
            if names.len() > 1 {
                self.report(step, "recorded-twice", format!("one signature is recorded under {} parties: {}", names.len(), names.iter().map(|n| short(n)).collect::<Vec<_>>().join(", ")));
            }
        }
        // (iii) conservation: an honest accepted row is not replaced by foreign material and does
        // not disappear before its round closes
        for ((om_id, party), old_sig) in self.rows.clone() {
            let closed = self.open_messages.get(&om_id).map(|x| x.2).unwrap_or(true);
            if closed {
                continue;
            }
            let honest_old = w.deliveries.iter().any(|d| matches!(&d.msg.kind, MsgKind::Signature { signature_hex, claimed, forged: None, .. } if *signature_hex == old_sig && *claimed == party) && !d.damaged);
            if !honest_old {
                continue;
            }
            match current.get(&(om_id.clone(), party.clone())) {
                None => self.report(step, "contribution-lost", format!("the accepted signature of party {} disappeared before its round closed", short(&party))),
                Some(new_sig) if *new_sig != old_sig => {
                    let by_party_key = w.deliveries.iter().any(|d| matches!(&d.msg.kind, MsgKind::Signature { signature_hex, producer, .. } if signature_hex == new_sig && w.parties[*producer].party_id == party));
                    if !by_party_key {
                        self.report(step, "contribution-replaced", format!("the accepted signature of party {} was replaced by material its key did not produce", short(&party)));
                    }
                }
                _ => {}
            }
        }
        self.rows = current;
    }

    fn check_certificate_signers_c16(&mut self, w: &World, c: &CertificateRow, step: usize) {
        let Some(entity) = &c.entity else { return };
        let listed: Vec<String> = serde_json::from_str::<serde_json::Value>(&c.signers_json)
            .ok()
            .and_then(|v| v.as_array().cloned())
            .unwrap_or_default()
            .iter()
            .filter_map(|s| s["party_id"].as_str().map(|x| x.to_string()))
            .collect();
        for name in listed {
            let has_own = w.deliveries.iter().any(|d| matches!(&d.msg.kind,
                MsgKind::Signature { entity: de, producer, indexes, .. } if de == entity && w.parties[*producer].party_id == name && !indexes.is_empty()) && !d.damaged);
            if !has_own {
                self.report(step, "certificate-names-non-signer", format!(
                    "certificate {} for {} lists party {} among its signers although no signature made with that party's key was ever delivered for it",
                    short(&c.hash), entity.label(), short(&name)));
            }
        }
    }

    // ---------------------------------------------------------------- C20

    /// Registration the aggregator holds for `party` at recording epoch `rec`, from the wire:
    /// the verification key of the last register-signer request that the aggregator answered
    /// with 201 (whether or not the signer saw the answer), made no later than `up_to` (index).
    fn c20_registered_key(calls: &[crate::signer::LinkCall], party: usize, rec: u64, up_to: usize) -> Option<String> {
        let mut body = None;
        for c in calls[..up_to.min(calls.len())].iter() {
            if c.party == party && c.kind == "register-signer" && c.status == Some(201) {
                let Ok(v) = serde_json::from_str::<serde_json::Value>(&c.body) else { continue };
                if v["epoch"].as_u64() == Some(rec) {
                    body = Some(c.body.clone());
                }
            }
        }
        body
    }

    fn c20_signers(w: &World, calls: &[crate::signer::LinkCall], epoch: u64, up_to: usize) -> Vec<SignerWithStake> {
        use mithril_common::messages::{RegisterSignerMessage, TryFromMessageAdapter};
        let mut out = vec![];
        if epoch == 0 {
            return out;
        }
        for p in 0..w.parties.len() {
            let Some(body) = Self::c20_registered_key(calls, p, epoch - 1, up_to) else { continue };
            let Ok(message) = serde_json::from_str::<RegisterSignerMessage>(&body) else { continue };
            let Ok(signer) = mithril_aggregator::FromRegisterSignerAdapter::try_adapt(message) else { continue };
            out.push(SignerWithStake::from_signer(signer, crate::world::stake_for(&w.sc, p, epoch - 1)));
        }
        out
    }

    fn check_c20(&mut self, w: &mut World, open_messages: &[crate::db::OpenMessageRow], step: usize) {
        let calls: Vec<crate::signer::LinkCall> = w.link.calls.lock().unwrap().clone();
        let from = self.c20_calls_seen;
        self.c20_calls_seen = calls.len();
        for (idx, c) in calls.iter().enumerate().skip(from) {
            if c.kind != "register-signatures" || c.fault == "duplicate" {
                continue;
            }
            let Ok(v) = serde_json::from_str::<serde_json::Value>(&c.body) else { continue };
            let Ok(entity_real) = serde_json::from_value::<mithril_common::entities::SignedEntityType>(v["entity_type"].clone()) else { continue };
            let entity = Entity::from_real(&entity_real);
            let signature = v["signature"].as_str().unwrap_or("").to_string();
            let message = v["signed_message"].as_str().unwrap_or("").to_string();
            let e = entity.signing_epoch();
            self.probe("c20_publish_attempts");
            // (i) exactly once
            let earlier: Vec<&crate::signer::LinkCall> = calls[..idx]
                .iter()
                .filter(|x| x.party == c.party && x.kind == "register-signatures" && x.fault != "duplicate")
                .filter(|x| {
                    serde_json::from_str::<serde_json::Value>(&x.body)
                        .ok()
                        .and_then(|b| serde_json::from_value::<mithril_common::entities::SignedEntityType>(b["entity_type"].clone()).ok())
                        .map(|t| Entity::from_real(&t) == entity)
                        .unwrap_or(false)
                })
                .collect();
            if let Some(prev) = earlier.iter().find(|x| x.acked) {
                self.report(step, "signed-twice", format!(
                    "signer {} publishes a signature for {} again (step {}) although its earlier publication was acknowledged at step {}",
                    c.party, entity.label(), c.step, prev.step));
            }
            for prev in &earlier {
                let prev_sig = serde_json::from_str::<serde_json::Value>(&prev.body).ok().and_then(|b| b["signature"].as_str().map(|s| s.to_string())).unwrap_or_default();
                if prev_sig != signature {
                    self.report(step, "retry-with-different-signature", format!(
                        "signer {} retries the publication for {} with a different signature than at step {}", c.party, entity.label(), prev.step));
                }
            }
            if !earlier.is_empty() {
                self.probe("c20_retries_after_unacknowledged_publish");
            }
            // (iv) never signs without a registration eligible for the epoch
            let signers = Self::c20_signers(w, &calls, e, idx);
            let me = w.parties[c.party].party_id.clone();
            if !signers.iter().any(|s| s.party_id == me) {
                self.report(step, "signed-without-registration", format!(
                    "signer {} publishes a signature for {} (signing epoch {e}) although the aggregator never acknowledged a registration of it for that epoch's key set", c.party, entity.label()));
                continue;
            }
            // (ii) made with the key registered for the epoch whose stake distribution is in force
            let pp = self.params(w, e);
            if let Err(why) = Self::verify_under_key(&pp, &signers, &me, &signature, &[], &message) {
                let mut made_with = String::new();
                for (label, other) in [("the following epoch", e + 1), ("the preceding epoch", e.saturating_sub(1))] {
                    let s2 = Self::c20_signers(w, &calls, other, idx);
                    if s2.iter().any(|s| s.party_id == me) && Self::verify_under_key(&self.params(w, other), &s2, &me, &signature, &[], &message).is_ok() {
                        made_with = format!("; it verifies under the key set of {label}");
                    }
                }
                self.report(step, "wrong-key", format!(
                    "the signature signer {} publishes for {} does not verify under the key it registered for signing epoch {e} ({}){made_with}",
                    c.party, entity.label(), crate::world::first_line(&why)));
                continue;
            }
            // (iii) acceptance by the aggregator
            if let Some(status) = c.status
                && !matches!(status, 201 | 202 | 410)
            {
                let open = open_messages.iter().find(|o| o.entity == entity && !o.is_certified && !o.is_expired);
                let agg_message = open.and_then(|o| serde_json::from_str::<ProtocolMessage>(&o.protocol_message_json).ok()).map(|p| p.to_message());
                let reason = match &agg_message {
                    None => "no matching open message".to_string(),
                    Some(m) if *m != message => "the aggregator's open message carries a different protocol message (signer and aggregator computed different messages for the same beacon)".to_string(),
                    Some(_) => "same message, registered key".to_string(),
                };
                // an aggregator that has just been restarted has not derived its signer set yet (its
                // epoch service is initialised by its first cycle): a rejection then is transient
                let last_restart = w.restarts_at.last().copied().unwrap_or(0);
                let ticked_since = w.tick_log.iter().rev().take_while(|t| t.0 > last_restart).filter(|t| t.1 != "idle" || t.2.is_none()).count();
                if agg_message.is_some() && ticked_since < 2 {
                    self.probe("c20_rejected_by_freshly_restarted_aggregator");
                } else if agg_message.is_some() {
                    self.report(step, "valid-signature-rejected", format!(
                        "the aggregator answered {status} to the signature signer {} published for {} while that round was open: {reason}; response: {}",
                        c.party, entity.label(), crate::world::first_line(&c.response)));
                } else {
                    self.probe("c20_rejected_without_matching_round");
                }
            } else if matches!(c.status, Some(201 | 202)) {
                self.probe("c20_publications_accepted");
            }
        }
        // (vi) a signer that considers itself registered for epoch E (it will not register again
        // in E, and will sign with the stored key material at E + 2) has had a registration for
        // recording epoch E + 1 accepted by the aggregator
        let ticks: Vec<(usize, usize, String)> = w.signer_ticks.iter().skip(self.c20_ticks_seen).map(|t| (t.0, t.1, t.2.clone())).collect();
        self.c20_ticks_seen = w.signer_ticks.len();
        for (tick_step, p, label) in ticks {
            let epoch = ["ready-to-sign(", "registered-not-able-to-sign("]
                .iter()
                .find_map(|prefix| label.strip_prefix(prefix))
                .and_then(|rest| rest.trim_end_matches(')').parse::<u64>().ok());
            let Some(e) = epoch else { continue };
            self.probe("c20_registered_states_checked");
            if Self::c20_registered_key(&calls, p, e + 1, calls.len()).is_none() {
                let attempts: Vec<String> = calls
                    .iter()
                    .filter(|c| c.party == p && c.kind == "register-signer" && serde_json::from_str::<serde_json::Value>(&c.body).ok().and_then(|v| v["epoch"].as_u64()) == Some(e + 1))
                    .map(|c| format!("step {}: {}{}", c.step, c.status.map(|s| s.to_string()).unwrap_or("not delivered".into()), if c.fault.is_empty() { String::new() } else { format!(" ({})", c.fault) }))
                    .collect();
                self.report(step, "registered-state-without-registration", format!(
                    "signer {p} is in state '{label}' after its cycle at step {tick_step} although the aggregator never accepted a registration of it for recording epoch {}: it will not register again in this epoch and cannot sign at epoch {}; its registration attempts: [{}]",
                    e + 1, e + 2, attempts.join("; ")));
            }
        }
        // (v) bounded liveness at the end of the quiescence script
        if w.liveness_markers > self.liveness_checked {
            self.liveness_checked = w.liveness_markers;
            if w.liveness_markers == 3 {
                let f = w.epoch;
                for (p, node) in w.signers.iter().enumerate() {
                    let registered = Self::c20_registered_key(&calls, p, f - 1, calls.len()).is_some();
                    let last_state = w.signer_ticks.iter().rev().find(|t| t.1 == p).map(|t| t.2.clone()).unwrap_or_default();
                    let _ = node;
                    if registered && last_state != format!("ready-to-sign({f})") {
                        self.report(step, "signer-not-ready-after-faults", format!(
                            "faults stopped two epochs ago, signer {p} registered for epoch {f} but ends in state '{last_state}'"));
                    }
                    if registered {
                        self.probe("c20_liveness_signers_ready");
                    }
                }
            }
        }
    }

    // ---------------------------------------------------------------- end of run

    pub fn finish(&mut self, w: &mut World) {
        self.check(w);
    }
}

pub fn avk_hex(avk: &ProtocolAggregateVerificationKey) -> Option<String> {
    let k: mithril_common::crypto_helper::ProtocolAggregateVerificationKeyForConcatenation =
        avk.to_concatenation_aggregate_verification_key().to_owned().into();
    k.to_json_hex().ok()
}

pub fn short(s: &str) -> String {
    s.chars().take(10).collect()
}
