//! A real signer node: the repository's `StateMachine` + `SignerRunner` + `SignerCertifierService`
//! + `MithrilSingleSigner` + `MithrilEpochService` + repositories on file-backed SQLite, with real
//! KES signing, on its own single-threaded paused-clock runtime. Its only window on the world is
//! a per-node chain view and a *link* to the aggregator: every request is an in-process call into
//! the aggregator's real route filter, and the scheduler decides per tick what the link does
//! (deliver, fail before delivery, deliver but lose the acknowledgement, duplicate, serve stale
//! epoch settings, aggregator unreachable).
use std::path::{Path, PathBuf};
use std::sync::{Arc, Mutex};
use std::time::Duration;

use async_trait::async_trait;
use mithril_aggregator_client::AggregatorHttpClientError;
use mithril_cardano_node_chain::chain_importer::CardanoChainDataImporter;
use mithril_cardano_node_internal_database::signable_builder::CardanoDatabaseSignableBuilder;
use mithril_common::StdResult;
use mithril_common::api_version::APIVersionProvider;
use mithril_common::crypto_helper::{KesSigner, KesSignerStandard};
use mithril_common::entities::{
    BlockNumber, Epoch, ProtocolMessage, SignedEntityType, Signer, SingleSignature, SupportedEra,
};
use mithril_common::messages::{
    EpochSettingsMessage, ProtocolConfigurationMessage, RegisterSignatureMessageHttp, TryFromMessageAdapter,
    TryToMessageAdapter,
};
use mithril_common::protocol::ToMessage;
use mithril_common::signable_builder::{
    CardanoBlocksTransactionsSignableBuilder, CardanoStakeDistributionSignableBuilder,
    CardanoTransactionsSignableBuilder, MithrilSignableBuilderService,
    MithrilStakeDistributionSignableBuilder, SignableBuilderServiceDependencies,
};
use mithril_common::test::double::Dummy;
use mithril_era::{EraChecker, EraMarker, EraReader, adapters::EraReaderDummyAdapter};
use mithril_protocol_config::interface::MithrilNetworkConfigurationProvider;
use mithril_protocol_config::model::{MithrilNetworkConfiguration, MithrilNetworkConfigurationForEpoch};
use mithril_signed_entity_lock::SignedEntityTypeLock;
use mithril_signed_entity_preloader::{CardanoTransactionsPreloader, CardanoTransactionsPreloaderActivation};
use mithril_signer::database::repository::{
    ProtocolInitializerRepository, SignedBeaconRepository, SignerCardanoChainDataRepository, StakePoolStore,
};
use mithril_signer::dependency_injection::{DependenciesBuilder, SignerDependencyContainer};
use mithril_signer::services::{
    MithrilEpochService, MithrilSingleSigner, SignaturePublisher, SignerCertifierService,
    SignerChainDataImporter, SignerRegistrationPublisher, SignerSignableSeedBuilder,
    SignerSignedEntityConfigProvider, SignerUpkeepService, SignersRegistrationRetriever,
};
use mithril_signer::store::MKTreeStoreSqlite;
use mithril_signer::{
    Configuration, FromEpochSettingsAdapter, MetricsService, RegisteredSigners, SignerRunner, SignerState,
    StateMachine, ToRegisterSignerMessageAdapter,
};
use mithril_ticker::MithrilTickerService;
use serde::{Deserialize, Serialize};
use tokio::sync::RwLock;
use warp::filters::BoxedFilter;

use crate::chain::{SharedView, SimChainObserver, SimDigester, SimImmutableObserver};
use crate::parties::Party;

pub type Routes = BoxedFilter<(warp::reply::Response,)>;
/// The aggregator's current route filter (None while the aggregator process is down).
pub type RoutesSlot = Arc<Mutex<Option<Routes>>>;

/// What the link does with the signer's requests during one tick (decided by the scheduler).
#[derive(Serialize, Deserialize, Clone, Debug, PartialEq, Default)]
pub struct LinkPolicy {
    /// every request fails before reaching the aggregator
    pub unreachable: bool,
    /// `/epoch-settings` is answered with the response recorded this many epochs ago
    pub stale_epoch_settings: u64,
    /// register-signer: 0 deliver, 1 fail before delivery, 2 deliver but lose the acknowledgement
    pub registration: u8,
    /// register-signatures: 0 deliver, 1 fail before delivery, 2 deliver but lose the ack, 3 deliver twice
    pub signature: u8,
}

/// One request of a signer as seen on the wire.
#[derive(Clone, Debug)]
pub struct LinkCall {
    pub party: usize,
    pub step: usize,
    pub kind: &'static str,
    pub path: String,
    pub body: String,
    /// None = never reached the aggregator
    pub status: Option<u16>,
    pub response: String,
    /// what the signer was told
    pub acked: bool,
    pub fault: &'static str,
}

pub struct LinkShared {
    pub routes: RoutesSlot,
    pub calls: Mutex<Vec<LinkCall>>,
    pub step: Mutex<usize>,
    /// epoch -> recorded `/epoch-settings` body
    pub epoch_settings_history: Mutex<std::collections::BTreeMap<u64, String>>,
}

pub struct Link {
    pub party: usize,
    pub shared: Arc<LinkShared>,
    pub policy: Mutex<LinkPolicy>,
}

impl Link {
    async fn request(&self, method: &str, path: &str, body: Option<String>) -> Option<(u16, String)> {
        let routes = self.shared.routes.lock().unwrap().clone()?;
        let mut req = warp::test::request().method(method).path(path);
        if let Some(b) = &body {
            req = req.header("content-type", "application/json").body(b.clone());
        }
        // a panicking handler = reset connection
        let resp = futures_catch(req.reply(&routes)).await?;
        Some((resp.status().as_u16(), String::from_utf8_lossy(resp.body()).to_string()))
    }

    fn record(&self, kind: &'static str, path: &str, body: &str, status: Option<u16>, response: &str, acked: bool, fault: &'static str) {
        let step = *self.shared.step.lock().unwrap();
        self.shared.calls.lock().unwrap().push(LinkCall {
            party: self.party,
            step,
            kind,
            path: path.to_string(),
            body: body.to_string(),
            status,
            response: response.to_string(),
            acked,
            fault,
        });
    }

    fn policy(&self) -> LinkPolicy {
        self.policy.lock().unwrap().clone()
    }
}

async fn futures_catch<F: std::future::Future>(f: F) -> Option<F::Output> {
    // warp::test::reply does not unwind across await points in our single-threaded setting; a
    // panic inside a handler propagates here: convert it to "no answer"
    use std::panic::AssertUnwindSafe;
    let mut f = Box::pin(f);
    std::future::poll_fn(move |cx| {
        match std::panic::catch_unwind(AssertUnwindSafe(|| f.as_mut().poll(cx))) {
            Ok(std::task::Poll::Ready(v)) => std::task::Poll::Ready(Some(v)),
            Ok(std::task::Poll::Pending) => std::task::Poll::Pending,
            Err(_) => std::task::Poll::Ready(None),
        }
    })
    .await
}

fn unreachable_error() -> anyhow::Error {
    anyhow::anyhow!(AggregatorHttpClientError::RemoteServerUnreachable(anyhow::anyhow!("simulated: aggregator unreachable")))
}

#[async_trait]
impl SignersRegistrationRetriever for Link {
    async fn retrieve_all_signer_registrations(&self) -> StdResult<RegisteredSigners> {
        let policy = self.policy();
        let path = "/aggregator/epoch-settings";
        if policy.unreachable {
            self.record("epoch-settings", path, "", None, "", false, "unreachable");
            return Err(unreachable_error());
        }
        let Some((status, body)) = self.request("GET", path, None).await else {
            self.record("epoch-settings", path, "", None, "", false, "aggregator-down");
            return Err(unreachable_error());
        };
        if status != 200 {
            self.record("epoch-settings", path, "", Some(status), &body, false, "");
            anyhow::bail!("epoch settings: status {status}");
        }
        let fresh: EpochSettingsMessage = serde_json::from_str(&body)?;
        self.shared.epoch_settings_history.lock().unwrap().insert(*fresh.epoch, body.clone());
        let (served, fault) = if policy.stale_epoch_settings > 0 {
            let wanted = fresh.epoch.saturating_sub(policy.stale_epoch_settings);
            match self.shared.epoch_settings_history.lock().unwrap().get(&wanted) {
                Some(old) => (old.clone(), "stale-epoch-settings"),
                None => (body.clone(), ""),
            }
        } else {
            (body.clone(), "")
        };
        self.record("epoch-settings", path, "", Some(200), &served, true, fault);
        let message: EpochSettingsMessage = serde_json::from_str(&served)?;
        FromEpochSettingsAdapter::try_adapt(message)
    }
}

#[async_trait]
impl SignerRegistrationPublisher for Link {
    async fn register_signer(&self, epoch: Epoch, signer: &Signer) -> StdResult<()> {
        let policy = self.policy();
        let path = "/aggregator/register-signer";
        let message = ToRegisterSignerMessageAdapter::try_adapt((epoch, signer.clone()))?;
        let body = serde_json::to_string(&message)?;
        if policy.unreachable || policy.registration == 1 {
            self.record("register-signer", path, &body, None, "", false, if policy.unreachable { "unreachable" } else { "lost-request" });
            return Err(unreachable_error());
        }
        let Some((status, response)) = self.request("POST", path, Some(body.clone())).await else {
            self.record("register-signer", path, &body, None, "", false, "aggregator-down");
            return Err(unreachable_error());
        };
        if policy.registration == 2 {
            self.record("register-signer", path, &body, Some(status), &response, false, "lost-ack");
            return Err(unreachable_error());
        }
        self.record("register-signer", path, &body, Some(status), &response, status == 201, "");
        match status {
            201 => Ok(()),
            550 => Err(anyhow::anyhow!(AggregatorHttpClientError::RegistrationRoundNotYetOpened(anyhow::anyhow!(response)))),
            s => Err(anyhow::anyhow!(AggregatorHttpClientError::RemoteServerTechnical(anyhow::anyhow!("status {s}: {response}")))),
        }
    }
}

#[async_trait]
impl SignaturePublisher for Link {
    async fn publish(
        &self,
        signed_entity_type: &SignedEntityType,
        signature: &SingleSignature,
        protocol_message: &ProtocolMessage,
    ) -> StdResult<()> {
        let policy = self.policy();
        let path = "/aggregator/register-signatures";
        let message = RegisterSignatureMessageHttp {
            signed_entity_type: signed_entity_type.clone().into(),
            party_id: signature.party_id.clone(),
            signature: signature.signature.clone().try_into()?,
            won_indexes: signature.won_indexes.clone(),
            signed_message: protocol_message.to_message(),
        };
        let body = serde_json::to_string(&message)?;
        if policy.unreachable || policy.signature == 1 {
            self.record("register-signatures", path, &body, None, "", false, if policy.unreachable { "unreachable" } else { "lost-request" });
            return Err(unreachable_error());
        }
        let Some((status, response)) = self.request("POST", path, Some(body.clone())).await else {
            self.record("register-signatures", path, &body, None, "", false, "aggregator-down");
            return Err(unreachable_error());
        };
        if policy.signature == 3 {
            // duplicated in the network
            if let Some((s2, r2)) = self.request("POST", path, Some(body.clone())).await {
                self.record("register-signatures", path, &body, Some(s2), &r2, false, "duplicate");
            }
        }
        if policy.signature == 2 {
            self.record("register-signatures", path, &body, Some(status), &response, false, "lost-ack");
            return Err(unreachable_error());
        }
        // 201 created, 202 buffered, 410 already certified / expired: success for the signer
        let ok = matches!(status, 201 | 202 | 410);
        self.record("register-signatures", path, &body, Some(status), &response, ok, "");
        if ok {
            Ok(())
        } else {
            Err(anyhow::anyhow!(AggregatorHttpClientError::RemoteServerTechnical(anyhow::anyhow!("status {status}: {response}"))))
        }
    }
}

#[async_trait]
impl MithrilNetworkConfigurationProvider for Link {
    async fn get_network_configuration(&self, epoch: Epoch) -> StdResult<MithrilNetworkConfiguration> {
        let policy = self.policy();
        if policy.unreachable {
            self.record("protocol-configuration", "/aggregator/protocol-configuration", "", None, "", false, "unreachable");
            return Err(unreachable_error());
        }
        let mut get = async |e: Epoch| -> StdResult<MithrilNetworkConfigurationForEpoch> {
            let path = format!("/aggregator/protocol-configuration/{}", *e);
            let Some((status, body)) = self.request("GET", &path, None).await else {
                return Err(unreachable_error());
            };
            anyhow::ensure!(status == 200, "protocol configuration for epoch {e}: status {status}");
            let message: ProtocolConfigurationMessage = serde_json::from_str(&body)?;
            Ok(message.into())
        };
        let aggregation_epoch = epoch.offset_to_signer_retrieval_epoch()?;
        let next_aggregation_epoch = epoch.offset_to_next_signer_retrieval_epoch();
        let registration_epoch = next_aggregation_epoch.next();
        Ok(MithrilNetworkConfiguration {
            epoch,
            configuration_for_aggregation: get(aggregation_epoch).await?,
            configuration_for_next_aggregation: get(next_aggregation_epoch).await?,
            configuration_for_registration: get(registration_epoch).await?,
        })
    }
}

pub struct SignerInner {
    pub state_machine: StateMachine,
}

pub struct SignerNode {
    pub party: Party,
    pub dir: PathBuf,
    pub view: SharedView,
    pub link: Arc<Link>,
    pub rt: tokio::runtime::Runtime,
    pub inner: Option<SignerInner>,
    pub restarts: u64,
}

fn new_runtime() -> tokio::runtime::Runtime {
    tokio::runtime::Builder::new_current_thread().enable_all().start_paused(true).build().expect("tokio runtime")
}

impl SignerNode {
    pub fn new(party: Party, index: usize, dir: PathBuf, view: SharedView, shared: Arc<LinkShared>) -> SignerNode {
        std::fs::create_dir_all(&dir).expect("signer dir");
        SignerNode {
            party,
            dir,
            view,
            link: Arc::new(Link { party: index, shared, policy: Mutex::new(LinkPolicy::default()) }),
            rt: new_runtime(),
            inner: None,
            restarts: 0,
        }
    }

    pub fn stop(&mut self) {
        self.inner = None;
        self.rt = new_runtime();
    }

    pub fn is_up(&self) -> bool {
        self.inner.is_some()
    }

    /// Process start: rebuild the service graph over the node's directory (the wiring follows
    /// the repository's own `DependenciesBuilder::build` / state-machine integration tests).
    pub fn start(&mut self) -> anyhow::Result<()> {
        self.stop();
        let config = Configuration {
            db_directory: self.dir.join("db"),
            data_stores_directory: self.dir.join("stores"),
            kes_secret_key_path: Some(self.party.kes_secret_key_path.clone()),
            operational_certificate_path: Some(self.party.operational_certificate_path.clone()),
            ..Configuration::new_sample(&self.party.party_id)
        };
        let view = self.view.clone();
        let link = self.link.clone();
        let logger = crate::agg::logger();
        let inner = self.rt.block_on(async move {
            let builder = DependenciesBuilder::new(&config, logger.clone());
            let sqlite_connection = Arc::new(builder.build_main_sqlite_connection("signer.sqlite3").await?);
            let tx_pool = Arc::new(builder.build_cardano_tx_sqlite_connection_pool("cardano-transaction.sqlite3", 1).await?);
            let chain_observer = Arc::new(SimChainObserver { view: view.clone() });
            let immutable_observer = Arc::new(SimImmutableObserver { view: view.clone() });
            let ticker_service = Arc::new(MithrilTickerService::new(chain_observer.clone(), immutable_observer.clone()));
            let digester = Arc::new(SimDigester::default());
            let protocol_initializer_store = Arc::new(ProtocolInitializerRepository::new(sqlite_connection.clone(), None));
            let stake_store = Arc::new(StakePoolStore::new(sqlite_connection.clone(), None));
            let era_adapter = Arc::new(EraReaderDummyAdapter::from_markers(vec![EraMarker {
                name: SupportedEra::dummy().to_string(),
                epoch: Some(Epoch(0)),
            }]));
            let era_reader = Arc::new(EraReader::new(era_adapter));
            let current_epoch = Epoch(view.lock().unwrap().epoch);
            let token = era_reader.read_era_epoch_token(current_epoch).await?;
            let era_checker = Arc::new(EraChecker::new(token.get_current_supported_era()?, token.get_current_epoch()));
            let api_version_provider = Arc::new(APIVersionProvider::new(era_checker.clone()));
            let block_scanner = Arc::new(crate::chain::SimBlockScanner { view: view.clone() });
            let chain_data_store = Arc::new(SignerCardanoChainDataRepository::new(tx_pool.clone()));
            let transactions_importer = Arc::new(SignerChainDataImporter::new(Arc::new(CardanoChainDataImporter::new(
                block_scanner.clone(),
                chain_data_store.clone(),
                logger.clone(),
            ))));
            let epoch_service = Arc::new(RwLock::new(MithrilEpochService::new(
                era_checker.clone(),
                stake_store.clone(),
                protocol_initializer_store.clone(),
                logger.clone(),
            )));
            let single_signer = Arc::new(MithrilSingleSigner::new(
                config.party_id.to_owned().unwrap_or_default(),
                epoch_service.clone(),
                logger.clone(),
            ));
            let seed_builder = Arc::new(SignerSignableSeedBuilder::new(epoch_service.clone(), protocol_initializer_store.clone()));
            let deps = SignableBuilderServiceDependencies::new(
                Arc::new(MithrilStakeDistributionSignableBuilder::default()),
                Arc::new(CardanoTransactionsSignableBuilder::<MKTreeStoreSqlite>::new(transactions_importer.clone(), chain_data_store.clone())),
                Arc::new(CardanoBlocksTransactionsSignableBuilder::<MKTreeStoreSqlite>::new(transactions_importer.clone(), chain_data_store.clone())),
                Arc::new(CardanoStakeDistributionSignableBuilder::new(stake_store.clone())),
                Arc::new(CardanoDatabaseSignableBuilder::new(digester.clone(), Path::new(""), logger.clone())),
            );
            let signable_builder_service = Arc::new(MithrilSignableBuilderService::new(seed_builder, deps, logger.clone()));
            let metrics_service = Arc::new(MetricsService::new(logger.clone())?);
            let signed_entity_type_lock = Arc::new(SignedEntityTypeLock::default());
            let preloader = Arc::new(CardanoTransactionsPreloader::new(
                signed_entity_type_lock.clone(),
                transactions_importer.clone(),
                BlockNumber(0),
                chain_observer.clone(),
                logger.clone(),
                Arc::new(CardanoTransactionsPreloaderActivation::new(false)),
            ));
            let upkeep_service = Arc::new(SignerUpkeepService::new(
                sqlite_connection.clone(),
                tx_pool,
                signed_entity_type_lock.clone(),
                vec![],
                logger.clone(),
            ));
            let signed_beacon_repository = Arc::new(SignedBeaconRepository::new(sqlite_connection.clone(), None));
            let certifier = Arc::new(SignerCertifierService::new(
                signed_beacon_repository.clone(),
                Arc::new(SignerSignedEntityConfigProvider::new(epoch_service.clone())),
                signed_entity_type_lock.clone(),
                single_signer.clone(),
                link.clone(),
                logger.clone(),
            ));
            let kes_signer = Some(Arc::new(KesSignerStandard::new(
                config.kes_secret_key_path.clone().unwrap(),
                config.operational_certificate_path.clone().unwrap(),
            )) as Arc<dyn KesSigner>);
            let services = SignerDependencyContainer {
                signers_registration_retriever: link.clone(),
                ticker_service,
                chain_observer,
                digester,
                protocol_initializer_store,
                single_signer,
                stake_store,
                era_checker,
                era_reader,
                api_version_provider,
                signable_builder_service,
                metrics_service: metrics_service.clone(),
                signed_entity_type_lock,
                cardano_transactions_preloader: preloader,
                upkeep_service,
                epoch_service,
                certifier,
                signer_registration_publisher: link.clone(),
                kes_signer,
                network_configuration_service: link.clone(),
            };
            let runner = Box::new(SignerRunner::new(config.clone(), services, logger.clone()));
            let state_machine =
                StateMachine::new(SignerState::Init, runner, Duration::from_secs(5), metrics_service, logger.clone());
            anyhow::Ok(SignerInner { state_machine })
        })?;
        self.inner = Some(inner);
        self.restarts += 1;
        Ok(())
    }

    /// One state-machine cycle under the given link policy. Returns (state label, error).
    pub fn tick(&mut self, policy: &LinkPolicy, rng_seed: u64) -> (String, Option<String>) {
        *self.link.policy.lock().unwrap() = policy.clone();
        mithril_signer::verif_hook::set_seed(rng_seed);
        let inner = self.inner.as_ref().expect("signer is down");
        let res = self.rt.block_on(inner.state_machine.cycle());
        let state = self.rt.block_on(inner.state_machine.get_state());
        let label = match state {
            SignerState::Init => "init".to_string(),
            SignerState::Unregistered { epoch } => format!("unregistered({})", *epoch),
            SignerState::RegisteredNotAbleToSign { epoch } => format!("registered-not-able-to-sign({})", *epoch),
            SignerState::ReadyToSign { epoch } => format!("ready-to-sign({})", *epoch),
        };
        (label, res.err().map(|e| format!("{e:?}")))
    }
}

/// Reference for the transactions Merkle root of a beacon: the repository's own importer and
/// signable builder on a fresh store, importing the (simulated) chain once from scratch up to the
/// beacon - what an honest signer that has just joined computes. One fresh store per query: the
/// answer must not depend on what was imported before.
pub fn reference_transactions_root(scratch: &Path, block: u64) -> anyhow::Result<String> {
    use mithril_common::entities::{BlockNumber, ProtocolMessagePartKey};
    use mithril_common::signable_builder::SignableBuilder;
    let dir = scratch.join(format!("tx-reference-{block}"));
    let _ = std::fs::remove_dir_all(&dir);
    std::fs::create_dir_all(dir.join("stores"))?;
    let config = Configuration { db_directory: dir.join("db"), data_stores_directory: dir.join("stores"), ..Configuration::new_sample("reference") };
    let rt = new_runtime();
    let logger = crate::agg::logger();
    let root = rt.block_on(async move {
        let builder = DependenciesBuilder::new(&config, logger.clone());
        let tx_pool = Arc::new(builder.build_cardano_tx_sqlite_connection_pool("cardano-transaction.sqlite3", 1).await?);
        let view: SharedView = Arc::new(Mutex::new(crate::chain::ChainView {
            epoch: 0,
            immutable: 0,
            block: u64::MAX / 4,
            stakes: Default::default(),
            down: false,
            pending: None,
        }));
        let block_scanner = Arc::new(crate::chain::SimBlockScanner { view });
        let chain_data_store = Arc::new(SignerCardanoChainDataRepository::new(tx_pool.clone()));
        let importer = Arc::new(SignerChainDataImporter::new(Arc::new(CardanoChainDataImporter::new(block_scanner, chain_data_store.clone(), logger.clone()))));
        let builder = CardanoTransactionsSignableBuilder::<MKTreeStoreSqlite>::new(importer, chain_data_store);
        let message = builder.compute_protocol_message(BlockNumber(block)).await?;
        message
            .get_message_part(&ProtocolMessagePartKey::CardanoTransactionsMerkleRoot)
            .cloned()
            .ok_or_else(|| anyhow::anyhow!("no transactions merkle root in the reference message"))
    });
    let _ = std::fs::remove_dir_all(&dir);
    root
}
