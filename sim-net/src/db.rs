//! Raw, read-only observation of a node's SQLite files (independent of the repository's
//! repositories and record types): this is what the oracles look at.
use std::path::Path;

use mithril_common::entities::{
    BlockNumber, BlockNumberOffset, CardanoDbBeacon, Epoch, SignedEntityType,
};
use serde_json::Value;

/// A signed entity (type + beacon), normalised.
#[derive(Clone, Debug, PartialEq, Eq, PartialOrd, Ord, Hash)]
pub enum Entity {
    Msd(u64),
    Csd(u64),
    Cdb { epoch: u64, immutable: u64 },
    Ctx { epoch: u64, block: u64 },
    Cbtx { epoch: u64, block: u64, offset: u64 },
}

impl Entity {
    pub fn from_db(type_id: i64, beacon_json: &str) -> Option<Entity> {
        let v: Value = serde_json::from_str(beacon_json).ok()?;
        match type_id {
            0 => Some(Entity::Msd(v.as_u64()?)),
            1 => Some(Entity::Csd(v.as_u64()?)),
            3 => Some(Entity::Ctx { epoch: v["epoch"].as_u64()?, block: v["block_number"].as_u64()? }),
            4 => Some(Entity::Cdb { epoch: v["epoch"].as_u64()?, immutable: v["immutable_file_number"].as_u64()? }),
            5 => Some(Entity::Cbtx {
                epoch: v["epoch"].as_u64()?,
                block: v["block_number"].as_u64()?,
                offset: v["block_number_offset"].as_u64()?,
            }),
            _ => None,
        }
    }

    pub fn from_real(t: &SignedEntityType) -> Entity {
        match t {
            SignedEntityType::MithrilStakeDistribution(e) => Entity::Msd(**e),
            SignedEntityType::CardanoStakeDistribution(e) => Entity::Csd(**e),
            SignedEntityType::CardanoDatabase(b) => {
                Entity::Cdb { epoch: *b.epoch, immutable: b.immutable_file_number }
            }
            SignedEntityType::CardanoTransactions(e, b) => Entity::Ctx { epoch: **e, block: **b },
            SignedEntityType::CardanoBlocksTransactions(e, b, o) => {
                Entity::Cbtx { epoch: **e, block: **b, offset: **o }
            }
        }
    }

    pub fn to_real(&self) -> SignedEntityType {
        match self {
            Entity::Msd(e) => SignedEntityType::MithrilStakeDistribution(Epoch(*e)),
            Entity::Csd(e) => SignedEntityType::CardanoStakeDistribution(Epoch(*e)),
            Entity::Cdb { epoch, immutable } => {
                SignedEntityType::CardanoDatabase(CardanoDbBeacon::new(*epoch, *immutable))
            }
            Entity::Ctx { epoch, block } => {
                SignedEntityType::CardanoTransactions(Epoch(*epoch), BlockNumber(*block))
            }
            Entity::Cbtx { epoch, block, offset } => SignedEntityType::CardanoBlocksTransactions(
                Epoch(*epoch),
                BlockNumber(*block),
                BlockNumberOffset(*offset),
            ),
        }
    }

    pub fn kind(&self) -> &'static str {
        match self {
            Entity::Msd(_) => "MSD",
            Entity::Csd(_) => "CSD",
            Entity::Cdb { .. } => "CDB",
            Entity::Ctx { .. } => "CTX",
            Entity::Cbtx { .. } => "CBTX",
        }
    }

    /// Epoch during which this entity is signed (the open message's epoch).
    pub fn signing_epoch(&self) -> u64 {
        match self {
            Entity::Csd(e) => e + 1,
            Entity::Msd(e) => *e,
            Entity::Cdb { epoch, .. } | Entity::Ctx { epoch, .. } | Entity::Cbtx { epoch, .. } => *epoch,
        }
    }

    pub fn label(&self) -> String {
        match self {
            Entity::Msd(e) => format!("MSD({e})"),
            Entity::Csd(e) => format!("CSD({e})"),
            Entity::Cdb { epoch, immutable } => format!("CDB({epoch},{immutable})"),
            Entity::Ctx { epoch, block } => format!("CTX({epoch},{block})"),
            Entity::Cbtx { epoch, block, offset } => format!("CBTX({epoch},{block},{offset})"),
        }
    }
}

#[derive(Clone, Debug)]
pub struct OpenMessageRow {
    pub id: String,
    pub epoch: u64,
    pub entity: Entity,
    pub protocol_message_json: String,
    pub is_certified: bool,
    pub is_expired: bool,
    pub rowid: i64,
}

#[derive(Clone, Debug)]
pub struct SingleSignatureRow {
    pub open_message_id: String,
    pub signer_id: String,
    pub registration_epoch: u64,
    pub lottery_indexes: Vec<u64>,
    pub signature: String,
}

#[derive(Clone, Debug)]
pub struct CertificateRow {
    pub rowid: i64,
    pub hash: String,
    pub parent: Option<String>,
    pub epoch: u64,
    /// None for a genesis certificate
    pub entity: Option<Entity>,
    pub aggregate_verification_key: String,
    pub protocol_parameters_json: String,
    pub protocol_message_json: String,
    pub signers_json: String,
    pub is_genesis: bool,
}

#[derive(Clone, Debug)]
pub struct SignedEntityRow {
    pub id: String,
    pub entity: Entity,
    pub certificate_id: String,
    pub artifact_json: String,
}

#[derive(Clone, Debug)]
pub struct RegistrationRow {
    pub signer_id: String,
    pub epoch: u64,
    pub verification_key: String,
    pub stake: Option<u64>,
}

pub struct Db {
    conn: sqlite::Connection,
}

fn col_str(row: &sqlite::Row, name: &str) -> String {
    // `json` / untyped columns may come back with integer affinity (e.g. an epoch beacon)
    if !row.contains(name) {
        return String::new();
    }
    match &row[name] {
        sqlite::Value::String(s) => s.clone(),
        sqlite::Value::Integer(i) => i.to_string(),
        sqlite::Value::Float(f) => f.to_string(),
        sqlite::Value::Binary(b) => String::from_utf8_lossy(b).to_string(),
        sqlite::Value::Null => String::new(),
    }
}
fn col_opt_str(row: &sqlite::Row, name: &str) -> Option<String> {
    if !row.contains(name) || matches!(&row[name], sqlite::Value::Null) {
        return None;
    }
    Some(col_str(row, name))
}
fn col_i64(row: &sqlite::Row, name: &str) -> i64 {
    if !row.contains(name) {
        return 0;
    }
    match &row[name] {
        sqlite::Value::Integer(i) => *i,
        sqlite::Value::String(s) => s.parse().unwrap_or(0),
        sqlite::Value::Float(f) => *f as i64,
        _ => 0,
    }
}

impl Db {
    pub fn open(path: &Path) -> anyhow::Result<Db> {
        let conn = sqlite::Connection::open_with_flags(
            path,
            sqlite::OpenFlags::new().with_read_only().with_no_mutex(),
        )?;
        Ok(Db { conn })
    }

    fn rows(&self, sql: &str) -> Vec<sqlite::Row> {
        match self.conn.prepare(sql) {
            Ok(stmt) => stmt.into_iter().filter_map(|r| r.ok()).collect(),
            Err(_) => vec![], // table not there yet (before migrations)
        }
    }

    pub fn open_messages(&self) -> Vec<OpenMessageRow> {
        self.rows("select rowid as rid, * from open_message order by rowid")
            .iter()
            .filter_map(|r| {
                Some(OpenMessageRow {
                    rowid: col_i64(r, "rid"),
                    id: col_str(r, "open_message_id"),
                    epoch: col_i64(r, "epoch_setting_id") as u64,
                    entity: Entity::from_db(col_i64(r, "signed_entity_type_id"), &col_str(r, "beacon"))?,
                    protocol_message_json: col_str(r, "protocol_message"),
                    is_certified: col_i64(r, "is_certified") != 0,
                    is_expired: col_i64(r, "is_expired") != 0,
                })
            })
            .collect()
    }

    pub fn single_signatures(&self) -> Vec<SingleSignatureRow> {
        self.rows("select * from single_signature order by open_message_id, signer_id, registration_epoch_setting_id")
            .iter()
            .map(|r| SingleSignatureRow {
                open_message_id: col_str(r, "open_message_id"),
                signer_id: col_str(r, "signer_id"),
                registration_epoch: col_i64(r, "registration_epoch_setting_id") as u64,
                lottery_indexes: serde_json::from_str(&col_str(r, "lottery_indexes")).unwrap_or_default(),
                signature: col_str(r, "signature"),
            })
            .collect()
    }

    pub fn buffered_signatures_count(&self) -> usize {
        self.rows("select party_id from buffered_single_signature").len()
    }

    pub fn certificates(&self) -> Vec<CertificateRow> {
        self.rows("select rowid as rid, * from certificate order by rowid")
            .iter()
            .map(|r| {
                let parent = col_opt_str(r, "parent_certificate_id").filter(|p| !p.is_empty());
                let is_genesis = parent.is_none();
                CertificateRow {
                    rowid: col_i64(r, "rid"),
                    hash: col_str(r, "certificate_id"),
                    is_genesis,
                    entity: if is_genesis {
                        None
                    } else {
                        Entity::from_db(col_i64(r, "signed_entity_type_id"), &col_str(r, "signed_entity_beacon"))
                    },
                    parent,
                    epoch: col_i64(r, "epoch") as u64,
                    aggregate_verification_key: col_str(r, "aggregate_verification_key"),
                    protocol_parameters_json: col_str(r, "protocol_parameters"),
                    protocol_message_json: col_str(r, "protocol_message"),
                    signers_json: col_str(r, "signers"),
                }
            })
            .collect()
    }

    pub fn signed_entities(&self) -> Vec<SignedEntityRow> {
        self.rows("select rowid as rid, * from signed_entity order by rowid")
            .iter()
            .filter_map(|r| {
                Some(SignedEntityRow {
                    id: col_str(r, "signed_entity_id"),
                    entity: Entity::from_db(col_i64(r, "signed_entity_type_id"), &col_str(r, "beacon"))?,
                    certificate_id: col_str(r, "certificate_id"),
                    artifact_json: col_str(r, "artifact"),
                })
            })
            .collect()
    }

    pub fn registrations(&self) -> Vec<RegistrationRow> {
        self.rows("select * from signer_registration order by epoch_setting_id, signer_id")
            .iter()
            .map(|r| RegistrationRow {
                signer_id: col_str(r, "signer_id"),
                epoch: col_i64(r, "epoch_setting_id") as u64,
                verification_key: col_str(r, "verification_key"),
                stake: col_opt_str(r, "stake").and_then(|s| s.parse().ok()),
            })
            .collect()
    }

    pub fn epoch_settings(&self) -> Vec<(u64, String)> {
        self.rows("select * from epoch_setting order by epoch_setting_id")
            .iter()
            .map(|r| (col_i64(r, "epoch_setting_id") as u64, col_str(r, "protocol_parameters")))
            .collect()
    }
}
