//! The aggregator node: the real service graph built by the repository's own
//! `DependenciesBuilder` over file-backed SQLite in the node's private directory, its real
//! state machine and its real HTTP route filter (called in-process, no socket), on its own
//! single-threaded paused-clock tokio runtime.
use std::path::PathBuf;
use std::sync::Arc;

use mithril_aggregator::database::repository::OpenMessageRepository;
use mithril_aggregator::dependency_injection::DependenciesBuilder;
use mithril_aggregator::{
    ConfigurationSource, AggregatorRuntime, DumbUploader, ServeCommandConfiguration, ServeCommandDependenciesContainer,
    services::FakeSnapshotter,
};
use mithril_common::entities::{ProtocolParameters, SignedEntityTypeDiscriminants};
use mithril_era::{EraMarker, EraReader, adapters::EraReaderDummyAdapter};
use mithril_common::entities::{Epoch, SupportedEra};
use mithril_common::test::double::Dummy;
use warp::Filter;
use warp::filters::BoxedFilter;

use crate::chain::{SharedView, SimChainObserver, SimDigester, SimImmutableObserver};

use async_trait::async_trait;
use mithril_aggregator::database::record::SignedEntityRecord;
use mithril_aggregator::database::repository::{SignedEntityStore, SignedEntityStorer};
use mithril_common::StdResult;

/// The real signed-entity store behind a gate the scheduler opens: an artifact task can only
/// *complete* (insert its signed entity, release its entity-type lock) inside a `Background`
/// event. Artifact computation uses real blocking-pool threads (file I/O); gating its only
/// observable effect keeps "the artifact lands before / between / after the next ticks" a seeded
/// choice instead of a timing accident.
pub struct GatedSignedEntityStorer {
    inner: Arc<SignedEntityStore>,
    gate: tokio::sync::watch::Sender<bool>,
}

#[async_trait]
impl SignedEntityStorer for GatedSignedEntityStorer {
    async fn store_signed_entity(&self, signed_entity: &SignedEntityRecord) -> StdResult<()> {
        let mut rx = self.gate.subscribe();
        while !*rx.borrow_and_update() {
            if rx.changed().await.is_err() {
                break;
            }
        }
        self.inner.store_signed_entity(signed_entity).await
    }
    async fn get_signed_entity(
        &self,
        signed_entity_id: &str,
        signed_entity_type: &SignedEntityTypeDiscriminants,
    ) -> StdResult<Option<SignedEntityRecord>> {
        self.inner.get_signed_entity(signed_entity_id, signed_entity_type).await
    }
    async fn get_signed_entity_by_certificate_id(&self, certificate_hash: &str) -> StdResult<Option<SignedEntityRecord>> {
        self.inner.get_signed_entity_by_certificate_id(certificate_hash).await
    }
    async fn get_signed_entities_by_certificates_ids<'a>(&self, certificates_ids: &[&'a str]) -> StdResult<Vec<SignedEntityRecord>> {
        self.inner.get_signed_entities_by_certificates_ids(certificates_ids).await
    }
    async fn get_last_signed_entities_by_type(
        &self,
        signed_entity_type_id: &SignedEntityTypeDiscriminants,
        total: usize,
    ) -> StdResult<Vec<SignedEntityRecord>> {
        self.inner.get_last_signed_entities_by_type(signed_entity_type_id, total).await
    }
    async fn get_last_signed_entities_by_type_and_epoch(
        &self,
        signed_entity_type_id: &SignedEntityTypeDiscriminants,
        epoch: Epoch,
        total: usize,
    ) -> StdResult<Vec<SignedEntityRecord>> {
        self.inner.get_last_signed_entities_by_type_and_epoch(signed_entity_type_id, epoch, total).await
    }
    async fn get_cardano_stake_distribution_signed_entity_by_epoch(&self, epoch: Epoch) -> StdResult<Option<SignedEntityRecord>> {
        self.inner.get_cardano_stake_distribution_signed_entity_by_epoch(epoch).await
    }
    async fn update_signed_entities(&self, signed_entities: Vec<SignedEntityRecord>) -> StdResult<Vec<SignedEntityRecord>> {
        self.inner.update_signed_entities(signed_entities).await
    }
}

#[derive(Clone, Debug)]
pub struct AggSettings {
    pub protocol_parameters: ProtocolParameters,
    pub entity_types: Vec<SignedEntityTypeDiscriminants>,
    /// false only in counterfactual re-runs that attribute a violation to the known finding
    /// `C16-dmq-dedup-ignores-sender`: the consumer then reads the DMQ node without the
    /// repository's deduplicating client
    pub dmq_dedup: bool,
    /// the genesis verification key in the operator's configuration (None: the one the genesis
    /// certificate of this world was signed with)
    pub genesis_vk_hex: Option<String>,
}

/// The message-queue side of the aggregator: what the (simulated) DMQ node hands over when the
/// consumer asks. Everything behind it is the repository's: the deduplicating consumer client,
/// the DMQ signature consumer, the sequential signature processor, the certifier.
#[derive(Default)]
pub struct SimDmqNode {
    queue: std::sync::Mutex<Vec<(mithril_common::messages::RegisterSignatureMessageDmq, String)>>,
}

#[async_trait]
impl mithril_dmq::DmqConsumerClient<mithril_common::messages::RegisterSignatureMessageDmq> for SimDmqNode {
    async fn consume_messages(&self) -> StdResult<Vec<(mithril_common::messages::RegisterSignatureMessageDmq, String)>> {
        Ok(std::mem::take(&mut *self.queue.lock().unwrap()))
    }
}

pub struct AggInner {
    pub dmq_node: Arc<SimDmqNode>,
    pub signature_processor: Arc<dyn mithril_aggregator::services::SignatureProcessor>,
    _stop_tx: tokio::sync::watch::Sender<()>,
    pub runtime: AggregatorRuntime,
    pub deps: ServeCommandDependenciesContainer,
    pub routes: BoxedFilter<(warp::reply::Response,)>,
    pub open_message_repository: Arc<OpenMessageRepository>,
    pub gate: Arc<GatedSignedEntityStorer>,
    // keeps the connections / shared services alive
    _builder: DependenciesBuilder,
}

pub struct AggregatorNode {
    pub dir: PathBuf,
    pub view: SharedView,
    pub settings: AggSettings,
    pub rt: tokio::runtime::Runtime,
    pub inner: Option<AggInner>,
    pub restarts: u64,
    /// a cycle had to be helped by opening the artifact gate (see `tick`)
    pub cycle_waited_for_artifact: bool,
}

pub fn logger() -> slog::Logger {
    if std::env::var_os("VERIF_LOG").is_some() {
        slog::Logger::root(StderrDrain, slog::o!())
    } else {
        slog::Logger::root(slog::Discard, slog::o!())
    }
}

struct StderrDrain;
impl slog::Drain for StderrDrain {
    type Ok = ();
    type Err = slog::Never;
    fn log(&self, record: &slog::Record, _values: &slog::OwnedKVList) -> Result<(), slog::Never> {
        if record.level().is_at_least(slog::Level::Info) {
            eprintln!("[{}] {}", record.level().as_short_str(), record.msg());
        }
        Ok(())
    }
}

fn new_runtime() -> tokio::runtime::Runtime {
    tokio::runtime::Builder::new_current_thread()
        .enable_all()
        .start_paused(true)
        .build()
        .expect("tokio runtime")
}

impl AggregatorNode {
    pub fn new(dir: PathBuf, view: SharedView, settings: AggSettings) -> Self {
        std::fs::create_dir_all(&dir).expect("aggregator dir");
        AggregatorNode { dir, view, settings, rt: new_runtime(), inner: None, restarts: 0, cycle_waited_for_artifact: false }
    }

    fn configuration(&self) -> ServeCommandConfiguration {
        let stores = self.dir.join("stores");
        std::fs::create_dir_all(&stores).expect("stores dir");
        let snapshots = self.dir.join("snapshots");
        std::fs::create_dir_all(&snapshots).expect("snapshot dir");
        let sample = ServeCommandConfiguration::new_sample(snapshots.clone());
        ServeCommandConfiguration {
            protocol_parameters: Some(self.settings.protocol_parameters.clone()),
            signed_entity_types: Some(
                self.settings.entity_types.iter().map(|d| d.to_string()).collect::<Vec<_>>().join(","),
            ),
            data_stores_directory: stores,
            genesis_verification_key: self.settings.genesis_vk_hex.clone().unwrap_or_else(|| sample.genesis_verification_key.clone()),
            // blocks 100, 120, ...: a beacon every 15 blocks, nothing held back from the tip
            cardano_transactions_signing_config: Some(mithril_common::entities::CardanoTransactionsSigningConfig {
                security_parameter: mithril_common::entities::BlockNumberOffset(5),
                step: mithril_common::entities::BlockNumber(15),
            }),
            cardano_blocks_transactions_signing_config: Some(mithril_common::entities::CardanoBlocksTransactionsSigningConfig {
                security_parameter: mithril_common::entities::BlockNumberOffset(5),
                step: mithril_common::entities::BlockNumber(15),
            }),
            ..ServeCommandConfiguration::new_sample(snapshots)
        }
    }

    /// (Re)build the whole service graph over the node's directory: process start.
    pub fn start(&mut self) -> anyhow::Result<()> {
        // a stopped process loses its runtime with every task in it
        self.inner = None;
        self.rt = new_runtime();
        let configuration = self.configuration();
        let view = self.view.clone();
        let dmq_dedup = self.settings.dmq_dedup;
        let genesis_vk_hex = self.settings.genesis_vk_hex.clone();
        let inner = self.rt.block_on(async move {
            let snapshotter =
                Arc::new(FakeSnapshotter::new(configuration.get_snapshot_dir()?.join("fake_snapshots")));
            let mut b = DependenciesBuilder::new(logger(), Arc::new(configuration));
            b.snapshot_uploader = Some(Arc::new(DumbUploader::default()));
            b.chain_observer = Some(Arc::new(SimChainObserver { view: view.clone() }));
            b.immutable_file_observer = Some(Arc::new(SimImmutableObserver { view: view.clone() }));
            b.immutable_digester = Some(Arc::new(SimDigester::default()));
            b.snapshotter = Some(snapshotter);
            let era_adapter = Arc::new(EraReaderDummyAdapter::from_markers(vec![EraMarker::new(
                &SupportedEra::dummy().to_string(),
                Some(Epoch(0)),
            )]));
            b.era_reader = Some(Arc::new(EraReader::new(era_adapter)));
            b.block_scanner = Some(Arc::new(crate::chain::SimBlockScanner { view: view.clone() }));
            // the execution environment of the simulated node is `Test` (no cloud uploaders), in
            // which the builder ignores the configured genesis verification key: hand it over the
            // way the `Production` branch of `build_genesis_verifier` would
            if let Some(hex) = &genesis_vk_hex {
                b.genesis_verifier = Some(Arc::new(mithril_common::crypto_helper::GenesisVerifier::try_from_hex(hex)?));
            }
            let gate = Arc::new(GatedSignedEntityStorer {
                inner: Arc::new(SignedEntityStore::new(b.get_sqlite_connection().await?)),
                gate: tokio::sync::watch::channel(false).0,
            });
            b.signed_entity_storer = Some(gate.clone());
            let deps = b.build_serve_dependencies_container().await?;
            let runtime = b.create_aggregator_runner().await?;
            let routes = b
                .create_http_routes()
                .await?
                .map(|reply| warp::reply::Reply::into_response(reply))
                .boxed();
            let open_message_repository = b.get_open_message_repository().await?;
            // message-queue ingress, wired as `create_signature_processor` wires it, over the
            // simulated DMQ node
            let dmq_node = Arc::new(SimDmqNode::default());
            let deduplicator: Arc<dyn mithril_dmq::DmqConsumerClient<mithril_common::messages::RegisterSignatureMessageDmq>> = if dmq_dedup {
                Arc::new(mithril_dmq::DmqConsumerClientDeduplicator::new_with_default_ttl(
                    dmq_node.clone(),
                    Arc::new(mithril_dmq::SystemUnixTimestampProvider),
                ))
            } else {
                dmq_node.clone()
            };
            let (stop_tx, stop_rx) = tokio::sync::watch::channel(());
            let signature_processor = Arc::new(mithril_aggregator::services::SequentialSignatureProcessor::new(
                Arc::new(mithril_aggregator::services::SignatureConsumerDmq::new(deduplicator)),
                deps.certifier_service.clone(),
                stop_rx,
                b.get_metrics_service().await?,
                std::time::Duration::from_millis(10),
                logger(),
            ));
            anyhow::Ok(AggInner { dmq_node, signature_processor, _stop_tx: stop_tx, runtime, deps, routes, open_message_repository, gate, _builder: b })
        })?;
        self.inner = Some(inner);
        self.restarts += 1;
        Ok(())
    }

    /// Process stop: every task and connection goes away, only files survive.
    pub fn stop(&mut self) {
        self.inner = None;
        self.rt = new_runtime();
    }

    pub fn is_up(&self) -> bool {
        self.inner.is_some()
    }

    /// One state-machine cycle. Returns the state label afterwards and the error text if the
    /// cycle failed.
    pub fn tick(&mut self) -> (String, Option<String>) {
        let inner = self.inner.as_mut().expect("aggregator is down");
        // as in production, a freshly spawned artifact task starts computing right away (it reads
        // the epoch service now, not whenever this runtime next happens to yield); it then waits
        // at the signed-entity store's gate until a Background event lets it complete
        // Deadlock detector: the clock of this runtime is paused and auto-advances to the next
        // timer as soon as nothing is runnable (and no blocking-pool task is in flight); a timer
        // a simulated decade away therefore fires exactly when the cycle waits for something that
        // no timer will ever bring - in practice an artifact task held at the gate, if the code
        // under test makes the cycle wait for it. The gate is then opened for the rest of the
        // cycle (in production the task runs concurrently and completes); if the cycle is stuck
        // again, it never returns: reported as such, the node has to be restarted.
        let gate = inner.gate.clone();
        let mut waited_for_artifact = false;
        let res = self.rt.block_on(async {
            let cycle = inner.runtime.cycle();
            tokio::pin!(cycle);
            let res = loop {
                tokio::select! {
                    biased;
                    r = &mut cycle => break Some(r),
                    _ = tokio::time::sleep(std::time::Duration::from_secs(10 * 365 * 86_400)) => {
                        if waited_for_artifact {
                            break None;
                        }
                        waited_for_artifact = true;
                        let _ = gate.gate.send_replace(true);
                    }
                }
            };
            if waited_for_artifact {
                let _ = gate.gate.send_replace(false);
            }
            for _ in 0..4 {
                tokio::task::yield_now().await;
            }
            res
        });
        self.cycle_waited_for_artifact |= waited_for_artifact;
        match res {
            Some(res) => (inner.runtime.state_label().to_string(), res.err().map(|e| format!("{e:?}"))),
            None => ("hung".to_string(), Some("the cycle of the state machine does not return (deadlock: nothing runnable, no timer pending)".to_string())),
        }
    }

    pub fn state_label(&self) -> String {
        self.inner.as_ref().map(|i| i.runtime.state_label().to_string()).unwrap_or("down".into())
    }

    /// Let spawned background tasks (artifact creation) run to completion: the gate of the
    /// signed-entity store is open only here. Returns false if a task did not finish in time.
    pub fn run_background(&mut self, _polls: u32) -> bool {
        let Some(inner) = self.inner.as_ref() else { return true };
        let lock = inner.deps.signed_entity_type_lock.clone();
        let gate = inner.gate.clone();
        let _ = gate.gate.send_replace(true);
        let mut done = false;
        for i in 0..40_000u32 {
            let locked = self.rt.block_on(async {
                tokio::task::yield_now().await;
                tokio::task::yield_now().await;
                lock.has_locked_entities().await
            });
            if !locked {
                done = true;
                break;
            }
            if i > 3 {
                // an artifact task is waiting for real blocking-pool work (file I/O)
                std::thread::sleep(std::time::Duration::from_micros(100));
            }
        }
        let _ = gate.gate.send_replace(false);
        done
    }

    /// The DMQ node hands one message (payload + the pool id of its authenticated envelope) to the
    /// aggregator's consumer, and the signature processor runs one round.
    pub fn dmq_deliver(&mut self, message: mithril_common::messages::RegisterSignatureMessageDmq, party_id: String) -> Option<String> {
        self.dmq_deliver_batch(vec![(message, party_id)])
    }

    /// Several messages handed over by the DMQ node in one answer (one round of the processor).
    pub fn dmq_deliver_batch(&mut self, batch: Vec<(mithril_common::messages::RegisterSignatureMessageDmq, String)>) -> Option<String> {
        let inner = self.inner.as_ref().expect("aggregator is down");
        inner.dmq_node.queue.lock().unwrap().extend(batch);
        let processor = inner.signature_processor.clone();
        let rt = &self.rt;
        let res = std::panic::catch_unwind(std::panic::AssertUnwindSafe(|| rt.block_on(async move { processor.process_signatures().await })));
        match res {
            Ok(Ok(())) => None,
            Ok(Err(e)) => Some(format!("{e:#}")),
            Err(_) => Some("PANIC in the signature processor".into()),
        }
    }

    /// In-process HTTP request against the real route filter.
    pub fn http(&mut self, method: &str, path: &str, body: Option<&str>) -> (u16, String) {
        let inner = self.inner.as_ref().expect("aggregator is down");
        let routes = inner.routes.clone();
        let mut req = warp::test::request().method(method).path(path);
        if let Some(b) = body {
            req = req.header("content-type", "application/json").body(b.to_string());
        }
        // a panic inside a route handler kills the request's task in a real server (the client
        // sees a reset connection), not the process: report it as status 599
        let rt = &self.rt;
        let res = std::panic::catch_unwind(std::panic::AssertUnwindSafe(|| {
            rt.block_on(async move { req.reply(&routes).await })
        }));
        match res {
            Ok(resp) => (resp.status().as_u16(), String::from_utf8_lossy(resp.body()).to_string()),
            Err(p) => {
                let text = p
                    .downcast_ref::<String>()
                    .cloned()
                    .or_else(|| p.downcast_ref::<&str>().map(|s| s.to_string()))
                    .unwrap_or_default();
                (599, format!("route handler panicked: {text}"))
            }
        }
    }

    pub fn block_on<F: std::future::Future>(&self, f: F) -> F::Output {
        self.rt.block_on(f)
    }
}
